#!/usr/bin/env python3
"""C15 -- covariance kernels are valid and their gradients match their values.
Positive semidefiniteness, symmetry and numerical gradient equality are NOT decided.  Static rules
(DESIGN.md §C15):

 sibling-primitives  within one class the kernel *value* computed by `k_and_deriv` (resp. `_get_k0_dk0_eval`,
                     `DFTKernel.get_k_and_deriv`) uses the same distance primitives (cdist metric, operand
                     ranks, broadcast patterns, inner products, input selections, delegations, constructor
                     hyper-parameters) as `__call__` (resp. `_get_k0_dk0_train`, `get_k`)
 sibling-override    a class that re-selects its inputs in `__call__` must not inherit a `k_and_deriv` that does not
 pol-kernel          the polarised kernel k_aa k_bb + k_ab k_ba has the same sum-of-products form in
                     get_k / get_k_and_deriv / get_kctrl / _reduce_npts and its input gradient obeys the product rule
 lock-pairing        every `self._locked = True` reaches `self._locked = False` on every normal path; the delegated
                     base call happens inside the locked region
 attr-defined        every `self.<a>` read by a kernel class is assigned or defined in the class or its repo /
                     sklearn bases (sklearn's installed source is parsed, never imported)
 fixed-excluded      a returned hyper-parameter gradient is either guarded by `not self.hyperparameter_*.fixed`,
                     zero-width, passed through, or an array whose width counter and slot stores are guarded
 slot-offset         slots follow sklearn's alphabetical hyper-parameter order and the offset of a later slot
                     accounts for earlier hyper-parameters being fixed
 units-input         (E-deg, sa.deg) with X, Y, length scales of unit U: unit(dk) == unit(k)/U for every k_and_deriv,
                     composites typed with symbolic child units K1, K2 and a symbolic exponent p
 units-hyper         (E-deg) unit(d k / d log theta) == unit(k) for __call__(X, eval_gradient=True)
"""
import ast
import glob
import os
import re
import sys

sys.path.insert(0, os.path.dirname(os.path.dirname(os.path.abspath(__file__))))
from sa import core, pyfacts as pf, cfg as cfgm, inline  # noqa: E402
from sa.selftest import Mutant  # noqa: E402

PROP = "C15"
KR = "ciderpress/models/kernels.py"
DKR = "ciderpress/models/dft_kernel.py"
XE = "ciderpress/dft/xc_evaluator.py"
XE2 = "ciderpress/dft/xc_evaluator2.py"
SK_REL = "sklearn/gaussian_process/kernels.py"
SCIPY_REL = "scipy/spatial/distance.py"
SK_MODNAME = "sklearn.gaussian_process.kernels"

FROZEN_METRICS = {
    "braycurtis": {"braycurtis"}, "canberra": {"canberra"},
    "chebyshev": {"chebychev", "chebyshev", "cheby", "cheb", "ch"},
    "cityblock": {"cityblock", "cblock", "cb", "c"}, "correlation": {"correlation", "co"},
    "cosine": {"cosine", "cos"}, "dice": {"dice"}, "euclidean": {"euclidean", "euclid", "eu", "e"},
    "hamming": {"matching", "hamming", "hamm", "ha", "h"}, "jaccard": {"jaccard", "jacc", "ja", "j"},
    "jensenshannon": {"jensenshannon", "js"}, "mahalanobis": {"mahalanobis", "mahal", "mah"},
    "minkowski": {"minkowski", "mi", "m", "pnorm"}, "rogerstanimoto": {"rogerstanimoto"},
    "russellrao": {"russellrao"}, "seuclidean": {"seuclidean", "se", "s"}, "sokalsneath": {"sokalsneath"},
    "sqeuclidean": {"sqeuclidean", "sqe", "sqeuclid"}, "yule": {"yule"},
}


# ----------------------------------------------------------------------------
# third-party sources (parsed, never imported)
# ----------------------------------------------------------------------------
def site_packages():
    env = os.environ.get("VERIF_SITE_PACKAGES")
    cands = [env] if env else sorted(glob.glob("/venv/lib/python3*/site-packages"))
    for c in cands:
        if c and os.path.exists(os.path.join(c, SK_REL)):
            return c
    raise core.AnalysisError("installed sklearn source (%s) not found; set VERIF_SITE_PACKAGES" % SK_REL)


def scipy_metric_aliases(site):
    p = os.path.join(site, SCIPY_REL)
    table = {}
    if os.path.exists(p):
        try:
            with open(p, encoding="utf-8") as fh:
                t = ast.parse(fh.read())
            for n in ast.walk(t):
                if isinstance(n, ast.Call) and pf.call_name(n) == "MetricInfo":
                    kw = {k.arg: k.value for k in n.keywords}
                    if "canonical_name" in kw and "aka" in kw:
                        try:
                            table[pf.literal(kw["canonical_name"])] = set(pf.literal(kw["aka"]))
                        except pf.NotLiteral:
                            pass
        except (OSError, SyntaxError):
            table = {}
    src = "installed scipy source" if table else "frozen table"
    if not table:
        table = FROZEN_METRICS
    alias = {}
    for canon, aka in table.items():
        for a in aka | {canon}:
            alias[a] = canon
    return alias, src


class Universe:
    """Repo kernel classes + sklearn kernel classes with a real C3 MRO."""

    def __init__(self, tree):
        self.tree = tree
        self.site = site_packages()
        self.sktree = core.Tree(self.site)
        self.sk = pf.Module(self.sktree, SK_REL)
        # statement-level helper calls inlined one level (sa.inline): rules see one body per method
        # (_check_length_scale stays a call: the isotropic-index rule keys on it)
        self.km = inline.InlinedModule(tree, KR, skip=("_check_length_scale",))
        self._mro = {}

    def resolve(self, mod, base):
        """base expression of a class statement in `mod` -> (Module, ClassDef) | 'object' | None"""
        if isinstance(base, ast.Name):
            if base.id == "object":
                return "object"
            if base.id in mod.classes:
                return mod, mod.classes[base.id]
            imp = mod.imports.get(base.id)
            if imp and imp[0] == SK_MODNAME and imp[1] in self.sk.classes:
                return self.sk, self.sk.classes[imp[1]]
        return None

    def mro(self, mod, cls):
        key = id(cls)
        if key in self._mro:
            return self._mro[key]
        seqs = []
        parents = []
        for b in cls.bases:
            r = self.resolve(mod, b)
            if r == "object":
                continue
            if r is None:
                raise core.AnalysisError("cannot resolve base %s of class %s (%s)" % (pf.src(b), cls.name, mod.rel))
            parents.append(r)
            seqs.append(list(self.mro(*r)))
        seqs.append(list(parents))
        out = [(mod, cls)]
        seqs = [s for s in seqs if s]
        while seqs:
            for s in seqs:
                cand = s[0]
                if not any(any(c[1] is cand[1] for c in t[1:]) for t in seqs):
                    break
            else:
                raise core.AnalysisError("inconsistent MRO for %s" % cls.name)
            out.append(cand)
            seqs = [[c for c in s if c[1] is not cand[1]] for s in seqs]
            seqs = [s for s in seqs if s]
        self._mro[key] = out
        return out

    def is_kernel(self, mod, cls):
        return any(m is self.sk and c.name == "Kernel" for m, c in self.mro(mod, cls))

    def find_method(self, mod, cls, name, skip_first=False):
        for m, c in self.mro(mod, cls)[1 if skip_first else 0:]:
            ms = pf.methods(c)
            if name in ms:
                return m, c, ms[name]
        return None

    def ctor_params(self, mod, cls):
        out = set()
        for m, c in self.mro(mod, cls):
            init = pf.methods(c).get("__init__")
            if init is not None:
                out |= {a.arg for a in init.args.args[1:] + init.args.kwonlyargs}
        return out

    def hyperparameters(self, mod, cls):
        out = set()
        for m, c in self.mro(mod, cls):
            for n in pf.methods(c):
                if n.startswith("hyperparameter_"):
                    out.add(n[len("hyperparameter_"):])
        return out


# ----------------------------------------------------------------------------
# value slices and primitive signatures (rule 2)
# ----------------------------------------------------------------------------
NEWAXIS = ("None", "np.newaxis", "numpy.newaxis")
PAIR_SETS = [("__call__", "k_and_deriv"), ("_get_k0_dk0_train", "_get_k0_dk0_eval")]
# a derivative-side helper stands for its value-side sibling (compared on its own as a pair)
HELPER_PAIRS = {d: v for v, d in PAIR_SETS if not v.startswith("__")}
SKIP_KW = {"eval_gradient", "get_sub_kernels"}


def fn_defs(fn):
    """name -> list of (stmt, value_expr, target) for every assignment rooted at that name"""
    out = {}
    for st in pf.walk_no_nested(fn):
        if isinstance(st, ast.Assign):
            for t in st.targets:
                for tt in (t.elts if isinstance(t, (ast.Tuple, ast.List)) else [t]):
                    r = pf.base_name(tt)
                    if r and not (isinstance(tt, ast.Attribute)):
                        out.setdefault(r, []).append((st, st.value, tt))
        elif isinstance(st, ast.AugAssign):
            r = pf.base_name(st.target)
            if r and not isinstance(st.target, ast.Attribute):
                out.setdefault(r, []).append((st, st.value, st.target))
        elif isinstance(st, ast.For):
            for tt in (st.target.elts if isinstance(st.target, ast.Tuple) else [st.target]):
                if isinstance(tt, ast.Name):
                    out.setdefault(tt.id, []).append((st, st.iter, tt))
    return out


def value_slice(fn, starts):
    """expressions that may flow into the start expressions (flow-insensitive, intraprocedural)"""
    defs = fn_defs(fn)
    exprs = list(starts)
    seen = set()
    todo = [n.id for e in starts for n in ast.walk(e) if isinstance(n, ast.Name)]
    while todo:
        nm = todo.pop()
        if nm in seen:
            continue
        seen.add(nm)
        for st, val, tgt in defs.get(nm, []):
            exprs.append(val)
            if isinstance(tgt, ast.Subscript):
                exprs.append(tgt.slice)
            for e in (val, tgt.slice if isinstance(tgt, ast.Subscript) else None):
                if e is not None:
                    todo += [n.id for n in ast.walk(e) if isinstance(n, ast.Name)]
    return exprs, seen


def value_starts(fn, tuple_only=False):
    out = []
    for r in pf.walk_no_nested(fn):
        if isinstance(r, ast.Return) and r.value is not None:
            v = r.value
            if isinstance(v, ast.Tuple) and v.elts:
                out.append(v.elts[0])
            elif not tuple_only:
                out.append(v)
    return out


class Ranker:
    def __init__(self, fn):
        self.fn = fn
        self.defs = fn_defs(fn)
        ps = [a.arg for a in fn.args.args]
        self.params = [p for p in ps if p not in ("self", "cls")]
        self._busy = set()

    def role(self, name):
        """X for the first array parameter, Y for the second (Y=None means Y:=X)"""
        if self.params and name == self.params[0]:
            return "X"
        if len(self.params) > 1 and name == self.params[1]:
            return "Y"
        return None

    def roots(self, e):
        """array-parameter roles an expression depends on (through locals)"""
        out = set()
        seen = set()
        todo = [n.id for n in ast.walk(e) if isinstance(n, ast.Name)]
        while todo:
            nm = todo.pop()
            if nm in seen:
                continue
            seen.add(nm)
            r = self.role(nm)
            if r:
                out.add(r)
            for st, val, tgt in self.defs.get(nm, []):
                if isinstance(st, ast.For):
                    continue
                todo += [n.id for n in ast.walk(val) if isinstance(n, ast.Name)]
        return out

    def rank(self, e):
        if isinstance(e, ast.Name):
            if self.role(e.id) and e.id not in self.defs:
                return 2
            if e.id in self._busy:
                return 2 if self.role(e.id) else None
            self._busy.add(e.id)
            try:
                rs = set()
                for st, val, tgt in self.defs.get(e.id, []):
                    if isinstance(st, ast.For) or isinstance(tgt, ast.Subscript) or isinstance(st, ast.AugAssign):
                        continue
                    rs.add(self.rank(val))
                if self.role(e.id):
                    rs.add(2)
                rs.discard(None)
                return rs.pop() if len(rs) == 1 else None
            finally:
                self._busy.discard(e.id)
        if isinstance(e, ast.Subscript):
            r = self.rank(e.value)
            if r is None:
                return None
            idx = e.slice.elts if isinstance(e.slice, ast.Tuple) else [e.slice]
            for i in idx:
                if isinstance(i, ast.Slice):
                    continue
                if pf.src(i) in NEWAXIS:
                    r += 1
                elif isinstance(i, ast.Constant) and isinstance(i.value, int):
                    r -= 1
                elif isinstance(i, ast.Constant) and i.value is Ellipsis:
                    return None
                else:
                    return None
            return r
        if isinstance(e, ast.BinOp):
            a, b = self.rank(e.left), self.rank(e.right)
            ks = [x for x in (a, b) if x is not None]
            return max(ks) if ks else None
        if isinstance(e, ast.UnaryOp):
            return self.rank(e.operand)
        if isinstance(e, ast.Call):
            cn = pf.call_name(e) or ""
            if isinstance(e.func, ast.Attribute) and e.func.attr in ("copy", "astype"):
                return self.rank(e.func.value)
            if cn.split(".")[-1] in ("asarray", "ascontiguousarray", "array", "exp", "sqrt", "abs") and e.args:
                return self.rank(e.args[0])
        if isinstance(e, ast.Attribute) and e.attr == "T":
            return self.rank(e.value)
        return None


def rk(r):
    return "?-D" if r is None else "%d-D" % r


def idx_pattern(sub):
    idx = sub.slice.elts if isinstance(sub.slice, ast.Tuple) else [sub.slice]
    out = []
    for i in idx:
        if isinstance(i, ast.Slice) and i.lower is None and i.upper is None and i.step is None:
            out.append(":")
        elif pf.src(i) in NEWAXIS:
            out.append("N")
        else:
            out.append(pf.src(i))
    return ",".join(out)


def has_newaxis(sub):
    idx = sub.slice.elts if isinstance(sub.slice, ast.Tuple) else [sub.slice]
    return any(pf.src(i) in NEWAXIS for i in idx)


def is_self_call(call, names):
    """self.<name>(...) | self(...) [if '__call__' in names] | super(...).<name>(...) |
    self._base_cls.<name>(self, ...)"""
    f = call.func
    if isinstance(f, ast.Name) and f.id == "self" and "__call__" in names:
        return "self"
    if isinstance(f, ast.Attribute) and f.attr in names:
        v = f.value
        if isinstance(v, ast.Name) and v.id == "self":
            return "self"
        if isinstance(v, ast.Call) and pf.call_name(v) == "super":
            return "super"
        if pf.is_self_attr(v, "_base_cls"):
            return "base"
    return None


def call_args_sig(call, drop_self, rkr=None):
    """array arguments of a delegation, each described by the array parameters (roles X / Y) it is computed from,
    so that renaming or introducing a local does not change the signature"""
    out = []
    for i, a in enumerate(call.args):
        if drop_self and i == 0 and isinstance(a, ast.Name) and a.id == "self":
            continue
        if isinstance(a, ast.Starred):
            continue
        out.append(a)
    for kw in call.keywords:
        if kw.arg is None or kw.arg in SKIP_KW:
            continue
        out.append(kw.value)
    sig = []
    for a in out:
        txt = pf.src(a)
        if txt in SKIP_KW or txt in ("True", "False"):
            continue
        if rkr is not None:
            roots = rkr.roots(a)
            if isinstance(a, ast.Constant) and a.value is None:
                sig.append("None")
            elif roots:
                sig.append("Y" if "Y" in roots else "+".join(sorted(roots)))  # `Y = X if Y is None` is still the Y operand
            elif isinstance(a, ast.Name):
                continue  # a flag or option handed through
            else:
                sig.append(txt)
        else:
            sig.append(txt)
    return tuple(sig)



def _index_attrs(uni, mod, cls, rkr, idx, depth=3):
    """self attributes that determine an index expression, followed through local index variables and
    argument-less self helpers"""
    out = set()
    for x in ast.walk(idx):
        if pf.is_self_attr(x) and isinstance(x.ctx, ast.Load):
            par = pf.parent(x)
            if isinstance(par, ast.Call) and par.func is x and not par.args and cls is not None:
                r_ = uni.find_method(mod, cls, x.attr)
                if r_ is not None and r_[0] is uni.km:
                    out |= {y.attr for y in ast.walk(r_[2]) if pf.is_self_attr(y) and isinstance(y.ctx, ast.Load)
                            and not (isinstance(pf.parent(y), ast.Call) and pf.parent(y).func is y)}
                    continue
            out.add(x.attr)
        elif isinstance(x, ast.Name) and depth > 0 and x.id in rkr.defs and not rkr.role(x.id):
            for st, val, tgt in rkr.defs[x.id]:
                if not isinstance(st, ast.For) and not isinstance(tgt, ast.Subscript):
                    out |= _index_attrs(uni, mod, cls, rkr, val, depth - 1)
    return out


def primitives(uni, mod, cls, fn, exprs, alias, pair_names):
    """set of signature tuples; pair_names = the sibling method names that count as 'the same method'"""
    rkr = Ranker(fn)
    sigs = {}
    ctor = uni.ctor_params(mod, cls) if cls is not None else set()

    def add(sig, node):
        sigs.setdefault(sig, node)

    sel_union, sel_node = {}, {}
    for root in exprs:
        for n in ast.walk(root):
            if isinstance(n, ast.Call):
                cn = pf.call_name(n) or ""
                last = cn.split(".")[-1]
                if last in ("cdist", "pdist"):
                    metric = "euclidean"
                    mexp = None
                    for kw in n.keywords:
                        if kw.arg == "metric":
                            mexp = kw.value
                    if len(n.args) >= 3:
                        mexp = n.args[2]
                    if isinstance(mexp, ast.Name) and isinstance(mod.assigns.get(mexp.id), ast.Constant):
                        mexp = mod.assigns[mexp.id]  # literal == module-level named constant
                    if mexp is not None:
                        metric = mexp.value if isinstance(mexp, ast.Constant) else "<%s>" % pf.src(mexp)
                    canon = alias.get(metric)
                    mtxt = canon if canon else "%s [not a scipy metric]" % metric
                    ranks = tuple(rkr.rank(a) for a in n.args[:2 if last == "cdist" else 1])
                    add((last, mtxt) + tuple(rk(r) for r in ranks), n)
                    continue
                who = is_self_call(n, pair_names)
                if who:
                    add(("delegate", who, call_args_sig(n, who == "base", rkr)), n)
                    continue
                # child kernels / other objects: self.<attr>(...) and self.<attr>.<pair>(...)
                f = n.func
                if pf.is_self_attr(f) and f.attr in ctor:
                    add(("delegate", "self." + f.attr, call_args_sig(n, False, rkr)), n)
                    continue
                if isinstance(f, ast.Attribute) and f.attr in pair_names and pf.is_self_attr(f.value):
                    add(("delegate", "self." + f.value.attr, call_args_sig(n, False, rkr)), n)
                    continue
                if isinstance(f, ast.Attribute) and isinstance(f.value, ast.Name) and f.value.id == "self" \
                        and n.args and rkr.roots(n.args[0]):
                    add(("xform", HELPER_PAIRS.get(f.attr, f.attr), tuple(sorted(rkr.roots(n.args[0])))), n)
                    continue
                if isinstance(f, ast.Attribute) and f.attr == "dot" and n.args:
                    add(("dot", _operand(rkr, f.value), _operand(rkr, n.args[0])), n)
                    continue
                if last in ("dot", "inner", "matmul") and cn.startswith(("np.", "numpy.")) and len(n.args) >= 2:
                    add(("dot", _operand(rkr, n.args[0]), _operand(rkr, n.args[1])), n)
                    continue
                if last == "einsum" and n.args and isinstance(n.args[0], ast.Constant):
                    add(("einsum", n.args[0].value.replace(" ", ""),
                         tuple(_operand(rkr, a) for a in n.args[1:])), n)
                    continue
            if isinstance(n, ast.BinOp) and isinstance(n.op, ast.MatMult):
                add(("dot", _operand(rkr, n.left), _operand(rkr, n.right)), n)
            if isinstance(n, ast.BinOp) and isinstance(n.op, (ast.Sub, ast.Mult)) \
                    and isinstance(n.left, ast.Subscript) and isinstance(n.right, ast.Subscript) \
                    and has_newaxis(n.left) and has_newaxis(n.right):
                a = (tuple(sorted(rkr.roots(n.left.value))), idx_pattern(n.left))
                b = (tuple(sorted(rkr.roots(n.right.value))), idx_pattern(n.right))
                kind = "broadcast-diff" if isinstance(n.op, ast.Sub) else "broadcast-prod"
                add((kind, tuple(sorted([a, b]))), n)
            if isinstance(n, ast.Subscript) and isinstance(n.value, ast.Name) and rkr.role(n.value.id):
                # the selecting attributes, through index variables (`inds = slice(self.start, None)`) and private
                # index helpers (`inds = self._get_inds()`)
                attrs = sorted(_index_attrs(uni, mod, cls, rkr, n.slice) & (ctor or _index_attrs(uni, mod, cls, rkr, n.slice)))
                if attrs:
                    role = rkr.role(n.value.id)
                    sel_union.setdefault(role, set()).update(attrs)
                    sel_node.setdefault(role, n)
            if isinstance(n, ast.Call) and isinstance(n.func, ast.Attribute) and isinstance(n.func.value, ast.Name) \
                    and n.func.value.id == "self" and cls is not None and n.func.attr not in pair_names:
                r_ = uni.find_method(mod, cls, n.func.attr)
                if r_ is not None and r_[0] is uni.km and not n.args:
                    # an argument-less private helper: the hyper-parameters it reads are read by this value too
                    for x in ast.walk(r_[2]):
                        if pf.is_self_attr(x) and isinstance(x.ctx, ast.Load) and x.attr in ctor:
                            add(("hyper", x.attr), x)
            if pf.is_self_attr(n) and isinstance(n.ctx, ast.Load) and n.attr in ctor:
                par = pf.parent(n)
                called = isinstance(par, ast.Call) and par.func is n
                holder = isinstance(par, ast.Attribute) and isinstance(pf.parent(par), ast.Call) and pf.parent(par).func is par
                if not called and not holder:
                    add(("hyper", n.attr), n)
    for role, attrs in sel_union.items():
        add(("select", role, tuple(sorted(attrs))), sel_node[role])
    return sigs


def _operand(rkr, e):
    t = False
    while isinstance(e, ast.Attribute) and e.attr == "T":
        t = not t
        e = e.value
    roots = "".join(sorted(rkr.roots(e))) or "?"
    return roots + (".T" if t else "")


def fmt_sig(s):
    if s[0] in ("cdist", "pdist"):
        return "%s(metric=%r, %s)" % (s[0], s[1], ", ".join(s[2:]))
    if s[0] == "delegate":
        return "call of %s with (%s)" % (s[1], ", ".join(s[2]))
    if s[0] == "hyper":
        return "constructor hyper-parameter self.%s" % s[1]
    if s[0] == "select":
        return "%s[..., self.%s]" % (s[1], "/self.".join(s[2]))
    return "%s %s" % (s[0], " ".join(str(x) for x in s[1:]))


def sig_match(a, b):
    if len(a) != len(b) or a[0] != b[0]:
        return False
    for x, y in zip(a[1:], b[1:]):
        if x == y or x == "?-D" or y == "?-D":
            continue
        return False
    return True


def compare_pair(chk, rule, rel, cname, vname, dname, V, D):
    """V, D: sig -> node.  Findings for signatures present on one side only."""
    extra_d = [s for s in D if not any(sig_match(s, v) for v in V)]
    extra_v = [s for s in V if not any(sig_match(s, d) for d in D)]
    inst = "%s: %s vs %s" % (cname, vname, dname)
    if not extra_d and not extra_v:
        chk.ok(rule, inst, detail=sorted(fmt_sig(s) for s in D)[:8])
        return
    for s in sorted(extra_d, key=str):
        n = D[s]
        others = sorted(fmt_sig(v) for v in V if v[0] == s[0]) or ["nothing of that kind"]
        chk.violation(rule, rel, "%s.%s" % (cname, dname), fmt_sig(s), getattr(n, "lineno", 0),
                      "the kernel value returned by %s is built from %s (e.g. `%s`), but %s, which must return the "
                      "same kernel, uses %s: the two cannot agree%s"
                      % (dname, fmt_sig(s), pf.src(n)[:90], vname, "; ".join(others),
                         " (scipy rejects this call outright)" if ("not a scipy metric" in str(s) or "1-D" in s) and s[0] == "cdist" else ""),
                      instance=inst + " :: " + fmt_sig(s))
    for s in sorted(extra_v, key=str):
        n = V[s]
        chk.violation(rule, rel, "%s.%s" % (cname, dname), "missing: " + fmt_sig(s), getattr(n, "lineno", 0),
                      "%s builds the kernel value from %s (`%s`), which the value returned by %s never uses"
                      % (vname, fmt_sig(s), pf.src(n)[:90], dname),
                      instance=inst + " :: missing " + fmt_sig(s))


def rule_siblings(chk, uni, alias):
    km = uni.km
    pair_sets = PAIR_SETS
    for cname, cls in km.classes.items():
        ms = pf.methods(cls)
        for vname, dname in pair_sets:
            if dname not in ms:
                continue
            dfn = ms[dname]
            if _only_raises(dfn):
                continue
            r = uni.find_method(km, cls, vname)
            if r is None or _only_raises(r[2]):
                # mixins: the value method comes from the class they are mixed into
                chk.note("sibling-primitives", "%s.%s" % (cname, dname), "no %s in the MRO of this (mixin) class" % vname)
                continue
            vmod, vcls, vfn = r
            names = {vname, dname}
            dex, _ = value_slice(dfn, value_starts(dfn))
            D = primitives(uni, km, cls, dfn, dex, alias, names)
            # value obtained from the class's own value method: agreement by construction
            own = [s for s in D if s[0] == "delegate" and s[1] == "self"]
            inst = "%s: %s vs %s" % (cname, vname, dname)
            if own:
                chk.ok("sibling-primitives", inst + " (value obtained by calling self.%s)" % vname, nontrivial=False)
                continue
            vex, _ = value_slice(vfn, value_starts(vfn))
            V = primitives(uni, km, cls, vfn, vex, alias, names)
            compare_pair(chk, "sibling-primitives", KR, cname, vname, dname, V, D)
            chk.count("value/derivative sibling pairs compared")
    # input-selecting overrides of __call__ need a matching k_and_deriv
    for cname, cls in km.classes.items():
        ms = pf.methods(cls)
        if "__call__" not in ms:
            continue
        vfn = ms["__call__"]
        vex, _ = value_slice(vfn, value_starts(vfn))
        V = primitives(uni, km, cls, vfn, vex, alias, {"__call__", "k_and_deriv"})
        sel = [s for s in V if s[0] in ("select", "xform")]
        dele = [s for s in V if s[0] == "delegate" and s[1] in ("super", "base")]
        if not sel or not dele:
            continue
        inst = "%s: input selection of __call__ is repeated by k_and_deriv" % cname
        if "k_and_deriv" in ms:
            chk.ok("sibling-override", inst + " (own k_and_deriv, compared by sibling-primitives)", nontrivial=False)
            continue
        r = uni.find_method(km, cls, "k_and_deriv", skip_first=True)
        if r is None or _only_raises(r[2]) or r[0] is not km:
            chk.ok("sibling-override", inst + " (no usable k_and_deriv in the MRO)", nontrivial=False)
            continue
        chk.violation("sibling-override", KR, cname, "inherited k_and_deriv", cls.lineno,
                      "%s.__call__ evaluates its base kernel on %s, but the class inherits k_and_deriv from %s, which "
                      "uses the full input: k_and_deriv(X, Y)[0] != __call__(X, Y) and the input gradient belongs to "
                      "a different function" % (cname, ", ".join(fmt_sig(s) for s in sorted(sel)), r[1].name),
                      instance=inst)


def _only_raises(fn):
    body = [s for s in fn.body if not (isinstance(s, ast.Expr) and isinstance(s.value, ast.Constant))]
    return len(body) == 1 and isinstance(body[0], ast.Raise)


# ----------------------------------------------------------------------------
# polarised kernel (dft_kernel.py)
# ----------------------------------------------------------------------------
def _sop(e):
    """sum of products of names -> frozenset of frozensets, or None"""
    terms = []

    def add_terms(x):
        if isinstance(x, ast.BinOp) and isinstance(x.op, ast.Add):
            add_terms(x.left)
            add_terms(x.right)
        else:
            terms.append(x)
    add_terms(e)
    out = []
    for t in terms:
        fs = []

        def facs(x):
            if isinstance(x, ast.BinOp) and isinstance(x.op, ast.Mult):
                facs(x.left)
                facs(x.right)
            elif isinstance(x, ast.Name):
                fs.append(x.id)
            elif isinstance(x, ast.Subscript) and isinstance(x.value, ast.Name) and all(
                    (isinstance(i, ast.Slice) and i.lower is None and i.upper is None and i.step is None)
                    or pf.src(i) in NEWAXIS or (isinstance(i, ast.Constant) and i.value is Ellipsis)
                    for i in (x.slice.elts if isinstance(x.slice, ast.Tuple) else [x.slice])):
                fs.append(x.value.id)  # an added axis only broadcasts: k[..., None]
            elif isinstance(x, ast.Attribute) and x.attr == "T" and isinstance(x.value, ast.Name):
                fs.append(x.value.id + ".T")
            else:
                fs.append(None)
        facs(t)
        if None in fs:
            return None
        out.append(tuple(sorted(fs)))
    return frozenset(out)


def rule_pol_kernel(chk, prog):
    mod = prog.module(DKR)
    cls = mod.cls("DFTKernel")
    ms = pf.methods(cls)
    forms = {}
    for name in ("get_k", "get_k_and_deriv", "get_kctrl", "_reduce_npts"):
        fn = ms.get(name)
        if fn is None:
            raise core.AnalysisError("DFTKernel.%s vanished" % name)
        # the POL branch
        br = [n for n in pf.walk_no_nested(fn) if isinstance(n, ast.If) and "'POL'" in pf.src(n.test).replace('"', "'")
              and "self.mode" in pf.src(n.test)]
        cands = []
        for b in br:
            calls = {}
            derivs = {}
            for st in b.body:
                if isinstance(st, ast.Assign) and isinstance(st.value, ast.Call):
                    f = st.value.func
                    isk = pf.is_self_attr(f, "kernel")
                    iskd = isinstance(f, ast.Attribute) and f.attr == "k_and_deriv" and pf.is_self_attr(f.value, "kernel")
                    if isk and isinstance(st.targets[0], ast.Name):
                        calls[st.targets[0].id] = tuple(pf.src(a) for a in st.value.args)
                    elif iskd and isinstance(st.targets[0], ast.Tuple) and len(st.targets[0].elts) == 2:
                        kn, dn = (e.id for e in st.targets[0].elts)
                        calls[kn] = tuple(pf.src(a) for a in st.value.args)
                        derivs[dn] = kn
            # blocks defined as an alias or a transpose of another block: kba = kab | kab.T | np.transpose(kab)
            how = {}
            changed = True
            while changed:
                changed = False
                for st in b.body:
                    if not (isinstance(st, ast.Assign) and len(st.targets) == 1 and isinstance(st.targets[0], ast.Name)):
                        continue
                    nm, v = st.targets[0].id, st.value
                    if nm in calls:
                        continue
                    transposed = False
                    while True:
                        if isinstance(v, ast.Attribute) and v.attr == "T":
                            v, transposed = v.value, not transposed
                        elif isinstance(v, ast.Call) and pf.call_name(v) in ("np.transpose", "numpy.transpose") and len(v.args) == 1:
                            v, transposed = v.args[0], not transposed
                        elif isinstance(v, ast.Call) and isinstance(v.func, ast.Attribute) and v.func.attr in ("transpose", "copy") \
                                and not v.args:
                            transposed = (not transposed) if v.func.attr == "transpose" else transposed
                            v = v.func.value
                        else:
                            break
                    if isinstance(v, ast.Name) and v.id in calls:
                        a0, a1 = calls[v.id][:2]
                        calls[nm] = (a1, a0) if transposed else (a0, a1)
                        how[nm] = "%s of %s" % ("transpose" if transposed else "alias", v.id)
                        changed = True
            if len(calls) >= 2:
                cands.append((b, calls, derivs, how))
        if len(cands) != 1:
            raise core.AnalysisError("DFTKernel.%s: POL branch with four kernel blocks not found" % name)
        b, calls, derivs, how = cands[0]
        comb = None
        for nm in list(calls):
            if not nm.endswith(".T"):
                calls[nm + ".T"] = (calls[nm][1], calls[nm][0])
                how[nm + ".T"] = "transpose of %s" % nm
        for st in b.body:
            if isinstance(st, ast.Assign) and isinstance(st.targets[0], ast.Name):
                s = _sop(st.value)
                if s and all(all(f in calls for f in t) for t in s) and len(s) >= 2:
                    comb = (st, s)
        if comb is None:
            raise core.AnalysisError("DFTKernel.%s: combination of the spin blocks not found" % name)
        # canonical: product terms over (spin index of sample, spin index of control)
        def spin(argtxt):
            if argtxt.endswith("[0]"):
                return 0
            if argtxt.endswith("[1]"):
                return 1
            return None
        # a term is the sorted tuple (multiplicity kept) of the (row spin, column spin) keys of its factors,
        # each key read off the argument order of the kernel evaluation that produces the factor
        canon = frozenset(tuple(sorted((spin(calls[f][0]), spin(calls[f][1])) for f in t)) for t in comb[1])
        roots = {(calls[f][0].rsplit("[", 1)[0], calls[f][1].rsplit("[", 1)[0]) for t in comb[1] for f in t}
        forms[name] = (canon, roots, comb, calls, derivs, b, how)
    want = frozenset({((0, 0), (1, 1)), ((0, 1), (1, 0))})
    for name, (canon, roots, comb, calls, derivs, b, how) in forms.items():
        inst = "DFTKernel.%s: k = k_aa k_bb + k_ab k_ba" % name
        if canon == want and len(roots) == 1:
            chk.ok("pol-kernel", inst + ((" (%s)" % "; ".join("%s is the %s" % kv for kv in sorted(how.items()))) if how else ""))
        else:
            used = sorted({f for t in comb[1] for f in t})
            chk.violation("pol-kernel", DKR, "DFTKernel." + name, pf.src(comb[0]), comb[0].lineno,
                          "the polarised kernel is k_aa*k_bb + k_ab*k_ba, each block k_st being kernel(X[s], X'[t]) "
                          "(or the transpose of kernel(X'[t], X[s]) when both operands are the same set); here the "
                          "factors are %s, so the terms are %s over operands %s"
                          % ("; ".join("%s = kernel(%s, %s)%s" % (f, calls[f][0], calls[f][1],
                                                                   (" [%s]" % how[f]) if f in how else "") for f in used),
                             sorted(canon), sorted(roots)), instance=inst)
    # get_k and get_k_and_deriv must evaluate the blocks on the same operands
    a, d = forms["get_k"], forms["get_k_and_deriv"]
    inst = "DFTKernel: get_k and get_k_and_deriv evaluate the same four blocks"
    def used_blocks(form):
        # rename-insensitive: (sample spin, control spin) and the control operand (an attribute); the sample operand
        # is a local whose name carries no meaning (each method uses a single one, checked above)
        out = set()
        for t in form[2][1]:
            for f in t:
                a0, a1 = form[3][f][:2]
                r1 = a1.rsplit("[", 1)[0]
                out.add((a0.rsplit("[", 1)[-1].rstrip("]"), a1.rsplit("[", 1)[-1].rstrip("]"),
                         r1 if r1.startswith("self.") else "<local>"))
        return out
    if used_blocks(a) == used_blocks(d):
        chk.ok("pol-kernel", inst)
    else:
        chk.violation("pol-kernel", DKR, "DFTKernel.get_k_and_deriv", "kernel blocks", d[5].lineno,
                      "get_k evaluates %s but get_k_and_deriv evaluates %s" % (sorted(used_blocks(a)), sorted(used_blocks(d))),
                      instance=inst)
    # product rule for the input gradient
    canon, roots, comb, calls, derivs, b, how = d
    dk_of = {v: k for k, v in derivs.items()}
    got = {}
    for st in pf.walk_no_nested(b):
        if isinstance(st, ast.Assign) and isinstance(st.targets[0], ast.Name):
            s = _sop(st.value)
            if s and any(f in derivs for t in s for f in t):
                got[st.targets[0].id] = (st, s)
    if len(got) != 2:
        raise core.AnalysisError("get_k_and_deriv: the two spin gradients of the polarised kernel were not found")
    seen_spins = set()
    for nm, (st, s) in sorted(got.items()):
        # which sample spin do the differentiated blocks depend on?
        spins = {calls[derivs[f]][0] for t in s for f in t if f in derivs}
        inst = "DFTKernel.get_k_and_deriv: %s obeys the product rule" % nm
        if len(spins) != 1:
            chk.violation("pol-kernel", DKR, "DFTKernel.get_k_and_deriv", pf.src(st), st.lineno,
                          "one gradient mixes derivatives of blocks evaluated on different sample spins %s" % sorted(spins),
                          instance=inst)
            continue
        x = spins.pop()
        seen_spins.add(x)
        # rank agreement: a gradient block (Nsamp, Nctrl, N1) times a value block (Nsamp, Nctrl) needs an added trailing
        # axis on the value block (as DiffProduct.k_and_deriv writes it); the product-rule verdict below is independent
        bare = sorted({y.id for y in ast.walk(st.value) if isinstance(y, ast.Name) and y.id in calls and y.id not in derivs
                       and not isinstance(pf.parent(y), ast.Subscript)})
        if bare:
            chk.violation("pol-kernel", DKR, "DFTKernel.get_k_and_deriv", "rank of value blocks in " + nm, st.lineno,
                          "`%s` multiplies rank-3 gradient blocks by the rank-2 value blocks %s without an added "
                          "trailing axis: broadcasting aligns (Nctrl, N1) with (Nsamp, Nctrl) and raises ValueError "
                          "unless the sizes coincide" % (pf.src(st), ", ".join(bare)),
                          instance="DFTKernel.get_k_and_deriv: %s broadcasts value blocks over the feature axis" % nm)
        else:
            chk.ok("pol-kernel", "DFTKernel.get_k_and_deriv: %s broadcasts value blocks over the feature axis" % nm)
        expect = set()
        for t in comb[1]:
            for f in t:
                if calls[f][0] == x:
                    if f not in dk_of:
                        raise core.AnalysisError("no derivative block for %s" % f)
                    rest = list(t)
                    rest.remove(f)
                    expect.add(tuple(sorted([dk_of[f]] + rest)))
        if set(s) == expect:
            chk.ok("pol-kernel", inst + " wrt %s" % x)
        else:
            chk.violation("pol-kernel", DKR, "DFTKernel.get_k_and_deriv", pf.src(st), st.lineno,
                          "d/d%s of %s must be %s; found %s" % (
                              x, pf.src(comb[0].value), " + ".join("*".join(sorted(t)) for t in sorted(expect, key=sorted)),
                              " + ".join("*".join(sorted(t)) for t in sorted(s, key=sorted))), instance=inst)
    if len(seen_spins) != 2:
        chk.violation("pol-kernel", DKR, "DFTKernel.get_k_and_deriv", "spin gradients", b.lineno,
                      "gradients are not formed for both sample spins", instance="DFTKernel.get_k_and_deriv: both spins")


# ----------------------------------------------------------------------------
# rule 3: lock pairing
# ----------------------------------------------------------------------------
def _is_lock_assign(st, val):
    return isinstance(st, ast.Assign) and len(st.targets) == 1 and pf.is_self_attr(st.targets[0], "_locked") \
        and isinstance(st.value, ast.Constant) and st.value.value is val


def _is_base_delegation(n):
    """self._base_cls.<m>(self, ...) or super(...).<m>(...) (constructors excluded)"""
    if not (isinstance(n, ast.Call) and isinstance(n.func, ast.Attribute)) or n.func.attr == "__init__":
        return False
    v = n.func.value
    return pf.is_self_attr(v, "_base_cls") or (isinstance(v, ast.Call) and pf.call_name(v) == "super")


def rule_lock(chk, uni):
    km = uni.km
    # call sites of a method name (only needed for acquire-only helpers); textual and therefore
    # conservative: a mention in a comment counts as a use and turns the note into a violation
    def used_anywhere(name):
        pat = re.compile(r"\.\s*%s\b" % re.escape(name))
        return [rel for rel in chk.tree.glob("ciderpress/**/*.py") if pat.search(chk.tree.read(rel))]
    nlock = 0
    for cname, cls in km.classes.items():
        ms = pf.methods(cls)
        uses = any(pf.is_self_attr(n, "_locked") for f in ms.values() for n in ast.walk(f))
        if not uses:
            continue
        init = ms.get("__init__")
        inst = "%s.__init__ starts unlocked" % cname
        if init is not None and any(_is_lock_assign(s, False) for s in pf.walk_no_nested(init)):
            chk.ok("lock-pairing", inst, nontrivial=False)
        else:
            chk.violation("lock-pairing", KR, cname + ".__init__", "self._locked", cls.lineno,
                          "the class tests self._locked but __init__ does not initialise it to False", instance=inst)
        for mname, fn in ms.items():
            if mname in getattr(km, "absorbed", ()):
                continue  # private helper inlined into every caller: its lock statements are analysed there
            locks = [s for s in pf.walk_no_nested(fn) if _is_lock_assign(s, True)]
            unlocks = [s for s in pf.walk_no_nested(fn) if _is_lock_assign(s, False)]
            delegations = [n for n in pf.walk_no_nested(fn) if _is_base_delegation(n)]
            if not locks and not (unlocks and mname != "__init__") and not (delegations and mname != "__init__"):
                continue
            g = cfgm.CFG(fn)
            where = "%s.%s" % (cname, mname)

            def is_unlock(n):
                return n.kind == "stmt" and _is_lock_assign(n.ast, False)

            def is_lock(n):
                return n.kind == "stmt" and _is_lock_assign(n.ast, True)
            for s in locks:
                nlock += 1
                inst = "%s: `self._locked = True` released on every normal path" % where
                okp, wit = g.must_pass(is_unlock, src=g.node_of(s).id)
                if okp:
                    chk.ok("lock-pairing", inst)
                    protected = pf.enclosing(s, (ast.Try,)) is not None or any(
                        isinstance(x, ast.Try) and x.finalbody for x in pf.walk_no_nested(fn))
                    if not protected:
                        chk.note("lock-pairing", where,
                                 "the locked region is not protected by try/finally: an exception raised by the base "
                                 "kernel leaves _locked = True, and every later call silently skips the feature "
                                 "selection (exceptional paths are outside the decided clause)")
                else:
                    if not used_anywhere(mname):
                        chk.ok("lock-pairing", inst + " (acquire-only helper without any call site: noted)",
                               nontrivial=False)
                        chk.note("lock-pairing", where,
                                 "sets self._locked = True and returns without releasing; no call site exists in "
                                 "ciderpress/, so no behaviour depends on it today (dead helper)")
                    else:
                        path = [g.nodes[i] for i in (wit or [])]
                        chk.violation("lock-pairing", KR, where, "self._locked = True", s.lineno,
                                      "a normal path (%s) returns with self._locked still True: every later call of "
                                      "this kernel takes the `if self._locked` branch and evaluates the base kernel "
                                      "on the un-indexed input" % " -> ".join(
                                          "L%s" % getattr(p.ast, "lineno", "?") for p in path if p.ast is not None),
                                      instance=inst)
            # delegated base calls
            rebound = {t.id for x in pf.walk_no_nested(fn) if isinstance(x, (ast.Assign, ast.AugAssign))
                       for tt in (x.targets if isinstance(x, ast.Assign) else [x.target])
                       for t in ast.walk(tt) if isinstance(t, ast.Name) and isinstance(t.ctx, ast.Store)}
            params = {a.arg for a in fn.args.args + fn.args.kwonlyargs}
            for n in delegations:
                if True:
                    conds = cfgm.conditions_at(n)
                    under_locked = any(pol and pf.is_self_attr(t, "_locked") for t, pol, k in conds)
                    inst = "%s: %s inside the locked region" % (where, pf.src(n.func))
                    if under_locked:
                        continue
                    if not locks:
                        # a method of a locking class that delegates without ever taking the lock: harmless only when
                        # the inputs are handed on unchanged (nothing can be selected twice)
                        passed = list(n.args) + [k.value for k in n.keywords if k.arg is not None]
                        resel = [a for a in passed if not (
                            isinstance(a, ast.Constant)
                            or (isinstance(a, ast.Name) and (a.id == "self" or (a.id in params and a.id not in rebound))))]
                        if not resel:
                            chk.ok("lock-pairing", "%s: %s hands its inputs on unchanged (no lock needed)"
                                   % (where, pf.src(n.func)), nontrivial=False)
                        else:
                            sib = sorted(m2 for m2, f2 in ms.items() if m2 != mname
                                         and any(_is_lock_assign(s2, True) for s2 in pf.walk_no_nested(f2)))
                            chk.violation("lock-pairing", KR, where, pf.src(n)[:100], n.lineno,
                                          "%s re-selects its input (%s) and delegates to the base class without "
                                          "holding self._locked, although the class guards re-entry with that flag "
                                          "(siblings that hold it across their delegation: %s): a base method that "
                                          "calls self(...)/self.diag(...) re-enters this mixin unlocked and applies "
                                          "the selection a second time" % (where, ", ".join(pf.src(a)[:40] for a in resel),
                                                                           ", ".join(sib) or "none"),
                                          instance=inst)
                        continue
                    cn = g.stmt_of_expr(n)
                    dom = any(g.dominates(g.node_of(s).id, cn.id) for s in locks)
                    rel_ok = True
                    for u in unlocks:
                        un = g.node_of(u)
                        # an unlock that can run before the call on a path from a lock
                        if any(g.dominates(g.node_of(s).id, un.id) for s in locks) and g.dominates(un.id, cn.id):
                            rel_ok = False
                    if dom and rel_ok:
                        chk.ok("lock-pairing", inst)
                    else:
                        chk.violation("lock-pairing", KR, where, pf.src(n)[:100], n.lineno,
                                      "the base-class method is called on the already indexed input while _locked is "
                                      "%s: base methods that call self.__call__/self.diag re-enter this mixin and "
                                      "index the input a second time" % ("not yet True" if not dom else "False again"),
                                      instance=inst)
    chk.count("lock acquisitions", nlock)


# ----------------------------------------------------------------------------
# rule 4: attribute definedness
# ----------------------------------------------------------------------------
OBJECT_ATTRS = set(dir(object)) | {"__dict__", "__weakref__", "__module__", "__name__", "__bases__"}


def class_defines(cls):
    out = set()
    for st in cls.body:
        if isinstance(st, (ast.FunctionDef, ast.AsyncFunctionDef, ast.ClassDef)):
            out.add(st.name)
        elif isinstance(st, ast.Assign):
            for t in st.targets:
                if isinstance(t, ast.Name):
                    out.add(t.id)
        elif isinstance(st, ast.AnnAssign) and isinstance(st.target, ast.Name):
            out.add(st.target.id)
    for fn in pf.methods(cls).values():
        for n in ast.walk(fn):
            if isinstance(n, ast.Attribute) and isinstance(n.ctx, (ast.Store,)) and isinstance(n.value, ast.Name) \
                    and n.value.id == "self":
                out.add(n.attr)
            if isinstance(n, ast.Call) and pf.call_name(n) == "setattr" and len(n.args) >= 2 \
                    and isinstance(n.args[0], ast.Name) and n.args[0].id == "self" and isinstance(n.args[1], ast.Constant):
                out.add(n.args[1].value)
    return out


def attr_reads(fn):
    guarded = set()
    for n in ast.walk(fn):
        if isinstance(n, ast.Call) and pf.call_name(n) in ("hasattr", "getattr") and len(n.args) >= 2 \
                and isinstance(n.args[0], ast.Name) and n.args[0].id == "self" and isinstance(n.args[1], ast.Constant):
            if pf.call_name(n) == "hasattr" or len(n.args) == 3:
                guarded.add(n.args[1].value)
    out = {}
    for n in ast.walk(fn):
        if pf.is_self_attr(n) and isinstance(n.ctx, ast.Load) and n.attr not in guarded:
            out.setdefault(n.attr, n)
    return out


def rule_attrs(chk, uni, prog):
    km = uni.km
    nclass = 0
    mixins_used = set()
    for cname, cls in km.classes.items():
        if not uni.is_kernel(km, cls):
            continue
        nclass += 1
        mro = uni.mro(km, cls)
        defined = set(OBJECT_ATTRS)
        for m, c in mro:
            defined |= class_defines(c)
        bad = {}
        nread = 0
        for m, c in mro:
            if m is not km:
                continue
            mixins_used.add(c.name)
            for mname, fn in pf.methods(c).items():
                for a, node in attr_reads(fn).items():
                    nread += 1
                    if a not in defined:
                        bad.setdefault(a, []).append(("%s.%s" % (c.name, mname), node))
        chk.count("self-attribute reads resolved", nread)
        if not bad:
            chk.ok("attr-defined", "%s: every self.<attr> read is defined in %s" % (
                cname, " > ".join(c.name for _, c in mro)), detail="%d reads" % nread)
        for a, sites in sorted(bad.items()):
            chk.violation("attr-defined", KR, cname, "self.%s" % a, sites[0][1].lineno,
                          "self.%s is read in %s but no class of the MRO (%s) assigns or defines it: these methods can "
                          "only raise AttributeError" % (a, ", ".join(sorted({s for s, _ in sites})),
                                                         " > ".join(c.name for _, c in mro)),
                          instance="%s reads self.%s" % (cname, a))
    for cname, cls in km.classes.items():
        if cname not in mixins_used and not uni.is_kernel(km, cls):
            chk.note("attr-defined", cname, "class is neither a Kernel nor mixed into one; not analysed")
    chk.count("kernel classes", nclass)
    # DFTKernel / DFTKernel2
    dmod = prog.module(DKR)
    for cname in ("DFTKernel", "DFTKernel2"):
        cls = dmod.cls(cname)
        mro = prog.mro(dmod, cls)
        for b in [b for m, c in mro for b in c.bases]:
            pass
        unresolved = [pf.src(b) for m, c in mro for b in c.bases if prog.resolve_class(m, b) is None and pf.src(b) != "object"]
        if unresolved:
            raise core.AnalysisError("%s: unresolved bases %s" % (cname, unresolved))
        defined = set(OBJECT_ATTRS)
        for m, c in mro:
            defined |= class_defines(c)
        bad = {}
        nread = 0
        for m, c in mro:
            for mname, fn in pf.methods(c).items():
                for a, node in attr_reads(fn).items():
                    nread += 1
                    if a not in defined:
                        bad.setdefault(a, []).append(("%s.%s" % (c.name, mname), node, m.rel))
        if not bad:
            chk.ok("attr-defined", "%s: every self.<attr> read is defined in %s" % (
                cname, " > ".join(c.name for _, c in mro)), detail="%d reads" % nread)
        for a, sites in sorted(bad.items()):
            chk.violation("attr-defined", sites[0][2], cname, "self.%s" % a, sites[0][1].lineno,
                          "self.%s is read in %s but never assigned or defined in %s" % (
                              a, ", ".join(sorted({s for s, _, _ in sites})), " > ".join(c.name for _, c in mro)),
                          instance="%s reads self.%s" % (cname, a))


# ----------------------------------------------------------------------------
# rule 5: fixed hyper-parameters excluded
# ----------------------------------------------------------------------------
def fixed_aliases(fn):
    """local name -> hyper-parameter h for `name = not self.hyperparameter_h.fixed`"""
    out = {}
    for st in pf.walk_no_nested(fn):
        if isinstance(st, ast.Assign) and len(st.targets) == 1 and isinstance(st.targets[0], ast.Name):
            h = _not_fixed(st.value, {})
            if h:
                out[st.targets[0].id] = h
    return out


def _fixed_attr(e):
    """self.hyperparameter_h.fixed -> h"""
    if isinstance(e, ast.Attribute) and e.attr == "fixed" and pf.is_self_attr(e.value) \
            and e.value.attr.startswith("hyperparameter_"):
        return e.value.attr[len("hyperparameter_"):]
    return None


def _not_fixed(e, aliases):
    if isinstance(e, ast.UnaryOp) and isinstance(e.op, ast.Not):
        return _fixed_attr(e.operand)
    if isinstance(e, ast.Name) and e.id in aliases:
        return aliases[e.id]
    return None


def known_free(node, aliases):
    """(hyper-parameters known to be NOT fixed, known to be fixed) when control reaches node"""
    free, fixed = set(), set()
    for t, pol, kind in cfgm.conditions_at(node):
        conj = t.values if (isinstance(t, ast.BoolOp) and isinstance(t.op, ast.And)) else [t]
        if pol:
            for c in conj:
                h = _not_fixed(c, aliases)
                if h:
                    free.add(h)
                h2 = _fixed_attr(c)
                if h2:
                    fixed.add(h2)
        else:
            if len(conj) == 1:
                h = _not_fixed(conj[0], aliases)
                if h:
                    fixed.add(h)
                h2 = _fixed_attr(conj[0])
                if h2:
                    free.add(h2)
    return free, fixed


def alloc_width(e):
    """np.zeros/np.empty((.., .., W)) -> W expr"""
    if isinstance(e, ast.Call) and pf.call_name(e) in ("np.zeros", "np.empty", "numpy.zeros", "numpy.empty", "np.ones") and e.args:
        shp = e.args[0]
        if isinstance(shp, (ast.Tuple, ast.List)) and len(shp.elts) == 3:
            return shp.elts[2]
    return None


def gradient_returns(fn):
    """(return stmt, gradient expr) for returns of (value, gradient) on the eval_gradient path"""
    out = []
    for r in pf.walk_no_nested(fn):
        if isinstance(r, ast.Return) and isinstance(r.value, ast.Tuple) and len(r.value.elts) == 2:
            conds = cfgm.conditions_at(r)
            onpath = False
            for t, pol, kind in conds:
                conj = t.values if (isinstance(t, ast.BoolOp) and isinstance(t.op, ast.And)) else [t]
                if pol and any(isinstance(c, ast.Name) and c.id == "eval_gradient" for c in conj):
                    onpath = True
            if onpath:
                out.append((r, r.value.elts[1]))
    return out


def resolve_alloc(uni, mod, cls, fn, e):
    """expression allocating the gradient array -> (width expr, function holding the counter) ; follows
    `self.helper(...)` one level"""
    w = alloc_width(e)
    if w is not None:
        return w, fn
    if isinstance(e, ast.Call) and isinstance(e.func, ast.Attribute) and isinstance(e.func.value, ast.Name) \
            and e.func.value.id == "self":
        r = uni.find_method(mod, cls, e.func.attr)
        if r is not None and r[0] is uni.km:
            rets = [x for x in pf.walk_no_nested(r[2]) if isinstance(x, ast.Return)]
            if len(rets) == 1:
                w = alloc_width(rets[0].value)
                if w is not None:
                    return w, r[2]
    return None, None


def counter_increments(fn, name, aliases):
    """[(hyper h, increment expr, stmt)] for `name += inc` ; None when the counter has an unguarded growth"""
    out = []
    for st in pf.walk_no_nested(fn):
        if isinstance(st, ast.AugAssign) and isinstance(st.target, ast.Name) and st.target.id == name:
            free, _ = known_free(st, aliases)
            out.append((sorted(free)[0] if free else None, st.value, st))
        elif isinstance(st, ast.Assign) and any(isinstance(t, ast.Name) and t.id == name for t in st.targets):
            if not (isinstance(st.value, ast.Constant) and st.value.value == 0):
                out.append((None, st.value, st))
    out.sort(key=lambda t: (t[2].lineno, t[2].col_offset))
    return out


def rule_fixed(chk, uni):
    km = uni.km
    ncall = 0
    for cname, cls in km.classes.items():
        fn = pf.methods(cls).get("__call__")
        if fn is None or "eval_gradient" not in [a.arg for a in fn.args.args]:
            continue
        # the hyper-parameters the users of this method can have
        users = [(km, c) for c in km.classes.values() if any(cc is cls for _, cc in uni.mro(km, c)) and uni.is_kernel(km, c)]
        hypers = set()
        for u in users:
            hypers |= uni.hyperparameters(*u)
        aliases = fixed_aliases(fn)
        rets = gradient_returns(fn)
        if not rets:
            continue
        ncall += 1
        where = "%s.__call__" % cname
        defs = fn_defs(fn)
        for r, gexp in rets:
            inst = "%s: `%s` excludes fixed hyper-parameters" % (where, pf.src(r))
            free, _ = known_free(r, aliases)
            if free:
                chk.ok("fixed-excluded", inst + " (returned only when %s is free)" % sorted(free))
                continue
            if not isinstance(gexp, ast.Name):
                w = alloc_width(gexp)
                if w is not None and isinstance(w, ast.Constant) and w.value == 0:
                    chk.ok("fixed-excluded", inst + " (zero-width gradient)")
                elif _passthrough(gexp, defs):
                    chk.ok("fixed-excluded", inst + " (gradient passed through from the wrapped kernel)", nontrivial=False)
                else:
                    raise core.AnalysisError("%s: gradient expression %s not understood" % (where, pf.src(gexp)))
                continue
            gname = gexp.id
            problems = []
            slot_stores = []
            alloc = None
            for st, val, tgt in defs.get(gname, []):
                if isinstance(st, ast.For):
                    continue
                sfree, _ = known_free(st, aliases)
                if isinstance(tgt, ast.Subscript):
                    slot_stores.append((st, tgt, sfree))
                    if not sfree:
                        problems.append((st, "slot store `%s` is executed whether or not a hyper-parameter is fixed" % pf.src(st)[:70]))
                    continue
                if isinstance(st, ast.Assign) and isinstance(st.targets[0], ast.Tuple):
                    if _is_kernel_call_result(val, defs):
                        continue
                    problems.append((st, "`%s` unpacks a gradient of unknown origin" % pf.src(st)[:70]))
                    continue
                w, holder = resolve_alloc(uni, km, cls, fn, val)
                if w is not None:
                    if isinstance(w, ast.Constant) and w.value == 0:
                        continue
                    if isinstance(w, ast.Constant):
                        if not sfree:
                            problems.append((st, "a gradient with %s slot(s) is allocated regardless of the fixed flags" % w.value))
                        continue
                    if isinstance(w, ast.Name):
                        incs = counter_increments(holder, w.id, fixed_aliases(holder))
                        bad = [s for h, v, s in incs if h is None]
                        if bad:
                            problems.append((bad[0], "the width counter `%s` grows by `%s` without testing "
                                                     "hyperparameter_*.fixed" % (w.id, pf.src(bad[0])[:60])))
                        alloc = (st, w, holder, incs)
                        continue
                    problems.append((st, "the gradient is allocated with width `%s`, which does not depend on the "
                                         "fixed flags" % pf.src(w)))
                    continue
                if sfree:
                    continue
                names = {n.id for n in ast.walk(val) if isinstance(n, ast.Name)}
                if gname in names and not (names - {gname} - _shape_names(fn)):
                    continue  # self-derived reshaping
                if gname in names and _only_indexes(val, gname):
                    continue
                if isinstance(val, ast.Constant):
                    if not sfree and isinstance(st, ast.Assign):
                        problems.append((st, "`%s` is initialised outside any fixed test" % pf.src(st)))
                    continue
                problems.append((st, "`%s` computes gradient entries regardless of the fixed flags" % pf.src(st)[:70]))
            if problems and not hypers:
                problems = []
            problems.sort(key=lambda p: p[0].lineno)
            if problems:
                st, msg = problems[0]
                chk.violation("fixed-excluded", KR, where, pf.src(r), st.lineno,
                              "with eval_gradient=True this returns `%s` unconditionally, and %s (hyper-parameters of "
                              "the classes using this method: %s): for a fixed hyper-parameter the gradient must have "
                              "no slot (sklearn sizes it by theta)%s"
                              % (gname, msg, sorted(hypers), "; %d more site(s)" % (len(problems) - 1) if len(problems) > 1 else ""),
                              instance=inst)
            else:
                chk.ok("fixed-excluded", inst + " (%d guarded slot store(s))" % len(slot_stores))
            if alloc is not None:
                slot_rule(chk, where, fn, gname, alloc, slot_stores, aliases)
    chk.count("gradient-returning __call__ methods", ncall)


def _shape_names(fn):
    return {a.arg for a in fn.args.args} | {"np", "None", "NX", "NY"}


def _only_indexes(val, gname):
    """every occurrence of gname in val is subscripted (dk[:NX] + dk[NX:]) and nothing else is read"""
    for n in ast.walk(val):
        if isinstance(n, ast.Name) and n.id != gname and n.id not in ("NX", "NY", "np"):
            return False
    return True


def _is_kernel_call_result(val, defs):
    """value is (a local holding) the result of a kernel __call__ delegation"""
    def is_call(e):
        if isinstance(e, ast.Call):
            f = e.func
            if isinstance(f, ast.Attribute) and f.attr == "__call__":
                return True
            if pf.is_self_attr(f):
                return True
            if isinstance(f, ast.Attribute) and pf.is_self_attr(f.value) and f.attr == "__call__":
                return True
        return False
    if is_call(val):
        return True
    if isinstance(val, ast.Name):
        return any(is_call(v) for st, v, t in defs.get(val.id, []) if not isinstance(st, ast.For))
    return False


def _passthrough(gexp, defs):
    names = {n.id for n in ast.walk(gexp) if isinstance(n, ast.Name)}
    names -= {"np"}
    return bool(names) and all(any(_is_kernel_call_result(v, defs) for st, v, t in defs.get(nm, []) if not isinstance(st, ast.For))
                               for nm in names)


def slot_rule(chk, where, fn, gname, alloc, slot_stores, aliases):
    st_alloc, w, holder, incs = alloc
    order = [h for h, v, s in incs if h is not None]
    inst = "%s: slot order of `%s` is sklearn's alphabetical hyper-parameter order" % (where, gname)
    if order == sorted(order) and len(order) == len(set(order)):
        chk.ok("slot-offset", inst + " %s" % order)
    else:
        chk.violation("slot-offset", KR, where, "width counter %s" % w.id, st_alloc.lineno,
                      "slots are allocated in the order %s but sklearn orders theta (and expects the gradient) "
                      "alphabetically: %s" % (order, sorted(set(order))), instance=inst)
        return
    inc_of = {h: v for h, v, s in incs if h is not None}
    defs = fn_defs(fn)
    for st, tgt, free in slot_stores:
        if not free:
            continue
        idx = tgt.slice.elts[-1] if isinstance(tgt.slice, ast.Tuple) else tgt.slice
        terms = []

        def flat(e):
            if isinstance(e, ast.BinOp) and isinstance(e.op, ast.Add):
                flat(e.left)
                flat(e.right)
            else:
                terms.append(e)
        flat(idx)
        loopvars = {t.id for x in pf.walk_no_nested(fn) if isinstance(x, ast.For)
                    for t in ([x.target] if isinstance(x.target, ast.Name) else [])}
        offs = [t for t in terms if not (isinstance(t, ast.Constant) or (isinstance(t, ast.Name) and t.id in loopvars))]
        hs = sorted(free & set(order))
        inst = "%s: `%s` addresses the slot of %s" % (where, pf.src(tgt), hs or sorted(free))
        if len(hs) != 1:
            chk.violation("slot-offset", KR, where, pf.src(tgt), st.lineno,
                          "the store is guarded by %s, which is not exactly one of the hyper-parameters that size the "
                          "gradient (%s)" % (sorted(free), order), instance=inst)
            continue
        h = hs[0]
        j = order.index(h)
        if j == 0:
            if offs:
                chk.violation("slot-offset", KR, where, pf.src(tgt), st.lineno,
                              "the slot of %s (first in theta) is addressed with the offset `%s`"
                              % (h, " + ".join(pf.src(o) for o in offs)), instance=inst)
            else:
                chk.ok("slot-offset", inst + " (first slot, no offset)")
            continue
        if j > 1 or len(offs) != 1:
            if not offs:
                chk.violation("slot-offset", KR, where, pf.src(tgt), st.lineno,
                              "the slot of %s follows that of %s in theta but is addressed without any offset"
                              % (h, order[:j]), instance=inst)
                continue
            raise core.AnalysisError("%s: offset of slot %d (%s) has a shape the rule does not model" % (where, j, pf.src(idx)))
        prev = order[0]
        off = offs[0]
        want = inc_of[prev]
        aware = False
        why = ""
        if isinstance(off, ast.Name):
            ds = [(s, v) for s, v, t in defs.get(off.id, []) if not isinstance(s, ast.For)]
            base_ok = any(pf.src(v) == pf.src(want) or pf.src(off) == pf.src(want) for s, v in ds) or pf.src(off) == pf.src(want)
            for s, v in ds:
                fr, fx = known_free(s, aliases)
                if prev in fx and isinstance(v, ast.Constant) and v.value == 0:
                    aware = True
                if isinstance(v, ast.IfExp) and _mentions_fixed(v.test, prev, aliases):
                    aware = True
                if isinstance(s, ast.AugAssign) and prev in fr:
                    aware = True
            if not base_ok and not aware:
                why = "its value is not the width `%s` reserved for %s" % (pf.src(want), prev)
        elif isinstance(off, ast.IfExp) and _mentions_fixed(off.test, prev, aliases):
            aware = True
        # the store itself may sit in a branch where prev is known free
        if prev in free:
            aware = True
        if aware:
            chk.ok("slot-offset", inst + " (offset `%s` is 0 when %s is fixed)" % (pf.src(off), prev))
        else:
            chk.violation("slot-offset", KR, where, pf.src(tgt), st.lineno,
                          "the slot of %s is addressed at offset `%s`, which does not depend on whether %s is fixed "
                          "(%s), while the array only reserves those `%s` slots when %s is NOT fixed: with %s fixed "
                          "and %s free the stores land %s slots too far and overflow the gradient"
                          % (h, pf.src(off), prev, why or "it is never set to 0 under hyperparameter_%s.fixed" % prev,
                             pf.src(want), prev, prev, h, pf.src(off)), instance=inst)


def _mentions_fixed(test, h, aliases):
    for n in ast.walk(test):
        if _fixed_attr(n) == h:
            return True
        if isinstance(n, ast.Name) and aliases.get(n.id) == h:
            return True
    return False



# ----------------------------------------------------------------------------
# hidden writes to the caller's sample matrices
# ----------------------------------------------------------------------------
VIEW_CALLS = {"np.asarray", "numpy.asarray", "np.ascontiguousarray", "np.atleast_2d", "np.transpose", "np.squeeze",
              "np.reshape", "np.ravel", "np.asfortranarray", "np.asanyarray"}
VIEW_METHODS = {"reshape", "view", "transpose", "ravel", "squeeze", "swapaxes"}
INPLACE_METHODS = {"fill", "sort", "resize", "itemset", "put", "partition", "setfield", "byteswap"}
INPLACE_FUNCS = {"np.fill_diagonal": 0, "np.place": 0, "np.put": 0, "np.putmask": 0, "np.copyto": 0,
                 "np.put_along_axis": 0}


def _view_root(e, state):
    """name in `state` whose storage expression e may share (basic slicing, .T, reshape, asarray ...), else None"""
    while True:
        if isinstance(e, ast.Name):
            return e.id if e.id in state else None
        if isinstance(e, ast.Attribute) and e.attr in ("T", "real", "imag", "flat"):
            e = e.value
        elif isinstance(e, ast.Subscript):
            idx = e.slice.elts if isinstance(e.slice, ast.Tuple) else [e.slice]
            basic = all(isinstance(i, ast.Slice) or pf.src(i) in NEWAXIS
                        or (isinstance(i, ast.Constant) and (isinstance(i.value, int) or i.value is Ellipsis))
                        for i in idx)
            if not basic:
                return None  # advanced indexing copies
            e = e.value
        elif isinstance(e, ast.Call) and pf.call_name(e) in VIEW_CALLS and e.args:
            e = e.args[0]
        elif isinstance(e, ast.Call) and isinstance(e.func, ast.Attribute) and e.func.attr in VIEW_METHODS:
            e = e.func.value
        elif isinstance(e, ast.IfExp):
            return _view_root(e.body, state) or _view_root(e.orelse, state)
        else:
            return None


def _array_like(fn, name):
    if name in ("X", "Y"):
        return True
    for n in ast.walk(fn):
        if isinstance(n, ast.Subscript) and isinstance(n.value, ast.Name) and n.value.id == name:
            return True
        if isinstance(n, ast.Attribute) and isinstance(n.value, ast.Name) and n.value.id == name \
                and n.attr in ("shape", "T", "dot", "ndim", "size", "dtype"):
            return True
    return False


def param_writes(fn):
    """[(stmt-or-call node, parameter whose storage is written, how)] by a may-alias forward analysis on the CFG"""
    params = [a.arg for a in fn.args.args + fn.args.kwonlyargs if a.arg not in ("self", "cls")]
    params = [p for p in params if _array_like(fn, p)]
    if not params:
        return None
    g = cfgm.CFG(fn)
    init = {p: p for p in params}  # name -> parameter it may alias
    state_in = {g.entry.id: dict(init)}
    work = [g.entry.id]
    out_state = {}

    def transfer(n, st):
        st = dict(st)
        node = n.ast
        if n.kind == "iter" and isinstance(node, (ast.For, ast.AsyncFor)):
            for t in ast.walk(node.target):
                if isinstance(t, ast.Name):
                    st.pop(t.id, None)
            return st
        if n.kind != "stmt":
            return st
        if isinstance(node, ast.Assign):
            for t in node.targets:
                if isinstance(t, ast.Name):
                    r = _view_root(node.value, st)
                    if r is not None:
                        st[t.id] = st[r]
                    else:
                        st.pop(t.id, None)
                elif isinstance(t, (ast.Tuple, ast.List)):
                    for x in ast.walk(t):
                        if isinstance(x, ast.Name):
                            st.pop(x.id, None)
        return st

    while work:
        u = work.pop()
        so = transfer(g.nodes[u], state_in[u])
        out_state[u] = so
        for v in g.succ[u]:
            cur = state_in.get(v)
            new = dict(cur) if cur is not None else {}
            chg = cur is None
            for k, val in so.items():
                if k not in new:
                    new[k] = val
                    chg = True
            if chg:
                state_in[v] = new
                work.append(v)
    hits = []
    for n in g.nodes:
        if n.id not in state_in or n.kind != "stmt":
            continue
        st = state_in[n.id]
        node = n.ast
        if isinstance(node, ast.AugAssign):
            r = _view_root(node.target, st)
            if r is not None:
                hits.append((node, st[r], "augmented assignment"))
        elif isinstance(node, ast.Assign):
            for t in node.targets:
                for tt in (t.elts if isinstance(t, (ast.Tuple, ast.List)) else [t]):
                    if isinstance(tt, ast.Subscript):
                        r = _view_root(tt.value, st)
                        if r is not None:
                            hits.append((node, st[r], "element store"))
        for c in ast.walk(node):
            if isinstance(c, ast.Call):
                cn = pf.call_name(c)
                if cn in INPLACE_FUNCS and len(c.args) > INPLACE_FUNCS[cn]:
                    r = _view_root(c.args[INPLACE_FUNCS[cn]], st)
                    if r is not None:
                        hits.append((c, st[r], cn))
                elif isinstance(c.func, ast.Attribute) and c.func.attr in INPLACE_METHODS:
                    r = _view_root(c.func.value, st)
                    if r is not None:
                        hits.append((c, st[r], "." + c.func.attr + "()"))
                for kw in c.keywords:
                    if kw.arg == "out":
                        r = _view_root(kw.value, st)
                        if r is not None:
                            hits.append((c, st[r], "out="))
    return hits


def rule_param_write(chk, uni, prog):
    nfun = 0
    for mod in (uni.km, prog.module(DKR)):
        fns = []
        for cname, cls in mod.classes.items():
            for mname, fn in pf.methods(cls).items():
                fns.append(("%s.%s" % (cname, mname), fn))
        for fname, fn in mod.functions.items():
            fns.append((fname, fn))
        for where, fn in fns:
            hits = param_writes(fn)
            if hits is None:
                continue
            nfun += 1
            if not hits:
                chk.ok("param-write", "%s: %s never writes into its array arguments" % (mod.rel.split("/")[-1], where))
                continue
            seen = set()
            for node, param, how in hits:
                key = (param, pf.src(node))
                if key in seen:
                    continue
                seen.add(key)
                chk.violation("param-write", mod.rel, where, pf.src(node)[:100], node.lineno,
                              "%s (`%s`) writes into the storage of the argument `%s` on a path where it has not been "
                              "rebound to a fresh array: the caller's sample matrix is modified, so kernel(X, X) "
                              "transforms the same array twice, a second call returns different numbers, and stored "
                              "control points change under the caller" % (how, pf.src(node)[:60], param),
                              instance="%s: %s written through `%s`" % (where, param, pf.src(node)[:60]))
    chk.count("functions with array parameters", nfun)


# ----------------------------------------------------------------------------
# values cached on a kernel object must be keyed by the hyper-parameters they depend on
# ----------------------------------------------------------------------------
def _self_attr_deps(fn, exprs, not_inside=()):
    """self attributes the expressions depend on, through the local definitions of fn (flow-insensitive);
    definitions nested inside one of the statements `not_inside` are ignored (they run after the test)"""
    defs = fn_defs(fn)

    def inside(st):
        p = st
        while p is not None:
            if any(p is x for x in not_inside):
                return True
            p = pf.parent(p)
        return False
    attrs, seen = set(), set()
    todo = []

    def scan(e):
        for n in ast.walk(e):
            if pf.is_self_attr(n) and isinstance(n.ctx, ast.Load):
                attrs.add(n.attr)
            elif isinstance(n, ast.Call) and pf.call_name(n) == "getattr" and len(n.args) >= 2 \
                    and isinstance(n.args[0], ast.Name) and n.args[0].id == "self" and isinstance(n.args[1], ast.Constant):
                attrs.add(n.args[1].value)
            elif isinstance(n, ast.Name) and isinstance(n.ctx, ast.Load):
                todo.append(n.id)
    for e in exprs:
        scan(e)
    while todo:
        nm = todo.pop()
        if nm in seen:
            continue
        seen.add(nm)
        for st, val, tgt in defs.get(nm, []):
            if not_inside and inside(st):
                continue
            scan(val)
    return attrs


def rule_hyper_memo(chk, uni):
    km = uni.km
    # hyper-parameter attributes: constructor parameters and hyperparameter_* names of every kernel class
    for cname, cls in km.classes.items():
        users = [c for c in km.classes.values() if any(cc is cls for _, cc in uni.mro(km, c)) and uni.is_kernel(km, c)]
        if not users:
            continue
        hyper = set()
        for u in users:
            hyper |= uni.ctor_params(km, u) | uni.hyperparameters(km, u)
        ms = pf.methods(cls)
        for mname, fn in ms.items():
            if mname in ("__init__", "__setstate__") or mname in getattr(km, "absorbed", ()):
                continue
            if any(pf.src(d).endswith(".setter") for d in fn.decorator_list):
                continue
            stores = []
            for st in pf.walk_no_nested(fn):
                if isinstance(st, ast.Assign):
                    for t in st.targets:
                        if pf.is_self_attr(t):
                            stores.append((st, t.attr, st.value))
                elif isinstance(st, ast.Expr) and isinstance(st.value, ast.Call) and pf.call_name(st.value) == "setattr" \
                        and len(st.value.args) == 3 and pf.src(st.value.args[0]) == "self" \
                        and isinstance(st.value.args[1], ast.Constant):
                    stores.append((st, st.value.args[1].value, st.value.args[2]))
            for st, attr, val in stores:
                if attr in hyper:
                    continue  # normalising a hyper-parameter itself (e.g. scalar scale -> list), not a cache
                # is the attribute read back by a later call (a read not preceded by this store)?
                readers = []
                for m2, f2 in ms.items():
                    for n in ast.walk(f2):
                        isread = (pf.is_self_attr(n, attr) and isinstance(n.ctx, ast.Load)) or (
                            isinstance(n, ast.Call) and pf.call_name(n) in ("getattr", "hasattr") and len(n.args) >= 2
                            and pf.src(n.args[0]) == "self" and isinstance(n.args[1], ast.Constant) and n.args[1].value == attr)
                        if isread:
                            readers.append((m2, n))
                if not readers:
                    continue
                where = "%s.%s" % (cname, mname)
                inst = "%s: self.%s kept between calls does not outlive the hyper-parameters it was computed from" % (where, attr)
                deps = _self_attr_deps(fn, [val]) & hyper
                if not deps:
                    chk.ok("hyper-memo", inst + " (value independent of hyper-parameters)", nontrivial=False)
                    continue
                tests = [t for t, pol, kind in cfgm.conditions_at(st)]
                guards_if = []
                gp_ = pf.parent(st)
                while gp_ is not None and gp_ is not fn:
                    if isinstance(gp_, ast.If):
                        guards_if.append(gp_)
                    gp_ = pf.parent(gp_)
                for m2, n in readers:
                    if m2 != mname:
                        continue  # tests of other methods are written over their own locals
                    par = n
                    while par is not None and not isinstance(par, ast.stmt):
                        par = pf.parent(par)
                    if par is not None:
                        tests += [t for t, pol, kind in cfgm.conditions_at(par)]
                        if isinstance(par, ast.If):
                            tests.append(par.test)
                guard = _self_attr_deps(fn, tests, not_inside=guards_if)
                missing = sorted(deps - guard)
                if not missing:
                    chk.ok("hyper-memo", inst + " (validity test covers %s)" % sorted(deps))
                else:
                    chk.violation("hyper-memo", KR, where, "self.%s = %s" % (attr, pf.src(val)[:60]), st.lineno,
                                  "the value cached in self.%s is computed from the hyper-parameter(s) self.%s, but the "
                                  "test that decides whether the cache is still valid only looks at %s. sklearn assigns "
                                  "hyper-parameters from outside (kernel.theta = ..., set_params, clone_with_theta use "
                                  "setattr), so after self.%s changes this method keeps returning the old value "
                                  "(e.g. diag(X) != diag k(X, X))"
                                  % (attr, ", self.".join(sorted(deps)), sorted(guard & hyper) or "nothing of them",
                                     missing[0]), instance=inst)


# ----------------------------------------------------------------------------
# Newton-Girard style recursions: entries are normalised before a later iteration consumes them
# ----------------------------------------------------------------------------
def _recursions(fn):
    """self-consuming list recursions of fn: [(loop, list name, append stmt, consuming stmts, in-loop normalisation
    stmts, deferred divisions outside the loop)]"""
    out = []
    for lp in pf.walk_no_nested(fn):
        if not (isinstance(lp, ast.For) and isinstance(lp.target, ast.Name)):
            continue
        nvar = lp.target.id
        appended = {}
        for st in lp.body:
            if isinstance(st, ast.Expr) and isinstance(st.value, ast.Call) and isinstance(st.value.func, ast.Attribute) \
                    and st.value.func.attr == "append" and isinstance(st.value.func.value, ast.Name):
                appended.setdefault(st.value.func.value.id, st)
        for R, app in appended.items():
            def is_last(t):
                return isinstance(t, ast.Subscript) and isinstance(t.value, ast.Name) and t.value.id == R \
                    and pf.src(t.slice) == "-1"
            consume, norm = [], []
            for st in pf.walk_no_nested(lp):
                if isinstance(st, ast.AugAssign) and is_last(st.target):
                    earlier = [x for x in ast.walk(st.value) if isinstance(x, ast.Subscript) and isinstance(x.value, ast.Name)
                               and x.value.id == R and pf.src(x.slice) != "-1"]
                    if earlier and isinstance(st.op, (ast.Add, ast.Sub)):
                        consume.append(st)
                    elif isinstance(st.op, ast.Div) and nvar in {n.id for n in ast.walk(st.value) if isinstance(n, ast.Name)} \
                            and pf.parent(st) is lp:
                        norm.append(st)
                    elif isinstance(st.op, ast.Mult) and pf.parent(st) is lp and any(
                            isinstance(x, ast.BinOp) and isinstance(x.op, ast.Div) for x in ast.walk(st.value)) \
                            and nvar in {n.id for n in ast.walk(st.value) if isinstance(n, ast.Name)}:
                        norm.append(st)
                elif isinstance(st, ast.Assign) and len(st.targets) == 1 and is_last(st.targets[0]) and pf.parent(st) is lp \
                        and isinstance(st.value, ast.BinOp) and isinstance(st.value.op, ast.Div) and is_last(st.value.left) \
                        and nvar in {n.id for n in ast.walk(st.value.right) if isinstance(n, ast.Name)}:
                    norm.append(st)
            if not consume:
                continue
            # the normalisation must follow the accumulation inside one iteration
            last_c = max(c.lineno for c in consume)
            norm = [x for x in norm if x.lineno > last_c]
            inside = {id(x) for x in ast.walk(lp)}
            deferred = []
            for x in pf.walk_no_nested(fn):
                if isinstance(x, ast.BinOp) and isinstance(x.op, ast.Div) and id(x) not in inside:
                    subs = [y for y in ast.walk(x.left) if isinstance(y, ast.Subscript) and isinstance(y.value, ast.Name)
                            and y.value.id == R]
                    for y in subs:
                        idx = {n.id for n in ast.walk(y.slice) if isinstance(n, ast.Name)}
                        if idx and idx & {n.id for n in ast.walk(x.right) if isinstance(n, ast.Name)}:
                            deferred.append(x)
            out.append((lp, R, app, consume, norm, deferred))
    return out


def rule_newton_girard(chk, uni):
    km = uni.km
    found = []
    fns = [(fn.name, fn) for fn in km.functions.values()]
    for cname, cls in km.classes.items():
        fns += [("%s.%s" % (cname, n), f) for n, f in pf.methods(cls).items() if n not in getattr(km, "absorbed", ())]
    for where, fn in fns:
        for rec in _recursions(fn):
            found.append((where, fn) + rec)
    convention = any(norm and not deferred for (_, _, _, _, _, _, norm, deferred) in found)
    seen = set()
    for where, fn, lp, R, app, consume, norm, deferred in found:
        if (where, R, lp.lineno) in seen:
            continue
        seen.add((where, R, lp.lineno))
        inst = "%s: entries of the recursion list %s are normalised before later iterations consume them" % (where, R)
        if norm and not deferred:
            chk.ok("newton-girard", inst, detail=pf.src(norm[0]))
        elif norm and deferred:
            chk.violation("newton-girard", KR, where, "recursion %s" % R, deferred[0].lineno,
                          "the entries of %s are divided by their index inside the recursion (`%s`) and again where they "
                          "are summed (`%s`): the per-entry factor is applied twice"
                          % (R, pf.src(norm[0]), pf.src(deferred[0])[:60]), instance=inst)
        elif deferred and convention:
            chk.violation("newton-girard", KR, where, "recursion %s" % R, consume[0].lineno,
                          "`%s` builds each new entry of %s from EARLIER entries (`%s`), but the division of an entry by "
                          "its index is postponed to the final summation (`%s`) instead of being applied inside the "
                          "loop as the sibling recursions of this module do (e.g. `en[-1] /= n + 1`): from the second "
                          "re-use on the consumed entries carry a pending factor, so every term of order >= 4 is wrong "
                          "(orders <= 3 are exact only because the pending factors are 1)"
                          % (pf.src(app)[:60], R, pf.src(consume[0])[:60], pf.src(deferred[0])[:60]), instance=inst)
        else:
            chk.ok("newton-girard", inst + " (no per-entry factor anywhere: not a normalised recursion)", nontrivial=False)
            chk.note("newton-girard", where, "recursion over %s without any index-dependent division" % R)
    chk.count("self-consuming list recursions", len(seen))


# ----------------------------------------------------------------------------
# round 10: diag / gradient width / double selection / scatter / lock typestate / sklearn __init__
# ----------------------------------------------------------------------------
def _method_sigs(uni, alias, mod, cls, fn, names=("__call__", "k_and_deriv", "diag")):
    ex, _ = value_slice(fn, value_starts(fn))
    return primitives(uni, mod, cls, fn, ex, alias, set(names))


def _selection(sigs):
    return {s for s in sigs if (s[0] == "select" and s[1] == "X") or (s[0] == "xform" and s[2] == ("X",))}


def _own_value(sigs):
    """the method computes a kernel value itself (distance / product primitives), not only by delegation"""
    return any(s[0] in ("cdist", "pdist", "broadcast-diff", "broadcast-prod", "dot", "einsum") for s in sigs)


def _column_independent(fn):
    """the method uses its array argument only through the number of rows"""
    ps = [a.arg for a in fn.args.args if a.arg not in ("self", "cls")]
    if not ps:
        return True
    x = ps[0]
    for n in ast.walk(fn):
        if isinstance(n, ast.Name) and n.id == x and isinstance(n.ctx, ast.Load):
            par = pf.parent(n)
            ok_ = False
            if isinstance(par, ast.Attribute) and par.attr == "shape":
                pp = pf.parent(par)
                ok_ = isinstance(pp, ast.Subscript) and pf.src(pp.slice) == "0"
            if isinstance(par, ast.Call) and pf.call_name(par) in ("_num_samples", "len"):
                ok_ = True
            if not ok_:
                return False
    return True


def rule_diag_selection(chk, uni, alias):
    km = uni.km
    for cname, cls in km.classes.items():
        if not uni.is_kernel(km, cls):
            continue
        rc = uni.find_method(km, cls, "__call__")
        rd = uni.find_method(km, cls, "diag")
        if rc is None or rd is None or rc[0] is not km:
            continue  # value computed by sklearn: its own diag belongs to it
        mro = [c for _, c in uni.mro(km, cls)]
        ccls, cfn = rc[1], rc[2]
        dmod, dcls, dfn = rd
        csig = _method_sigs(uni, alias, km, cls, cfn)
        sel = _selection(csig)
        own = _own_value(csig)
        if not sel and not own:
            continue
        inst = "%s: diag agrees with the kernel evaluated by %s.__call__" % (cname, ccls.name)
        pos_c, pos_d = mro.index(ccls), mro.index(dcls)
        if pos_d > pos_c:
            # diag inherited from above the class that defines the value
            if dmod is km and any(s[0] == "delegate" and s[1] == "self" for s in _method_sigs(uni, alias, km, cls, dfn)):
                chk.ok("diag-selection", inst + " (inherited diag evaluates self(X))", nontrivial=False)
            elif not own and _column_independent(dfn):
                chk.ok("diag-selection", inst + " (normalised kernel: inherited diag does not look at the columns)")
            else:
                why = ("computes its own kernel function" if own else
                       "evaluates the base kernel on %s" % ", ".join(fmt_sig(s) for s in sorted(sel)))
                chk.violation("diag-selection", KR, cname, "diag inherited from %s" % dcls.name, cls.lineno,
                              "%s.__call__ %s, but diag is inherited from %s, which %s: diag(X) != diag k(X, X)"
                              % (ccls.name, why, dcls.name,
                                 "is the diagonal of a different kernel function" if own
                                 else "looks at all columns of X"), instance=inst)
            continue
        if dmod is not km:
            continue
        dsig = _method_sigs(uni, alias, km, cls, dfn)
        if any(s[0] == "delegate" and s[1] == "self" for s in dsig):
            chk.ok("diag-selection", inst + " (diag evaluates self(X))", nontrivial=False)
            continue
        dsel = _selection(dsig)
        # the same input must reach the child on EVERY returning path of diag, not only on one of them
        if dsel == sel and sel:
            for r_ in pf.walk_no_nested(dfn):
                if isinstance(r_, ast.Return) and r_.value is not None:
                    if any(pol and pf.is_self_attr(t, "_locked") for t, pol, k in cfgm.conditions_at(r_)):
                        continue  # re-entrant branch: the outer call already selected the input
                    ex_, _ = value_slice(dfn, [r_.value])
                    rs = primitives(uni, km, cls, dfn, ex_, alias, {"__call__", "k_and_deriv", "diag"})
                    if any(s_[0] == "delegate" for s_ in rs) and _selection(rs) != sel:
                        dsel = _selection(rs)
                        dfn_line = r_.lineno
                        break
        if dsel == sel:
            chk.ok("diag-selection", inst + " (%s)" % (", ".join(fmt_sig(s) for s in sorted(sel)) or "no column selection"))
        else:
            chk.violation("diag-selection", KR, "%s.diag" % dcls.name, "column selection of diag", dfn.lineno,
                          "%s.__call__ evaluates the kernel on %s, but %s.diag uses %s: diag(X) != diag k(X, X)"
                          % (ccls.name, ", ".join(fmt_sig(s) for s in sorted(sel)) or "all columns", dcls.name,
                             ", ".join(fmt_sig(s) for s in sorted(dsel)) or "all columns of X"), instance=inst)


def rule_grad_width(chk, uni, alias):
    km = uni.km
    for cname, cls in km.classes.items():
        fn = pf.methods(cls).get("k_and_deriv")
        if fn is None or _only_raises(fn):
            continue
        sigs = _method_sigs(uni, alias, km, cls, fn)
        if not any(s[0] == "select" and s[1] == "X" for s in sigs):
            continue
        where = "%s.k_and_deriv" % cname
        inst = "%s: the gradient covers every column of the input X" % where
        xname = [a.arg for a in fn.args.args if a.arg != "self"][0]
        rebinds = [st.lineno for st in pf.walk_no_nested(fn) if isinstance(st, ast.Assign)
                   and any(isinstance(t, ast.Name) and t.id == xname for t in st.targets)]
        first_rebind = min(rebinds) if rebinds else 10 ** 9
        defs = fn_defs(fn)
        bad = None
        for r in pf.walk_no_nested(fn):
            if not isinstance(r, ast.Return) or r.value is None:
                continue
            conds = cfgm.conditions_at(r)
            if any(pol and pf.is_self_attr(t, "_locked") for t, pol, k in conds):
                continue  # re-entrant branch: input already selected by the outer call
            if not (isinstance(r.value, ast.Tuple) and len(r.value.elts) == 2 and isinstance(r.value.elts[1], ast.Name)):
                bad = (r, "it returns the result of the sub-kernel directly")
                break
            gname = r.value.elts[1].id
            full = False
            for st, val, tgt in defs.get(gname, []):
                if isinstance(val, ast.Call) and (pf.call_name(val) or "").split(".")[-1] in ("zeros", "zeros_like") and val.args:
                    shp = val.args[0]
                    while isinstance(shp, ast.Name) and shp.id in defs:
                        cand = [v for s_, v, t_ in defs[shp.id] if isinstance(v, (ast.Tuple, ast.BinOp))]
                        if not cand:
                            break
                        shp = cand[-1]
                    for x in ast.walk(shp):
                        e = x
                        if isinstance(e, ast.Name) and e.id in defs:
                            for s_, v, t_ in defs[e.id]:
                                if pf.src(v) == "%s.shape[1]" % xname and s_.lineno < first_rebind:
                                    full = True
                        if pf.src(e) == "%s.shape[1]" % xname and getattr(e, "lineno", 0) < first_rebind:
                            full = True
            scatter = any(isinstance(tgt, ast.Subscript) for st, val, tgt in defs.get(gname, []))
            if not (full and scatter):
                bad = (r, "`%s` is not an array of width %s.shape[1] (of the original %s) filled through the selected "
                          "columns" % (gname, xname, xname))
                break
        if bad is None:
            chk.ok("grad-width", inst)
        else:
            chk.violation("grad-width", KR, where, "gradient width", bad[0].lineno,
                          "the kernel acts on a subset of the columns (%s), and %s: the returned gradient has one slot "
                          "per SELECTED column, so callers that expect d k / d X for all columns (DFTKernel, products "
                          "with other kernels) mis-assign or silently broadcast it"
                          % (", ".join(fmt_sig(s) for s in sorted(sigs) if s[0] == "select"), bad[1]), instance=inst)


def rule_double_selection(chk, uni, alias):
    km = uni.km
    for cname, cls in km.classes.items():
        if not uni.is_kernel(km, cls):
            continue
        mro = uni.mro(km, cls)
        for pos, (m, c) in enumerate(mro):
            if m is not km:
                continue
            for mname, fn in pf.methods(c).items():
                if mname not in ("__call__", "diag", "k_and_deriv"):
                    continue
                sigs = _method_sigs(uni, alias, km, cls, fn)
                if not _selection(sigs):
                    continue
                locks = any(_is_lock_assign(s_, True) for s_ in pf.walk_no_nested(fn))
                for n in pf.walk_no_nested(fn):
                    if not _is_base_delegation(n):
                        continue
                    tname = n.func.attr
                    if pf.is_self_attr(n.func.value, "_base_cls"):
                        rest = mro[pos + 1:]
                        rest = [(mm, cc) for mm, cc in rest if not cc.name.startswith("_IndexMixin")]
                    else:
                        rest = mro[pos + 1:]
                    target = None
                    for mm, cc in rest:
                        if tname in pf.methods(cc):
                            target = (mm, cc, pf.methods(cc)[tname])
                            break
                    if target is None or target[0] is not km:
                        continue
                    where = "%s.%s" % (c.name, mname)
                    inst = "%s (as %s): delegation to %s.%s does not re-enter a selecting method of self" % (
                        where, cname, target[1].name, tname)
                    again = None
                    for x in pf.walk_no_nested(target[2]):
                        if isinstance(x, ast.Call):
                            re_name = None
                            if isinstance(x.func, ast.Name) and x.func.id == "self":
                                re_name = "__call__"
                            elif isinstance(x.func, ast.Attribute) and isinstance(x.func.value, ast.Name) \
                                    and x.func.value.id == "self" and x.func.attr in ("__call__", "diag", "k_and_deriv"):
                                re_name = x.func.attr
                            if re_name is None:
                                continue
                            rr = uni.find_method(km, cls, re_name)
                            if rr is None or rr[0] is not km:
                                continue
                            if _selection(_method_sigs(uni, alias, km, cls, rr[2])):
                                guarded = any(pf.is_self_attr(y, "_locked") for y in ast.walk(rr[2]))
                                if not (guarded and locks):
                                    again = (x, rr)
                    if again is None:
                        chk.ok("double-selection", inst)
                    else:
                        x, rr = again
                        chk.violation("double-selection", KR, where, "re-entry through %s.%s" % (target[1].name, tname), n.lineno,
                                      "%s selects the active columns and then calls %s.%s, whose `%s` resolves, for an "
                                      "instance of %s, to %s.%s -- which selects the columns a second time (wrong "
                                      "columns, or an IndexError when fewer columns remain)"
                                      % (where, target[1].name, tname, pf.src(x)[:40], cname, rr[1].name, rr[2].name),
                                      instance=inst)


def rule_scatter(chk, uni):
    km = uni.km
    for cname, cls in km.classes.items():
        for mname, fn in pf.methods(cls).items():
            stores = {}
            for st in pf.walk_no_nested(fn):
                if isinstance(st, (ast.Assign, ast.AugAssign)):
                    for t in (st.targets if isinstance(st, ast.Assign) else [st.target]):
                        for tt in (t.elts if isinstance(t, (ast.Tuple, ast.List)) else [t]):
                            if isinstance(tt, ast.Subscript) and isinstance(tt.value, ast.Name):
                                idx = tt.slice.elts[-1] if isinstance(tt.slice, ast.Tuple) else tt.slice
                                if pf.is_self_attr(idx):
                                    stores.setdefault(tt.value.id, []).append((st, idx.attr))
            for arr, sts in stores.items():
                attrs = {a for _, a in sts}
                if len(attrs) < 2:
                    continue
                where = "%s.%s" % (cname, mname)
                inst = "%s: scatters into %s through %s accumulate" % (where, arr, sorted(attrs))
                plain = [st for st, a in sts if isinstance(st, ast.Assign)]
                if not plain:
                    chk.ok("scatter-accumulate", inst)
                else:
                    chk.violation("scatter-accumulate", KR, where, "scatter through self.%s" % "/self.".join(sorted(attrs)),
                                  plain[0].lineno,
                                  "`%s` and its sibling store write into the same array through the index lists %s, which "
                                  "nothing keeps disjoint: a column that occurs in both lists keeps only the last "
                                  "contribution; the contributions must be accumulated (`+=` into zeros)"
                                  % (pf.src(plain[0])[:70], ", ".join("self." + a for a in sorted(attrs))), instance=inst)


def rule_lock_release(chk, uni):
    km = uni.km
    for cname, cls in km.classes.items():
        for mname, fn in pf.methods(cls).items():
            if mname in getattr(km, "absorbed", ()):
                continue
            locks = [s_ for s_ in pf.walk_no_nested(fn) if _is_lock_assign(s_, True)]
            unlocks = [s_ for s_ in pf.walk_no_nested(fn) if _is_lock_assign(s_, False)]
            if not locks or not unlocks:
                continue
            g = cfgm.CFG(fn)
            un_ids = {g.node_of(u).id for u in unlocks}
            where = "%s.%s" % (cname, mname)
            for s_ in locks:
                region, work = set(), list(g.succ[g.node_of(s_).id])
                while work:
                    u = work.pop()
                    if u in region or u in un_ids:
                        continue
                    region.add(u)
                    work.extend(g.succ[u])
                risky = []
                for u in sorted(region):
                    n = g.nodes[u]
                    if n.ast is None or n.kind in ("handler",) or isinstance(n.ast, ast.Try):
                        continue
                    roots = [n.ast.test] if n.kind == "test" else ([n.ast.iter] if n.kind == "iter" else [n.ast])
                    if not any(isinstance(x, (ast.Call, ast.Subscript, ast.BinOp)) for r_ in roots for x in ast.walk(r_)):
                        continue
                    tr = pf.enclosing(n.ast, (ast.Try,))
                    prot = False
                    while tr is not None:
                        if any(_is_lock_assign(y, False) for y in tr.finalbody) and any(n.ast is y for b in tr.body for y in ast.walk(b)):
                            prot = True
                        tr = pf.enclosing(tr, (ast.Try,))
                    if not prot:
                        risky.append(n)
                inst = "%s: the lock is released on exceptional exits too" % where
                if not risky:
                    chk.ok("lock-release", inst)
                else:
                    chk.violation("lock-release", KR, where, "unprotected locked region", risky[0].ast.lineno,
                                  "between `self._locked = True` and `self._locked = False` %d statement(s) can raise "
                                  "(first: `%s`) and are not inside a try whose finally releases the lock: after one "
                                  "rejected call (wrong shape, bad index) the instance stays locked, and every later "
                                  "call takes the `if self._locked` branch and evaluates the base kernel on ALL columns"
                                  % (len(risky), pf.src(risky[0].ast).split("\n")[0][:70]), instance=inst)


def rule_sklearn_init(chk, uni):
    km = uni.km
    for cname, cls in km.classes.items():
        if not uni.is_kernel(km, cls):
            continue
        mro = uni.mro(km, cls)
        r = uni.find_method(km, cls, "__init__")
        gp_ = uni.find_method(km, cls, "get_params")
        custom_get_params = gp_ is not None and gp_[0] is km
        inst = "%s: sklearn parameter introspection works (explicit __init__, parameters stored under their names)" % cname
        if r is None:
            if custom_get_params:
                chk.ok("sklearn-init", inst + " (own get_params)", nontrivial=False)
            else:
                chk.violation("sklearn-init", KR, cname, "no __init__ in the MRO", cls.lineno,
                              "no class of %s defines __init__, so sklearn's Kernel.get_params inspects "
                              "object.__init__(*args, **kwargs) and raises RuntimeError; theta, bounds, clone_with_theta, "
                              "repr and == all go through get_params" % " > ".join(c.name for _, c in mro), instance=inst)
            continue
        if custom_get_params:
            chk.ok("sklearn-init", inst + " (own get_params)", nontrivial=False)
            continue
        init = r[2]
        if init.args.vararg is not None:
            chk.violation("sklearn-init", KR, "%s.__init__" % r[1].name, "*%s" % init.args.vararg.arg, init.lineno,
                          "the constructor takes *%s: Kernel.get_params raises RuntimeError" % init.args.vararg.arg,
                          instance=inst)
            continue
        stored = set()
        for m, c in mro:
            i2 = pf.methods(c).get("__init__")
            if i2 is not None:
                stored |= {t.attr for x in ast.walk(i2) if isinstance(x, (ast.Assign, ast.AnnAssign))
                           for t in (x.targets if isinstance(x, ast.Assign) else [x.target]) if pf.is_self_attr(t)}
            stored |= {n for n, f in pf.methods(c).items() if any(pf.src(d) == "property" for d in f.decorator_list)}
        params = [a.arg for a in init.args.args[1:] + init.args.kwonlyargs]
        missing = [p_ for p_ in params if p_ not in stored]
        if missing:
            chk.violation("sklearn-init", KR, "%s.__init__" % r[1].name, "parameter %s" % missing[0], init.lineno,
                          "constructor parameter(s) %s are not stored as attributes of the same name: get_params does "
                          "getattr(self, name) and raises AttributeError" % missing, instance=inst)
        else:
            chk.ok("sklearn-init", inst)



# ----------------------------------------------------------------------------
# round 11: a scalar-initialised accumulator is not indexed like an array before something promoted it
# ----------------------------------------------------------------------------
def _literal_trip_positive(lp):
    it = lp.iter
    if isinstance(it, ast.Call) and pf.call_name(it) == "range" and all(isinstance(a, ast.Constant) for a in it.args):
        try:
            return len(range(*[a.value for a in it.args])) > 0
        except Exception:
            return False
    if isinstance(it, (ast.List, ast.Tuple)):
        return len(it.elts) > 0
    return False


def rule_scalar_accumulator(chk, uni, prog):
    n_acc = 0
    for mod in (uni.km, prog.module(DKR)):
        fns = [(fn.name, fn) for fn in mod.functions.values()]
        for cname, cls in mod.classes.items():
            fns += [("%s.%s" % (cname, n), f) for n, f in pf.methods(cls).items()]
        for where, fn in fns:
            lits = {}
            for st in pf.walk_no_nested(fn):
                if isinstance(st, ast.Assign) and len(st.targets) == 1 and isinstance(st.targets[0], ast.Name) \
                        and isinstance(st.value, ast.Constant) and isinstance(st.value.value, (int, float)) \
                        and not isinstance(st.value.value, bool):
                    lits.setdefault(st.targets[0].id, []).append(st)
            if not lits:
                continue
            uses = {}
            for x in pf.walk_no_nested(fn):
                if isinstance(x, ast.Subscript) and isinstance(x.value, ast.Name) and x.value.id in lits \
                        and isinstance(x.ctx, ast.Load) and isinstance(x.slice, (ast.Tuple, ast.Slice)):
                    uses.setdefault(x.value.id, []).append(x)
            if not uses:
                continue
            g = cfgm.CFG(fn)
            for nm, us in sorted(uses.items()):
                n_acc += 1
                promote = set()
                for st in pf.walk_no_nested(fn):
                    if isinstance(st, ast.Assign) and any(isinstance(t, ast.Name) and t.id == nm for t in st.targets) \
                            and st not in lits[nm]:
                        # re-binding to something computed (e.g. nm = nm[..] * X) is itself a use when it indexes nm
                        if not any(isinstance(y, ast.Subscript) and isinstance(y.value, ast.Name) and y.value.id == nm
                                   for y in ast.walk(st.value)):
                            promote.add(g.node_of(st).id)
                loop_of = {}
                for lp in pf.walk_no_nested(fn):
                    if isinstance(lp, ast.For):
                        loop_of[g.node_of(lp).id] = (lp, {id(y) for y in ast.walk(lp)} - {id(lp)})
                bad = None
                for d in lits[nm]:
                    for u in us:
                        un = g.stmt_of_expr(u)
                        if un is None:
                            continue
                        seen, work = set(), [(v, False) for v in g.succ[g.node_of(d).id]]
                        while work:
                            cur, from_body = work.pop()
                            if (cur, from_body) in seen:
                                continue
                            seen.add((cur, from_body))
                            if cur == un.id:
                                bad = (d, u)
                                break
                            if cur in promote:
                                continue
                            for v in g.succ[cur]:
                                if cur in loop_of and g.edge_label.get((cur, v)) == "F" and _literal_trip_positive(loop_of[cur][0]) \
                                        and not from_body:
                                    continue  # a loop over a non-empty literal range runs at least once
                                fb = False
                                if v in loop_of:
                                    n_ = g.nodes[cur]
                                    fb = n_.ast is not None and id(n_.ast) in loop_of[v][1]
                                work.append((v, fb))
                        if bad:
                            break
                    if bad:
                        break
                inst = "%s: %s, initialised with a number, holds an array whenever it is indexed like one" % (where, nm)
                if bad is None:
                    chk.ok("scalar-accumulator", inst)
                else:
                    d, u = bad
                    chk.violation("scalar-accumulator", mod.rel, where, "array index of %s" % nm, u.lineno,
                                  "`%s` starts as the number `%s` and only the `+=` inside a loop can turn it into an array, "
                                  "but `%s` indexes it like an array on a path where that loop body contributes nothing "
                                  "array-valued (the loop runs zero times, or its first pass adds a scalar): TypeError "
                                  "for small orders instead of a zero/constant gradient"
                                  % (nm, pf.src(d.value), pf.src(u)[:40]), instance=inst)
    chk.count("scalar-initialised accumulators indexed as arrays", n_acc)
    chk.ok("scalar-accumulator", "kernels.py, dft_kernel.py: %d scalar-initialised names are indexed like arrays" % n_acc,
           nontrivial=False)



# ----------------------------------------------------------------------------
# round 14: a possibly 0-d (isotropic) length scale is not indexed
# ----------------------------------------------------------------------------
def rule_isotropic_index(chk, uni):
    km = uni.km
    src_fn = km.functions.get("_check_length_scale")
    if src_fn is None:
        raise core.AnalysisError("_check_length_scale vanished from kernels.py")
    squeezes = any(isinstance(x, ast.Call) and (pf.call_name(x) or "").endswith("squeeze") for x in ast.walk(src_fn))
    if not squeezes:
        chk.ok("isotropic-index", "_check_length_scale no longer squeezes its argument: a 0-d result is not possible",
               nontrivial=False)
        return
    n_inst = 0
    for cname, cls in km.classes.items():
        for mname, fn in pf.methods(cls).items():
            if mname in getattr(km, "absorbed", ()):
                continue
            defs = fn_defs(fn)
            seeds = {nm for nm, ds in defs.items() for st, v, t in ds
                     if isinstance(v, ast.Call) and pf.call_name(v) == "_check_length_scale" and isinstance(t, ast.Name)}
            if not seeds:
                continue
            group = set(seeds)
            changed = True
            while changed:
                changed = False
                for nm, ds in defs.items():
                    if nm not in group and any(isinstance(v, ast.Name) and v.id in group for st, v, t in ds):
                        group.add(nm)
                        changed = True
            subs = [x for x in pf.walk_no_nested(fn) if isinstance(x, ast.Subscript) and isinstance(x.value, ast.Name)
                    and x.value.id in group and isinstance(x.ctx, ast.Load)]
            if not subs:
                continue
            n_inst += 1
            tested = False
            for x in pf.walk_no_nested(fn):
                if isinstance(x, ast.Call) and (pf.call_name(x) or "").split(".")[-1] in ("ndim", "isscalar", "iterable", "atleast_1d", "size") \
                        and x.args and isinstance(x.args[0], ast.Name) and x.args[0].id in group:
                    tested = True
                if isinstance(x, ast.Attribute) and x.attr in ("ndim", "shape", "size") and isinstance(x.value, ast.Name) \
                        and x.value.id in group:
                    tested = True
            where = "%s.%s" % (cname, mname)
            inst = "%s: the length scale from _check_length_scale is indexed only after its 0-d (isotropic) form was handled" % where
            if tested:
                chk.ok("isotropic-index", inst)
            else:
                chk.violation("isotropic-index", KR, where, "index of the checked length scale", subs[0].lineno,
                              "_check_length_scale squeezes an isotropic length scale (the default of the RBF base class, "
                              "a scalar or a length-1 array) to a 0-d array, and `%s` indexes the result without looking at "
                              "its dimension: IndexError for the isotropic form that the base class accepts"
                              % pf.src(subs[0])[:40], instance=inst)
    chk.count("methods indexing a checked length scale", n_inst)


# ----------------------------------------------------------------------------
# composite kernels: k_and_deriv is the same function of the child kernel values as __call__, and its input
# gradient is the chain rule of that function
# ----------------------------------------------------------------------------
_NP_IDENT = {"asarray", "ascontiguousarray", "array", "asanyarray"}
_NP_BIN = {"add": "add", "multiply": "mul", "power": "pow", "subtract": "sub", "divide": "div", "true_divide": "div"}


def _gradient_branch(node, fn):
    """True when `node` lies in a branch taken only for eval_gradient=True"""
    ps = [a.arg for a in fn.args.args + fn.args.kwonlyargs]
    if "eval_gradient" not in ps:
        return False
    ch, p = node, pf.parent(node)
    while p is not None and p is not fn:
        if isinstance(p, ast.If):
            t, pol = p.test, True
            while isinstance(t, ast.UnaryOp) and isinstance(t.op, ast.Not):
                t, pol = t.operand, not pol
            if isinstance(t, ast.Name) and t.id == "eval_gradient":
                in_body = any(ch is s for s in p.body)
                in_else = any(ch is s for s in p.orelse)
                if (in_body and pol) or (in_else and not pol):
                    return True
        ch, p = p, pf.parent(p)
    return False


class _Sym:
    """expression -> canonical term over child kernel values, child gradients, self attributes and constants"""

    def __init__(self, uni, mod, cls, fn):
        self.fn = fn
        self.rkr = Ranker(fn)
        self.ctor = uni.ctor_params(mod, cls)
        self.defs = {}
        for nm, ds in fn_defs(fn).items():
            self.defs[nm] = [(st, v, t) for st, v, t in ds if not _gradient_branch(st, fn)]
        self._busy = set()

    def child(self, call):
        """('child'|'dpair', attr, args) for self.<attr>(...) / self.<attr>.k_and_deriv(...)"""
        f = call.func
        if pf.is_self_attr(f) and f.attr in self.ctor:
            return ("child", f.attr, call_args_sig(call, False, self.rkr))
        if isinstance(f, ast.Attribute) and f.attr == "k_and_deriv" and pf.is_self_attr(f.value) and f.value.attr in self.ctor:
            return ("dpair", f.value.attr, call_args_sig(call, False, self.rkr))
        return None

    def flat(self, op, items):
        out = []
        for i in items:
            if i[0] == op:
                out += list(i[1:])
            else:
                out.append(i)
        return (op,) + tuple(sorted(out, key=repr))

    def sym(self, e):
        if isinstance(e, ast.Constant):
            return ("const", e.value)
        if isinstance(e, ast.Name):
            ds = self.defs.get(e.id, [])
            if len(ds) != 1 or e.id in self._busy or isinstance(ds[0][0], (ast.For, ast.AugAssign)):
                return ("opaque", e.id)
            st, v, t = ds[0]
            if isinstance(t, ast.Subscript):
                return ("opaque", e.id)
            self._busy.add(e.id)
            try:
                if isinstance(st, ast.Assign) and isinstance(st.targets[0], (ast.Tuple, ast.List)):
                    elts = st.targets[0].elts
                    c = self.child(v) if isinstance(v, ast.Call) else None
                    if c is not None and c[0] == "dpair" and len(elts) == 2 and len(st.targets) == 1:
                        i = next((k for k, x in enumerate(elts) if x is t), None)
                        if i is not None:
                            return ("child" if i == 0 else "dchild", c[1], c[2])
                    return ("opaque", e.id)
                return self.sym(v)
            finally:
                self._busy.discard(e.id)
        if pf.is_self_attr(e):
            return ("attr", e.attr)
        if isinstance(e, ast.BinOp):
            a, b = self.sym(e.left), self.sym(e.right)
            if isinstance(e.op, ast.Add):
                return self.flat("add", [a, b])
            if isinstance(e.op, ast.Mult):
                return self.flat("mul", [a, b])
            for k, nm in ((ast.Sub, "sub"), (ast.Div, "div"), (ast.Pow, "pow")):
                if isinstance(e.op, k):
                    return (nm, a, b)
            return ("opaque", pf.src(e))
        if isinstance(e, ast.UnaryOp) and isinstance(e.op, ast.USub):
            return ("neg", self.sym(e.operand))
        if isinstance(e, ast.UnaryOp) and isinstance(e.op, ast.UAdd):
            return self.sym(e.operand)
        if isinstance(e, ast.Subscript):
            idx = e.slice.elts if isinstance(e.slice, ast.Tuple) else [e.slice]
            if all((isinstance(i, ast.Slice) and i.lower is None and i.upper is None and i.step is None)
                   or pf.src(i) in NEWAXIS or (isinstance(i, ast.Constant) and i.value is Ellipsis) for i in idx):
                return self.sym(e.value)  # broadcasting only
            return ("opaque", pf.src(e))
        if isinstance(e, ast.Call):
            c = self.child(e)
            if c is not None and c[0] == "child":
                return c
            cn = pf.call_name(e) or ""
            last = cn.split(".")[-1]
            if isinstance(e.func, ast.Attribute) and e.func.attr == "copy" and not e.args:
                return self.sym(e.func.value)
            if cn.startswith(("np.", "numpy.")) and not e.keywords:
                if last in _NP_IDENT and len(e.args) == 1:
                    return self.sym(e.args[0])
                if last in _NP_BIN and len(e.args) == 2:
                    a, b = self.sym(e.args[0]), self.sym(e.args[1])
                    return self.flat(_NP_BIN[last], [a, b]) if _NP_BIN[last] in ("add", "mul") else (_NP_BIN[last], a, b)
                if e.args and not any(isinstance(a, ast.Starred) for a in e.args):
                    return ("call", last) + tuple(self.sym(a) for a in e.args)
            return ("opaque", pf.src(e)[:60])
        return ("opaque", pf.src(e)[:60])


def _has(t, kind):
    return isinstance(t, tuple) and (t[0] == kind or any(_has(x, kind) for x in t[1:]))


def _fmt_sym(t):
    if not isinstance(t, tuple):
        return repr(t)
    k = t[0]
    if k == "const":
        return repr(t[1])
    if k in ("child", "dchild"):
        return ("K[%s]" if k == "child" else "dK[%s]") % t[1]
    if k == "attr":
        return "self." + t[1]
    if k == "opaque":
        return "<%s>" % t[1]
    if k in ("add", "mul"):
        return "(" + (" + " if k == "add" else " * ").join(_fmt_sym(x) for x in t[1:]) + ")"
    if k in ("sub", "div", "pow"):
        return "(%s %s %s)" % (_fmt_sym(t[1]), {"sub": "-", "div": "/", "pow": "**"}[k], _fmt_sym(t[2]))
    if k == "neg":
        return "-" + _fmt_sym(t[1])
    if k == "call":
        return "%s(%s)" % (t[1], ", ".join(_fmt_sym(x) for x in t[2:]))
    return str(t)


def _chain(S, t):
    """d t / d X by the chain rule over the child gradients; None when t leaves the (+, -, *, /, **) algebra"""
    k = t[0]
    if k == "child":
        return ("dchild", t[1], t[2])
    if k in ("const", "attr"):
        return ("const", 0)
    if not _has(t, "child"):
        return ("const", 0) if not _has(t, "opaque") else None
    if k == "add":
        parts = [_chain(S, x) for x in t[1:]]
        if any(p is None for p in parts):
            return None
        parts = [p for p in parts if p != ("const", 0)]
        return parts[0] if len(parts) == 1 else S.flat("add", parts)
    if k == "mul":
        terms = []
        for i, x in enumerate(t[1:]):
            d = _chain(S, x)
            if d is None:
                return None
            if d == ("const", 0):
                continue
            rest = [y for j, y in enumerate(t[1:]) if j != i]
            terms.append(S.flat("mul", rest + [d]))
        return terms[0] if len(terms) == 1 else S.flat("add", terms)
    if k == "pow" and not _has(t[2], "child"):
        d = _chain(S, t[1])
        if d is None:
            return None
        return S.flat("mul", [t[2], ("pow", t[1], ("sub", t[2], ("const", 1))), d])
    if k == "neg":
        d = _chain(S, t[1])
        return None if d is None else ("neg", d)
    if k == "sub":
        a, b = _chain(S, t[1]), _chain(S, t[2])
        if a is None or b is None:
            return None
        if b == ("const", 0):
            return a
        return ("sub", a, b) if a != ("const", 0) else ("neg", b)
    return None


def rule_composite(chk, uni):
    km = uni.km
    for cname, cls in km.classes.items():
        dfn = pf.methods(cls).get("k_and_deriv")
        if dfn is None or _only_raises(dfn):
            continue
        rets = [r for r in pf.walk_no_nested(dfn) if isinstance(r, ast.Return) and r.value is not None]
        if len(rets) != 1 or not (isinstance(rets[0].value, ast.Tuple) and len(rets[0].value.elts) == 2):
            continue
        SD = _Sym(uni, km, cls, dfn)
        dval = SD.sym(rets[0].value.elts[0])
        if not _has(dval, "child"):
            continue  # not a function of child kernels
        inst = "%s: k_and_deriv returns the same function of the child kernel values as __call__" % cname
        r = uni.find_method(km, cls, "__call__")
        if r is None:
            chk.note("composite-value", "%s.k_and_deriv" % cname, "no __call__ in the MRO")
            continue
        vmod, vcls, vfn = r
        vrets = [x for x in pf.walk_no_nested(vfn) if isinstance(x, ast.Return) and x.value is not None
                 and not _gradient_branch(x, vfn)]
        SV = _Sym(uni, vmod, cls if vmod is km else vcls, vfn)
        SV.ctor = SD.ctor
        vvals = {SV.sym(x.value) for x in vrets}
        if len(vvals) != 1 or _has(dval, "opaque") or any(_has(v, "opaque") for v in vvals):
            chk.note("composite-value", "%s.k_and_deriv" % cname, "not comparable symbolically: %s vs %s"
                     % (_fmt_sym(dval), " | ".join(sorted(_fmt_sym(v) for v in vvals))))
        else:
            vval = vvals.pop()
            if vval == dval:
                chk.ok("composite-value", inst, detail=_fmt_sym(dval))
            else:
                chk.violation("composite-value", KR, "%s.k_and_deriv" % cname, "value " + _fmt_sym(dval), rets[0].lineno,
                              "%s.__call__ (%s) returns %s of its child kernels, but the value returned by k_and_deriv "
                              "is %s: k_and_deriv(X, Y)[0] != kernel(X, Y) wherever the two expressions differ, and the "
                              "returned gradient belongs to a different function"
                              % (vcls.name, "sklearn" if vmod is not km else "kernels.py", _fmt_sym(vval), _fmt_sym(dval)),
                              instance=inst)
        # chain rule of the returned value
        inst = "%s: the input gradient of k_and_deriv is the chain rule of its value over the child gradients" % cname
        want = _chain(SD, dval) if not _has(dval, "opaque") else None
        got = SD.sym(rets[0].value.elts[1])
        if want is None or _has(got, "opaque"):
            chk.note("composite-chain", "%s.k_and_deriv" % cname, "gradient not in the (+, -, *, /, **) algebra of the "
                     "child gradients: %s" % _fmt_sym(got))
            continue
        if got == want:
            chk.ok("composite-chain", inst, detail=_fmt_sym(got))
        else:
            chk.violation("composite-chain", KR, "%s.k_and_deriv" % cname, "gradient " + _fmt_sym(got), rets[0].lineno,
                          "the value is %s, whose derivative by the chain rule is %s; the returned input gradient is %s"
                          % (_fmt_sym(dval), _fmt_sym(want), _fmt_sym(got)), instance=inst)


# ----------------------------------------------------------------------------
def analyse(chk):
    tree = chk.tree
    uni = Universe(tree)
    alias, src = scipy_metric_aliases(uni.site)
    chk.extra["third_party_sources"] = {"sklearn": os.path.join(uni.site, SK_REL), "scipy_metric_table": src}
    prog = inline.inlined_program(tree, [DKR, XE, XE2, KR])
    chk.rule("sibling-primitives", "value part of the derivative method uses the same primitives/options/ranks as the value method")
    chk.rule("sibling-override", "input-selecting __call__ overrides come with a matching k_and_deriv")
    chk.rule("pol-kernel", "polarised kernel: same sum of products in 4 methods; product rule for the input gradient")
    chk.rule("lock-pairing", "_locked = True ... = False on every normal path; base call inside the locked region")
    chk.rule("attr-defined", "self attributes read by kernel classes are defined in the (repo + sklearn) MRO")
    chk.rule("fixed-excluded", "returned hyper-parameter gradients have no slot for fixed hyper-parameters")
    chk.rule("slot-offset", "gradient slot order and offsets agree with theta when some hyper-parameters are fixed")
    chk.rule("param-write", "no kernel method writes into its X/Y (array) arguments or views of them")
    chk.rule("units-input", "E-deg: unit(d k/d X) == unit(k) / unit(X) for k_and_deriv, incl. composites with symbolic units")
    chk.rule("units-hyper", "E-deg: unit(d k/d log theta) == unit(k) for __call__(eval_gradient=True)")
    chk.guard(rule_siblings, uni, alias)
    chk.rule("composite-value", "k_and_deriv of a composite kernel returns the same function of the child kernel values as __call__")
    chk.rule("composite-chain", "the input gradient of a composite kernel is the chain rule of its value over the child gradients")
    chk.guard(rule_composite, uni)
    chk.floor("composite-value", 2, "DiffSum, DiffProduct, DiffExponentiation, DiffTransform")
    chk.floor("composite-chain", 1, "DiffSum, DiffProduct, DiffExponentiation")
    chk.guard(rule_pol_kernel, prog)
    chk.guard(rule_lock, uni)
    chk.guard(rule_attrs, uni, prog)
    chk.guard(rule_fixed, uni)
    chk.guard(rule_units, uni, prog)
    chk.guard(rule_param_write, uni, prog)
    chk.rule("hyper-memo", "state kept on a kernel object between calls is keyed by every hyper-parameter it depends on")
    chk.guard(rule_hyper_memo, uni)
    chk.rule("diag-selection", "diag applies the column selection / kernel function of the class's __call__")
    chk.rule("grad-width", "k_and_deriv of a column-restricting kernel returns a gradient over all input columns")
    chk.rule("double-selection", "a selecting method does not re-enter a selecting method of self through its base class")
    chk.rule("scatter-accumulate", "scatters through several index lists into one array accumulate")
    chk.rule("lock-release", "the re-entrancy lock is released on exceptional exits (try/finally)")
    chk.rule("sklearn-init", "every kernel class has an explicit __init__ whose parameters are stored under their names")
    chk.guard(rule_diag_selection, uni, alias)
    chk.guard(rule_grad_width, uni, alias)
    chk.guard(rule_double_selection, uni, alias)
    chk.guard(rule_scatter, uni)
    chk.guard(rule_lock_release, uni)
    chk.guard(rule_sklearn_init, uni)
    chk.floor("diag-selection", 6, "selecting / self-computing kernel classes")
    chk.floor("grad-width", 2, "PartialRBF, PartialARBF, _SubsetMixin, _SpinSymMixin")
    chk.floor("double-selection", 4, "delegations of the selecting methods")
    chk.floor("scatter-accumulate", 1, "_SpinSymMixin.k_and_deriv")
    chk.floor("lock-release", 3, "six locked regions")
    chk.floor("sklearn-init", 16, "kernel classes")
    chk.rule("scalar-accumulator", "a number-initialised accumulator is never indexed like an array before it was promoted")
    chk.guard(rule_scalar_accumulator, uni, prog)
    chk.floor("scalar-accumulator", 1, "summary instance")
    chk.rule("isotropic-index", "a length scale that may be 0-d (isotropic) is not indexed before its dimension was handled")
    chk.guard(rule_isotropic_index, uni)
    chk.floor("isotropic-index", 2, "DiffAntisymRBF.__call__, diag, k_and_deriv")
    chk.rule("newton-girard", "list recursions that re-use earlier entries normalise each entry inside the loop, like their siblings")
    chk.guard(rule_newton_girard, uni)
    chk.floor("newton-girard", 4, "value and derivative recursions of DiffARBF and DiffAdditiveMixin")
    chk.floor("hyper-memo", 2, "the _locked flags of the two locking mixins")
    # external rules
    from sa import kerneldens  # noqa: E402 (b-eval: sign-domain rule for denominators of kernel gradients)
    chk.guard(kerneldens.rule_kernel_denominators, prog)
    # -- end external rules
    chk.floor("param-write", 30, "methods/functions of kernels.py and dft_kernel.py taking array arguments")
    chk.floor("sibling-primitives", 9, "classes defining k_and_deriv / _get_k0_dk0_eval")
    chk.floor("sibling-override", 2, "PartialRBF, PartialARBF")
    chk.floor("pol-kernel", 4, "4 combinations + operand agreement + 2 product rules")
    chk.floor("lock-pairing", 8, "2 mixins x (init + 3 acquisitions + 3..5 base calls) + _index_and_lock")
    chk.floor("attr-defined", 17, "kernel classes in kernels.py + DFTKernel, DFTKernel2")
    chk.floor("fixed-excluded", 6, "gradient returns of 9 __call__ methods")
    chk.floor("slot-offset", 4, "DiffARBF and DiffAdditiveMixin: order + 3 slot stores each")
    chk.assumptions += [
        "kernel inputs X, Y are 2-D (n_samples, n_features), the sklearn convention",
        "sklearn orders theta by the alphabetical order of the hyperparameter_* attributes (Kernel.hyperparameters)",
        "attribute definedness is flow-insensitive: an attribute assigned in any method of the MRO counts as defined",
    ]
    chk.not_decided += [
        "positive semidefiniteness and symmetry of k(X, X); k(X, Y) == k(Y, X).T; diag(X) == diag k(X, X)",
        "numerical equality of hyper-parameter / input gradients with finite differences of the value",
        "state left behind by exceptions inside a locked region (noted, not a violation)",
    ]


def rule_units(chk, uni, prog):
    """DESIGN C15 rule 1 on top of sa.deg (units-of-measure abstract interpretation; no CAS):
    with X, Y and length scales carrying the unit U, k_and_deriv must return (k, dk) with
    unit(dk) == unit(k) / U, and __call__(X, eval_gradient=True) must return a gradient with respect
    to the LOG of each hyper-parameter, i.e. unit(grad) == unit(k).  Composite rules are checked with
    symbolic child units K1, K2 and a symbolic exponent p."""
    try:
        from sa import deg
    except ImportError as e:  # the engine is a separate module of the framework
        raise core.AnalysisError("sa.deg is not importable (%s): units rule cannot run" % e)
    Q, Deg, D0, ANY, Lin, Tup, KV, fmt = deg.Q, deg.Deg, deg.D0, deg.ANY, deg.Lin, deg.Tup, deg.K, deg.fmt
    U = Q(Deg.of(U=1))
    R = Q(Deg.of(R=1))

    def child(sym, self_first=False):
        def h(eng, node, args, kwargs, env):
            a = args[1] if self_first and len(args) > 1 else (args[0] if args else None)
            if not isinstance(a, Q) or a.is_rows or a.deg is ANY:
                return deg.Unk("argument of child kernel")
            kd = Deg.of(**{sym: 1}) if sym else D0
            return Tup([Q(kd), Q(kd - a.deg)])
        return h

    def dimless(eng, node, args, kwargs, env):
        return Q(D0)

    def first_arg(eng, node, args, kwargs, env):
        return args[0] if args else deg.Unk("no argument")

    calls = {
        "np.tile": first_arg,
        "self.__call__": dimless, "self": dimless,
        "self.k1.k_and_deriv": child("K1"), "self.k2.k_and_deriv": child("K2"),
        "self.kernel.k_and_deriv": child("K"),
        "self._base_cls.k_and_deriv": child("", self_first=True),
    }
    calls_sum = dict(calls)
    calls_sum["self.k2.k_and_deriv"] = child("K1")
    # the dimensionless stand-in for __call__ is only for values computed by sklearn (RBF.__call__)
    variants = {}

    def pick(cl, cname):
        r = uni.find_method(uni.km, uni.km.classes[cname], "__call__")
        own = r is not None and r[0] is uni.km
        if own:
            vex, _ = value_slice(r[2], value_starts(r[2]))
            V = primitives(uni, uni.km, r[1], r[2], vex, {}, {"__call__", "k_and_deriv"})
            if any(sg[0] == "delegate" and sg[1] in ("super", "base") for sg in V):
                own = False  # the value is produced further up the MRO (sklearn's RBF.__call__)
        if own:
            key = (id(cl), "own")
            if key not in variants:
                variants[key] = {k: v for k, v in cl.items() if k != "self.__call__"}
            return variants[key]
        return cl
    two = Q(D0, num=Lin.const(2))
    three = Q(D0, num=Lin.const(3))
    add = dict(length_scale=U, order=two, scale=Q(D0))
    adda = dict(add, alpha=Q(D0))
    p = Q(D0, num=Lin.sym("p"))
    M = Q(Deg.of(M=1))
    none = KV(None)
    input_cases = [
        ("DiffRBF", dict(length_scale=U), calls, ""),
        ("DiffARBF", add, calls, ""),
        ("DiffARBFV2", add, calls, ""),
        ("DiffAddLLRBF", adda, calls, ""),
        ("DiffAddRQ", adda, calls, ""),
        ("DiffPolyKernel", dict(gamma=Q(Deg.of(U=-2)), order=three, factorial=KV(True)), calls, " factorial"),
        ("DiffPolyKernel", dict(gamma=Q(Deg.of(U=-2)), order=three, factorial=KV(False)), calls, " plain"),
        ("DiffLinearKernel", {}, calls, ""),
        ("PartialRBF", dict(length_scale=U, start=Q(D0), active_dims=none), calls, ""),
        ("DiffSum", {}, calls_sum, " (children of equal unit K1)"),
        ("DiffProduct", {}, calls, " (children of units K1, K2)"),
        ("DiffExponentiation", dict(exponent=p), calls, " (symbolic exponent p)"),
        ("DiffTransform", dict(matrix=M, std=U, avg=U), calls, " (std, avg given)"),
        ("DiffTransform", dict(matrix=M, std=none, avg=none), calls, " (no std/avg)"),
        ("SubsetRBF", dict(length_scale=U, _locked=KV(False)), calls, " (mixin _SubsetMixin)"),
        ("SpinSymRBF", dict(length_scale=U, _locked=KV(False)), calls, " (mixin _SpinSymMixin)"),
    ]
    hyper_cases = [
        ("DiffARBF", add, U, ""),
        ("DiffARBFV2", add, U, ""),
        ("DiffAddLLRBF", adda, U, ""),
        ("DiffAddRQ", adda, U, ""),
        ("DiffPolyKernel", dict(gamma=Q(Deg.of(U=-2)), order=three, factorial=KV(True), anisotropic=KV(False)), U,
         " factorial, isotropic"),
        ("DiffPolyKernel", dict(gamma=Q(Deg.of(U=-2)), order=three, factorial=KV(False), anisotropic=KV(False)), U,
         " plain, isotropic"),
        ("DiffPolyKernel", dict(gamma=Q(Deg.of(U=-2)), order=three, factorial=KV(True), anisotropic=KV(True)), U,
         " factorial, anisotropic"),
        ("FittedDensityNoise", dict(decay_rate=Q(Deg.of(R=-1))), R, " (density of unit R, decay_rate of unit 1/R)"),
        ("ExponentialDensityNoise", dict(exponent=Q(D0, num=Lin.sym("e"))), Q(D0), " (dimensionless density)"),
    ]
    sessions = {}

    def session(cl):
        if id(cl) not in sessions:
            sessions[id(cl)] = deg.Session(chk.tree, [KR], attr_default="unknown", calls=cl)
        return sessions[id(cl)]

    def plain(v):
        return isinstance(v, Q) and not v.is_rows and v.deg is not ANY

    def run(rule, cname, attrs, cl, tag, meth, args, kwargs, want_fn, what):
        if cname not in uni.km.classes:
            raise core.AnalysisError("kernel class %s vanished" % cname)
        s = session(pick(cl, cname))
        o = s.obj(KR, cname, **attrs)
        res = s.call(o, meth, args=args, kwargs=kwargs)
        where = "%s.%s%s" % (cname, meth, tag)
        for m in res.mismatches:
            chk.violation(rule, m.rel, m.func, m.text, m.line,
                          "unit mismatch (%s) while typing %s: %s vs %s in `%s`"
                          % (m.kind, where, fmt(m.left), fmt(m.right), m.text), instance=where + " :: " + m.text)
        chk.count("units: not-comparable sites", len(res.unknowns))
        v = res.value
        items = v.items if isinstance(v, Tup) else None
        inst = "%s: %s" % (where, what)
        if items is None or len(items) != 2:
            if res.mismatches:
                return
            chk.note(rule, where, "not comparable: returns %s" % fmt(v))
            return
        kq, gq = items
        if isinstance(gq, Q) and not gq.is_rows and gq.deg is ANY:
            chk.ok(rule, inst + " (gradient is a polymorphic zero)", nontrivial=False)
            return
        gdegs = None
        if isinstance(gq, Q) and gq.is_rows and plain(kq):
            # an array whose slots were stored one by one: every stored slot must have the wanted unit
            vals = list(gq.rows.values()) + ([Q(gq.deg)] if gq.deg is not ANY else [])
            if vals and all(plain(x) for x in vals):
                gdegs = [x.deg for x in vals]
        elif plain(kq) and plain(gq):
            gdegs = [gq.deg]
        if gdegs is None and rule == "units-hyper" and isinstance(gq, deg.Unk) and plain(kq) \
                and "differs between stores" in getattr(gq, "why", ""):
            # stores of two different (known) units into one gradient array: every slot of a log-hyper-parameter
            # gradient must carry the unit of k, so a heterogeneous array has at least one wrong slot
            fn = s.hooks.method_of(o, meth)
            chk.violation(rule, KR, "%s.%s" % (pf.enclosing_class(fn.fdef).name if fn else cname, meth),
                          "slots of the returned gradient carry different units", fn.fdef.lineno if fn else 0,
                          "%s: the slots of the returned hyper-parameter gradient are stored with different units, "
                          "whereas every d k / d log(theta_i) must have the unit of k (%s)" % (where, fmt(kq)),
                          instance=inst)
            return
        if gdegs is None:
            if not res.mismatches:
                chk.note(rule, where, "not comparable: value %s, gradient %s" % (fmt(kq), fmt(gq)))
            return
        want = want_fn(kq.deg)
        if all(g == want for g in gdegs):
            chk.ok(rule, inst, detail="k: %s, gradient: %s" % (fmt(kq), fmt(gq)))
        else:
            fn = s.hooks.method_of(o, meth)
            chk.violation(rule, KR, "%s.%s" % (pf.enclosing_class(fn.fdef).name if fn else cname, meth),
                          "unit of the returned gradient", fn.fdef.lineno if fn else 0,
                          "%s: the kernel value has unit %s, so %s must have unit %s, but the returned gradient has "
                          "unit %s" % (where, fmt(kq), what, fmt(Q(want)), fmt(gq)), instance=inst)

    for cname, attrs, cl, tag in input_cases:
        run("units-input", cname, attrs, cl, tag, "k_and_deriv", [U, U], None,
            lambda kd: kd - U.deg, "d k / d X (unit of k divided by the unit of X)")
    for cname, attrs, xq, tag in hyper_cases:
        run("units-hyper", cname, attrs, calls, tag, "__call__", [xq], {"eval_gradient": KV(True)},
            lambda kd: kd, "d k / d log(hyper-parameter) (same unit as k)")
    chk.floor("units-input", 8, "16 typed k_and_deriv configurations")
    chk.floor("units-hyper", 4, "9 typed __call__(eval_gradient=True) configurations")



def _revert_ng(i):
    """revert the i-th site (0..3) of the Newton-Girard fix: no division inside the loop, division at the summation"""
    import re as _re

    def fn(text):
        pat = _re.compile(r"( +)den\[-1\] /= n\n((?:.*\n){1,6}?)( +)res \+= self\.scale\[n\] \* den\[n\]\n")
        ms = list(pat.finditer(text))
        if len(ms) <= i:
            return None
        m_ = ms[i]
        return text[:m_.start()] + m_.group(2) + m_.group(3) + "res += self.scale[n] * den[n] / (n - 1)\n" + text[m_.end():]
    return fn



def _revert_partial_rbf(text):
    import re as _re
    m_ = _re.search(r"(class PartialRBF\(DiffRBF\):(?:.*\n)+?)    def k_and_deriv\(self, X, Y=None\):\n(?:.*\n)+?        return k, dk\n", text)
    if not m_:
        return None
    old_form = ("    def k_and_deriv(self, X, Y=None):\n        if self.active_dims is None:\n            X = X[:, self.start :]\n"
                "            if Y is not None:\n                Y = Y[:, self.start :]\n        else:\n"
                "            X = X[:, self.active_dims]\n            if Y is not None:\n                Y = Y[:, self.active_dims]\n"
                "        return super(PartialRBF, self).k_and_deriv(X, Y)\n")
    return text[:m_.start()] + m_.group(1) + old_form + text[m_.end():]


def mutants(tree):
    return [
        # composite algebra
        Mutant("exponentiation value from |k|", KR, "            k**self.exponent,\n", "            np.abs(k)**self.exponent,\n",
               expect="composite-value"),
        Mutant("exponentiation prefactor from |k|", KR, "(self.exponent * k ** (self.exponent - 1))",
               "(self.exponent * np.abs(k) ** (self.exponent - 1))", expect="composite-chain"),
        Mutant("product rule weights |k1|", KR, "k1[..., None] * dk2 + k2[..., None] * dk1",
               "np.abs(k1)[..., None] * dk2 + k2[..., None] * dk1", expect="composite-chain"),
        # units (E-deg)
        Mutant("RBF input gradient / length_scale instead of **2", KR, "        dk /= self.length_scale**2\n",
               "        dk /= self.length_scale\n", expect="units-input"),
        Mutant("power rule k**exponent instead of k**(exponent-1)", KR, "(self.exponent * k ** (self.exponent - 1))",
               "(self.exponent * k ** self.exponent)", expect="units-input"),
        Mutant("product rule pairs k1 with dk1", KR, "k1[..., None] * dk2 + k2[..., None] * dk1",
               "k1[..., None] * dk1 + k2[..., None] * dk2", expect="units-input"),
        Mutant("transform backward forgets std", KR,
               "        X = X.dot(self.matrix.T)\n        if self.std is not None:\n            X = X / self.std\n        return X",
               "        X = X.dot(self.matrix.T)\n        return X", expect="units-input"),
        Mutant("poly input gradient without gamma", KR, "dk = self.gamma * dk[:, :, None] * Y[None, :, :]",
               "dk = dk[:, :, None] * Y[None, :, :]", expect="units-input"),
        Mutant("ARBFV2 eval derivative without 1/length_scale", KR, "dk0 = -diff * k0 / self.length_scale",
               "dk0 = -diff * k0", expect="units-input"),
        Mutant("ARBF input gradient not divided by length_scale", KR, "        dk /= self.length_scale\n\n        return kernel, dk",
               "        return kernel, dk", expect="units-input"),
        Mutant("LLRBF log-gradient term loses a factor Y", KR,
               "ddot = -2 * invssq * X[:, np.newaxis, :] * Y[np.newaxis, :, :]", "ddot = -2 * invssq * X[:, np.newaxis, :]",
               expect="units-hyper"),
        Mutant("RQ log-gradient with one diff", KR,
               "                2\n                * diff\n                * diff\n                * (1 + diff * diff * inv_scale) ** (-1 - alpha)",
               "                2\n                * diff\n                * (1 + diff * diff * inv_scale) ** (-1 - alpha)",
               expect="units-hyper"),
        Mutant("poly log-gradient anisotropic without gamma", KR,
               "dk = dk[:, :, None] * X[:, None, :] * X[None, :, :] * self.gamma", "dk = dk[:, :, None] * X[:, None, :] * X[None, :, :]",
               expect="units-hyper"),
        # sibling agreement
        Mutant("metric literal differs between value and derivative", KR,
               'dists = cdist(XT, YT, metric="sqeuclidean")\n        KT = np.exp(-0.5 * dists)\n        XS = X[:, :2] / length_scale[0]\n        YS = Y[:, :2] / length_scale[0]\n\n',
               'dists = cdist(XT, YT, metric="euclidean")\n        KT = np.exp(-0.5 * dists)\n        XS = X[:, :2] / length_scale[0]\n        YS = Y[:, :2] / length_scale[0]\n\n',
               expect="sibling-primitives"),
        Mutant("ARBF derivative drops the length scale from the value", KR,
               "        diff = (X[:, np.newaxis, :] - Y[np.newaxis, :, :]) / self.length_scale\n        k0 = np.exp(-0.5 * diff**2)\n        sk = []\n        for i in range(self.order):",
               "        diff = X[:, np.newaxis, :] - Y[np.newaxis, :, :]\n        k0 = np.exp(-0.5 * diff**2)\n        sk = []\n        for i in range(self.order):",
               count=1, expect="sibling-primitives"),
        Mutant("RQ eval value forgets alpha", KR,
               "        inv_scale = 1.0 / (2 * self.alpha * self.length_scale**2)\n        alpha = self.alpha\n        k0 = (1 + diff * diff * inv_scale) ** (-alpha)\n        if eval_gradient:\n            dk0 = (\n                -2",
               "        inv_scale = 1.0 / (2 * self.length_scale**2)\n        alpha = 1.0\n        k0 = (1 + diff * diff * inv_scale) ** (-alpha)\n        if eval_gradient:\n            dk0 = (\n                -2",
               expect="sibling-primitives"),
        Mutant("LLRBF eval broadcast pattern transposed", KR,
               "        diff = (X[:, np.newaxis, :] - Y[np.newaxis, :, :]) / self.length_scale\n        k0 = np.exp(-0.5 * diff**2)\n        dot = 1 + invssq * X[:, np.newaxis, :] * Y[np.newaxis, :, :]\n        if eval_gradient:\n            dk0 = -1.0",
               "        diff = (X[np.newaxis, :, :] - Y[:, np.newaxis, :]) / self.length_scale\n        k0 = np.exp(-0.5 * diff**2)\n        dot = 1 + invssq * X[:, np.newaxis, :] * Y[np.newaxis, :, :]\n        if eval_gradient:\n            dk0 = -1.0",
               expect="sibling-primitives"),
        Mutant("PartialRBF.k_and_deriv forgets active_dims", KR,
               "            inds = slice(self.start, None)\n        else:\n            inds = self.active_dims\n        Xs = X[:, inds]",
               "            inds = slice(self.start, None)\n        else:\n            inds = slice(self.start, None)\n        Xs = X[:, inds]",
               expect="sibling-primitives"),
        Mutant("Subset k_and_deriv does not index Y", KR,
               "            if Y is not None:\n                Y = Y[:, self.indexes]\n                shape = (X.shape[0], Y.shape[0], X.shape[1])",
               "            if Y is not None:\n                shape = (X.shape[0], Y.shape[0], X.shape[1])",
               expect="sibling-primitives"),
        Mutant("poly derivative value without gamma", KR,
               "        k = 1.0\n        dot1 = (self.gamma * X).dot(Y.T)\n", "        k = 1.0\n        dot1 = X.dot(Y.T)\n",
               expect="sibling-primitives"),
        Mutant("SingleRBF-style override gains an inherited k_and_deriv", KR,
               "class SingleRBF(RBF):", "class SingleRBF(DiffRBF):", expect="sibling-override"),
        # polarised kernel
        Mutant("polarised gradient: value block without the added feature axis (reverts 5a1bff3)", DKR,
               "dkdX1b = dkbb * kaa[..., None] + dkba * kab[..., None]", "dkdX1b = dkbb * kaa + dkba * kab[..., None]",
               expect="pol-kernel"),
        Mutant("polarised kernel blocks mispaired in get_k", DKR,
               "            kba = self.kernel(X1[1], self.X1ctrl[0])\n            k = kaa * kbb + kab * kba\n        else:\n            k = self.kernel(X1, self.X1ctrl)\n        if self.mode == \"SEP\":\n            k = k.T.reshape(self.Nctrl, nspin, Nsamp)\n        else:\n            k = k.T\n        return k\n",
               "            kba = self.kernel(X1[1], self.X1ctrl[0])\n            k = kaa * kab + kbb * kba\n        else:\n            k = self.kernel(X1, self.X1ctrl)\n        if self.mode == \"SEP\":\n            k = k.T.reshape(self.Nctrl, nspin, Nsamp)\n        else:\n            k = k.T\n        return k\n",
               expect="pol-kernel"),
        Mutant("product rule factor swapped", DKR, "dkdX1b = dkbb * kaa[..., None] + dkba * kab[..., None]", "dkdX1b = dkbb * kab[..., None] + dkba * kaa[..., None]",
               expect="pol-kernel"),
        Mutant("kctrl block on wrong spin", DKR, "kab = self.kernel(self.X1ctrl[0], self.X1ctrl[1])\n            kba = self.kernel(self.X1ctrl[1], self.X1ctrl[0])\n            k = kaa",
               "kab = self.kernel(self.X1ctrl[0], self.X1ctrl[1])\n            kba = self.kernel(self.X1ctrl[0], self.X1ctrl[1])\n            k = kaa", expect="pol-kernel"),
        Mutant("kctrl: k_ba taken as k_ab without transpose", DKR,
               "            kba = self.kernel(self.X1ctrl[1], self.X1ctrl[0])\n            k = kaa * kbb + kab * kba\n        else:\n            k = self.kernel(self.X1ctrl, self.X1ctrl)",
               "            kba = kab\n            k = kaa * kbb + kab * kba\n        else:\n            k = self.kernel(self.X1ctrl, self.X1ctrl)",
               expect="pol-kernel"),
        Mutant("reduce_npts: k_ab squared inline", DKR, "            S = saa * sbb + sab * sba", "            S = saa * sbb + sab * sab",
               expect="pol-kernel"),
        Mutant("get_k: k_ba as transpose of k_ab although operands differ", DKR,
               "            kba = self.kernel(X1[1], self.X1ctrl[0])\n            k = kaa * kbb + kab * kba\n        else:\n            k = self.kernel(X1, self.X1ctrl)\n        if self.mode == \"SEP\":\n            k = k.T.reshape(self.Nctrl, nspin, Nsamp)\n        else:\n            k = k.T\n        return k\n",
               "            kba = kab.T\n            k = kaa * kbb + kab * kba\n        else:\n            k = self.kernel(X1, self.X1ctrl)\n        if self.mode == \"SEP\":\n            k = k.T.reshape(self.Nctrl, nspin, Nsamp)\n        else:\n            k = k.T\n        return k\n",
               expect="pol-kernel"),
        # hidden writes
        Mutant("_transform divides the caller's X in place", KR, "            X = X / self.std\n        return X.dot(self.matrix)",
               "            X /= self.std\n        return X.dot(self.matrix)", expect="param-write"),
        Mutant("RBF k_and_deriv centres Y in place", KR, "        k = self.__call__(X, Y)\n        dk = k[:, :, None] * (Y[None, :, :] - X[:, None, :])",
               "        k = self.__call__(X, Y)\n        Yv = Y[None, :, :]\n        Yv -= X[:, None, :]\n        dk = k[:, :, None] * Yv",
               expect="param-write"),
        Mutant("poly scales X through an alias", KR,
               "        k = 1.0\n        dot1 = (self.gamma * X).dot(Y.T)\n",
               "        k = 1.0\n        Xs = X\n        Xs[:] = self.gamma * X\n        dot1 = Xs.dot(Y.T)\n", expect="param-write"),
        Mutant("get_k zeroes small features of X0T in place", DKR, "        nspin, N0, Nsamp = X0T.shape\n        X1 = self.get_descriptors(X0T)\n        if self.mode == \"POL\":\n            if nspin == 1:\n                X1 = np.concatenate([X1, X1], axis=0)\n            elif nspin != 2:\n                raise ValueError\n            X1 = X1.reshape(2, Nsamp, self.N1)\n            kaa = self.kernel(X1[0], self.X1ctrl[0])",
               "        nspin, N0, Nsamp = X0T.shape\n        X0T[X0T < 1e-12] = 0.0\n        X1 = self.get_descriptors(X0T)\n        if self.mode == \"POL\":\n            if nspin == 1:\n                X1 = np.concatenate([X1, X1], axis=0)\n            elif nspin != 2:\n                raise ValueError\n            X1 = X1.reshape(2, Nsamp, self.N1)\n            kaa = self.kernel(X1[0], self.X1ctrl[0])",
               expect="param-write"),
        # round 10: each mutant reverts one of the fixes 0590f6b ebc5bc0 ca419fb 701c4a9 d0c6056 6b8928b 13dbdf3
        Mutant("PartialRBF.k_and_deriv selects and delegates to DiffRBF.k_and_deriv again", KR, fn=_revert_partial_rbf,
               expect="double-selection"),
        Mutant("PartialARBF.k_and_deriv returns the sub-kernel gradient", KR,
               "        dk = np.zeros(k.shape + (nfeat,), dtype=dk_sub.dtype)\n        dk[:, :, inds] = dk_sub\n        return k, dk",
               "        return k, dk_sub", expect="grad-width"),
        Mutant("PartialARBF.diag removed (inherits DiffARBF.diag)", KR,
               "    def diag(self, X):\n        if not np.iterable(self.scale):\n            self.scale = [self.scale] * (self.order + 1)\n        return super(PartialARBF, self).diag(X[:, self._get_inds()])\n\n",
               "", expect="diag-selection"),
        Mutant("DiffAntisymRBF.diag removed (inherits all-ones)", KR, regex=True,
               old=r"    def diag\(self, X\):\n        # This kernel is not normalised(?:.*\n)+?        return 2 - 2 \* np\.exp\(-0\.5 \* diff \* diff\)\n\n",
               new="", expect="diag-selection"),
        Mutant("DiffTransform.diag skips the affine map for stationary kernels", KR,
               "    def diag(self, X):\n        return self.kernel.diag(self._transform(X))",
               "    def diag(self, X):\n        if self.kernel.is_stationary():\n            return self.kernel.diag(X)\n        return self.kernel.diag(self._transform(X))",
               expect="diag-selection"),
        Mutant("ADKernel.diag ignores active_dims", KR, "return self.k.diag(X[:, self.active_dims])", "return self.k.diag(X)",
               expect="diag-selection"),
        Mutant("SingleDot.diag removed", KR,
               "    def diag(self, X):\n        return super(SingleDot, self).diag(X[:, self.index : self.index + 1])\n\n", "",
               expect="diag-selection"),
        Mutant("SpinSymKernel.diag removed (inherits ADKernel.diag)", KR, regex=True,
               old=r"    def diag\(self, X\):\n        return self\.k\.diag\(X\[:, self\.up_active_dims\]\) \+ self\.k\.diag\(\n            X\[:, self\.down_active_dims\]\n        \)\n",
               new="", expect="diag-selection"),
        Mutant("spin scatter overwrites shared columns", KR, "        dkfull[:, :, self.beta_ind] += dk[NX:]",
               "        dkfull[:, :, self.beta_ind] = dk[NX:]", expect="scatter-accumulate"),
        Mutant("Subset.diag releases the lock only on success", KR,
               "        try:\n            result = self._base_cls.diag(self, X[:, self.indexes])\n        finally:\n            self._locked = False\n        return result",
               "        result = self._base_cls.diag(self, X[:, self.indexes])\n        self._locked = False\n        return result",
               expect="lock-release"),
        Mutant("DiffLinearKernel without __init__", KR, regex=True,
               old=r"(class DiffLinearKernel\(DiffKernelMixin, Kernel\):\n)    def __init__\(self\):\n(?:        #.*\n)*        pass\n\n",
               new=r"\1", expect="sklearn-init"),
        Mutant("QARBF stores ndim under another name", KR, "        self.ndim = ndim\n        self.scale = scale\n",
               "        self.n_dim = ndim\n        self.scale = scale\n", expect=None),
        Mutant("poly k_and_deriv accumulator starts as the float 0.0", KR, regex=True,
               old=r"(?:        #.*\n)*        dk = np\.zeros\(dot1\.shape, dtype=dot1\.dtype\)\n", new="        dk = 0.0\n",
               expect="scalar-accumulator"),
        Mutant("antisym __call__ indexes the squeezed length scale directly", KR,
               "        length_scale = self._get_length_scale(X)\n", "        length_scale = _check_length_scale(X[:, 1:], self.length_scale)\n",
               count=1, expect="isotropic-index"),
        # Newton-Girard recursions (each mutant reverts one site of the fix)
        Mutant("ARBF.__call__ derivative recursion normalised at the summation", KR, fn=_revert_ng(0), expect="newton-girard"),
        Mutant("ARBF.k_and_deriv derivative recursion normalised at the summation", KR, fn=_revert_ng(1), expect="newton-girard"),
        Mutant("additive __call__ derivative recursion normalised at the summation", KR, fn=_revert_ng(2), expect="newton-girard"),
        Mutant("additive k_and_deriv derivative recursion normalised at the summation", KR, fn=_revert_ng(3), expect="newton-girard"),
        Mutant("value recursion not normalised in the loop", KR, "            en[-1] /= n + 1\n        res = 0\n        for n in range(self.order + 1):\n            res += self.scale[n] * en[n]\n            if eval_gradient and not self.hyperparameter_scale.fixed:\n                derivs[:, :, num_scale + n]",
               "        res = 0\n        for n in range(self.order + 1):\n            res += self.scale[n] * en[n] / max(n, 1)\n            if eval_gradient and not self.hyperparameter_scale.fixed:\n                derivs[:, :, num_scale + n]",
               expect="newton-girard"),
        # caches on kernel objects
        Mutant("ARBF.diag caches the contracted scale sum keyed on (nfeat, order)", KR,
               "        comb_list = np.array(comb_list)\n        return np.ones(X.shape[0]) * np.sum(self.scale * comb_list)",
               "        comb_list = np.array(comb_list)\n        key = (nfeat, self.order)\n        cache = getattr(self, \"_diag_cache\", None)\n        if cache is None or cache[0] != key:\n            cache = (key, np.sum(self.scale * comb_list))\n            self._diag_cache = cache\n        return np.ones(X.shape[0]) * cache[1]",
               expect="hyper-memo"),
        Mutant("RBF.k_and_deriv memoises 1/length_scale**2 once", KR,
               "        dk /= self.length_scale**2\n        return k, dk",
               "        if not hasattr(self, \"_inv_ls2\"):\n            self._inv_ls2 = 1.0 / self.length_scale**2\n        dk *= self._inv_ls2\n        return k, dk",
               expect="hyper-memo"),
        # lock
        Mutant("remove a _locked = False (Subset.diag)", KR,
               "        try:\n            result = self._base_cls.diag(self, X[:, self.indexes])\n        finally:\n            self._locked = False\n        return result",
               "        result = self._base_cls.diag(self, X[:, self.indexes])\n        return result", expect="lock-pairing"),
        Mutant("early return before release (SpinSym.__call__)", KR,
               "        if eval_gradient:\n            k, dk = k\n        k = k[:NX] + k[NX:]",
               "        if eval_gradient:\n            k, dk = k\n        self._locked = True\n        if NX == 0:\n            return k\n        self._locked = False\n        k = k[:NX] + k[NX:]",
               expect="lock-pairing"),
        Mutant("diag no longer takes the lock around its delegation", KR,
               "        self._locked = True\n        try:\n            result = self._base_cls.diag(self, X[:, self.indexes])\n        finally:\n            self._locked = False\n        return result",
               "        return self._base_cls.diag(self, X[:, self.indexes])", expect="lock-pairing"),
        Mutant("SpinSym.k_and_deriv drops its lock", KR,
               "            return self._base_cls.k_and_deriv(self, X, Y=Y)\n        self._locked = True\n        try:\n            Nfeat = X.shape[1]",
               "            return self._base_cls.k_and_deriv(self, X, Y=Y)\n        try:\n            Nfeat = X.shape[1]", expect="lock-pairing"),
        Mutant("lock not taken before base call (Subset.k_and_deriv)", KR,
               "            return self._base_cls.k_and_deriv(self, X, Y=Y)\n        self._locked = True\n        try:\n            if Y is not None:\n                Y = Y[:, self.indexes]",
               "            return self._base_cls.k_and_deriv(self, X, Y=Y)\n        try:\n            if Y is not None:\n                Y = Y[:, self.indexes]",
               expect="lock-pairing"),
        Mutant("release before the base call (SpinSym.diag)", KR,
               "            diag = self._base_cls.diag(self, XA)\n            diag += self._base_cls.diag(self, XB)",
               "            self._locked = False\n            diag = self._base_cls.diag(self, XA)\n            diag += self._base_cls.diag(self, XB)",
               expect="lock-pairing"),
        Mutant("_index_and_lock gets a caller", KR,
               "        self._locked = True\n        try:\n            result = self._base_cls.diag(self, X[:, self.indexes])",
               "        self._locked = True\n        try:\n            self._index_and_lock(X)\n            result = self._base_cls.diag(self, X[:, self.indexes])",
               expect="lock-pairing"),
        # attributes
        Mutant("ADKernel reads undefined attribute", KR, "return self.k == b.k and self.active_dims == b.active_dims",
               "return self.k == b.k and self.active_dim == b.active_dims", expect="attr-defined"),
        Mutant("DiffExponentiation reads undefined attr", KR, "k**self.exponent,", "k**self.power,", expect="attr-defined"),
        Mutant("PartialRBF no longer stores start", KR,
               "        super(PartialRBF, self).__init__(length_scale, length_scale_bounds)\n        self.start = start\n",
               "        super(PartialRBF, self).__init__(length_scale, length_scale_bounds)\n", expect="attr-defined"),
        Mutant("DFTKernel reads undefined attribute", DKR, "c, piv, r_c = pivoted_cholesky(Ssort, tol=self.ctrl_tol)",
               "c, piv, r_c = pivoted_cholesky(Ssort, tol=self.ctrl_tolerance)", expect="attr-defined"),
        # fixed hyper-parameters
        Mutant("scale gradient written when scale is fixed (ARBF)", KR,
               "            if eval_gradient and not self.hyperparameter_scale.fixed:\n                derivs[:, :, num_scale + n]",
               "            if eval_gradient:\n                derivs[:, :, num_scale + n]", expect="fixed-excluded"),
        Mutant("noise kernel gradient ignores fixed", KR,
               "            if eval_gradient and not self.hyperparameter_decay_rate.fixed:",
               "            if eval_gradient:", expect="fixed-excluded"),
        Mutant("poly gradient ignores fixed", KR, "        optg = not self.hyperparameter_gamma.fixed\n", "        optg = True\n",
               expect="fixed-excluded"),
        Mutant("ARBF width counter unguarded", KR,
               "            if not self.hyperparameter_scale.fixed:\n                deriv_size += len(self.scale)\n            derivs = np.zeros((X.shape[0], Y.shape[0], deriv_size))",
               "            deriv_size += len(self.scale)\n            derivs = np.zeros((X.shape[0], Y.shape[0], deriv_size))",
               expect="fixed-excluded"),
        Mutant("ARBF offset not zeroed when length_scale fixed", KR,
               "                deriv_size += num_scale\n            else:\n                num_scale = 0\n",
               "                deriv_size += num_scale\n", expect="slot-offset"),
        Mutant("ARBF slot guards swapped", KR,
               "            if eval_gradient and not self.hyperparameter_scale.fixed:\n                derivs[:, :, num_scale + n]",
               "            if eval_gradient and not self.hyperparameter_length_scale.fixed:\n                derivs[:, :, num_scale + n]",
               expect="slot-offset"),
        Mutant("ARBF allocation order scale first", KR,
               "            if not self.hyperparameter_length_scale.fixed:\n                deriv_size += num_scale\n            else:\n                num_scale = 0\n            if not self.hyperparameter_scale.fixed:\n                deriv_size += len(self.scale)\n",
               "            if not self.hyperparameter_scale.fixed:\n                deriv_size += len(self.scale)\n            if not self.hyperparameter_length_scale.fixed:\n                deriv_size += num_scale\n            else:\n                num_scale = 0\n",
               expect="slot-offset"),
    ]


if __name__ == "__main__":
    sys.exit(core.main(PROP, analyse, mutants, __doc__))
