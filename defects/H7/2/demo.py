"""C16: the covariances stored by MOLGP.store_mol_covs (hence the fitted weights) depend
on the ORDER of the system ids when get_orb_deriv=None ("reads them iff they are
available").

_compute_mol_covs decides once, from the FIRST system of the list, whether orbital
occupation derivatives are processed (`if deriv is None: ...` in front of a loop over
all systems) and re-uses that decision for every later system:

  * ["A", "B"]  (A has orbital derivatives, B has none) -> AssertionError on B
  * ["B", "A"]                                          -> A's derivative data is read
        but silently dropped: kernel.dcov_dict / dbase_dict get no entry for A, and a
        later eigenvalue reaction ("A", orbital) cannot be added (or, if an older entry
        for A is still in the dictionaries, the stale one is used).
  * ["A"] then ["B"] in two calls                       -> works

Expected: the same stored covariances and the same kernel.alpha for every order.
"""
import contextlib
import io
import os
import sys
import tempfile

sys.path.insert(0, os.path.join(os.path.dirname(os.path.abspath(__file__)), "..", "common"))
import cider_env

cider_env.install(need_c=False)

import numpy as np
from pyscf.lib import chkfile

from ciderpress.dft.baselines import gga_x_pbe, lda_x
from ciderpress.dft.settings import FeatureSettings, SemilocalSettings
from ciderpress.dft.transform_data import FeatureList, UMap
from ciderpress.models.dft_kernel import DFTKernel
from ciderpress.models.kernels import DiffRBF
from ciderpress.models.train import MOLGP

rng = np.random.default_rng(0)


def make_X(n):
    X = np.empty((1, 3, n))
    X[:, 0] = rng.uniform(0.05, 2.0, (1, n))
    X[:, 1] = rng.uniform(0.0, 3.0, (1, n))
    X[:, 2] = rng.uniform(0.0, 3.0, (1, n))
    return X


tmp = tempfile.mkdtemp()
ddir = {"REF": os.path.join(tmp, "REF"), "SL": os.path.join(tmp, "SL"),
        "NLDF": None, "NLOF": None, "SDMX": None, "HYB": None}
os.makedirs(ddir["REF"])
os.makedirs(ddir["SL"])


def write_mol(mid, n, deriv):
    ref = {"wt": rng.uniform(0.1, 1.0, n), "val": -rng.uniform(0.1, 1, n),
           "e_tot_orig": -1.0, "exc_orig": -0.3, "nspin": 1}
    sl = {"desc": make_X(n)}
    if deriv:  # HOMO eigenvalue data
        ref["dval"] = {"O": {"0": -0.4}}
        sl["ddesc"] = {"O": {"0": rng.normal(size=(3, n))}}
    chkfile.save(os.path.join(ddir["REF"], mid + ".hdf5"), "train_data", ref)
    chkfile.save(os.path.join(ddir["SL"], mid + ".hdf5"), "train_data", sl)


write_mol("A", 50, True)   # system with orbital-derivative data
write_mol("B", 60, False)  # system without
Xctrl = make_X(25)
rxns = [
    (0, {"structs": ["A"], "counts": [1]}),
    (0, {"structs": ["B"], "counts": [1]}),
    (0, {"structs": ["A", "B"], "counts": [1, -1], "noise": 0.02}),
    (0, {"structs": [("A", ("O", 0))], "counts": [1]}),
]


def train(calls):
    settings = FeatureSettings(sl_settings=SemilocalSettings("npa"))
    flist = FeatureList([UMap(1, 0.3), UMap(2, 0.5)])
    kern = DFTKernel(DiffRBF(length_scale=np.array([0.4, 0.6])), flist, "SEP",
                     lda_x, gga_x_pbe, component="x")
    gp = MOLGP([kern], settings, default_noise=0.01)
    gp.set_control_points([Xctrl], reduce=False)
    with contextlib.redirect_stdout(io.StringIO()):
        for mol_ids in calls:
            gp.store_mol_covs(ddir, mol_ids)  # get_orb_deriv=None
    stored = "cov_dict=%s dcov_dict=%s" % (sorted(kern.cov_dict), sorted(kern.dcov_dict))
    gp.add_reactions(rxns)
    gp.fit()
    return kern.alpha.copy(), stored


results = {}
for label, calls in [("['A'] then ['B']", [["A"], ["B"]]),
                     ("['A', 'B']", [["A", "B"]]),
                     ("['B', 'A']", [["B", "A"]])]:
    try:
        alpha, stored = train(calls)
        results[label] = alpha
        print("store_mol_covs order %-18s -> OK   %s" % (label, stored))
    except Exception as e:
        results[label] = None
        print("store_mol_covs order %-18s -> %s: %s" % (label, type(e).__name__, e))

ref = results["['A'] then ['B']"]
assert ref is not None
ok = True
for label, alpha in results.items():
    if alpha is None:
        ok = False
        print("FAIL %-18s: no model (expected the same weights as for separate calls)" % label)
    else:
        err = np.abs(alpha - ref).max()
        print("     %-18s: max |alpha - alpha_ref| = %.2e" % (label, err))
        ok = ok and err < 1e-8
print("expected: identical kernel.alpha for all three orders")
sys.exit(0 if ok else 1)
