"""Python program facts: functions, classes, MRO, self-attribute definitions,
literal tables, simple name resolution.  Pure `ast`; never imports the repo."""
import ast

from sa.core import AnalysisError


def src(node):
    try:
        return ast.unparse(node)
    except Exception:
        return "<%s>" % type(node).__name__


def parent(node):
    return getattr(node, "_parent", None)


def enclosing(node, kinds):
    n = parent(node)
    while n is not None and not isinstance(n, kinds):
        n = parent(n)
    return n


def enclosing_func(node):
    return enclosing(node, (ast.FunctionDef, ast.AsyncFunctionDef))


def enclosing_class(node):
    return enclosing(node, (ast.ClassDef,))


def qualname(node):
    parts = []
    n = node
    while n is not None:
        if isinstance(n, (ast.FunctionDef, ast.AsyncFunctionDef, ast.ClassDef)):
            parts.append(n.name)
        n = parent(n)
    return ".".join(reversed(parts))


def walk_no_nested(node):
    """ast.walk that does not descend into nested function/class definitions
    (the node itself may be a function)."""
    todo = list(ast.iter_child_nodes(node))
    while todo:
        n = todo.pop()
        yield n
        if isinstance(n, (ast.FunctionDef, ast.AsyncFunctionDef, ast.ClassDef, ast.Lambda)):
            continue
        todo.extend(ast.iter_child_nodes(n))


class Module:
    def __init__(self, tree, rel):
        self.rel = rel
        self.ast = tree.py(rel)
        self.functions = {}
        self.classes = {}
        self.assigns = {}
        self.imports = {}  # local name -> (module, name|None)
        for st in self.ast.body:
            self._top(st)

    def _top(self, st):
        if isinstance(st, (ast.FunctionDef, ast.AsyncFunctionDef)):
            self.functions[st.name] = st
        elif isinstance(st, ast.ClassDef):
            self.classes[st.name] = st
        elif isinstance(st, ast.Assign):
            for t in st.targets:
                if isinstance(t, ast.Name):
                    self.assigns[t.id] = st.value
        elif isinstance(st, ast.AnnAssign) and isinstance(st.target, ast.Name) and st.value is not None:
            self.assigns[st.target.id] = st.value
        elif isinstance(st, ast.ImportFrom):
            for a in st.names:
                self.imports[a.asname or a.name] = (st.module or "", a.name)
        elif isinstance(st, ast.Import):
            for a in st.names:
                self.imports[a.asname or a.name.split(".")[0]] = (a.name, None)
        elif isinstance(st, (ast.If, ast.Try)):
            for sub in ast.iter_child_nodes(st):
                if isinstance(sub, ast.stmt):
                    self._top(sub)
                elif isinstance(sub, ast.ExceptHandler):
                    for s2 in sub.body:
                        self._top(s2)

    def func(self, name):
        """'f' or 'Class.method'."""
        if "." in name:
            c, m = name.split(".", 1)
            cls = self.classes.get(c)
            if cls is None:
                raise AnalysisError("anchor class %s vanished from %s" % (c, self.rel))
            for st in cls.body:
                if isinstance(st, (ast.FunctionDef, ast.AsyncFunctionDef)) and st.name == m:
                    return st
            raise AnalysisError("anchor method %s vanished from %s" % (name, self.rel))
        f = self.functions.get(name)
        if f is None:
            raise AnalysisError("anchor function %s vanished from %s" % (name, self.rel))
        return f

    def cls(self, name):
        c = self.classes.get(name)
        if c is None:
            raise AnalysisError("anchor class %s vanished from %s" % (name, self.rel))
        return c


def methods(cls):
    return {st.name: st for st in cls.body if isinstance(st, (ast.FunctionDef, ast.AsyncFunctionDef))}


def class_attrs(cls):
    out = {}
    for st in cls.body:
        if isinstance(st, ast.Assign):
            for t in st.targets:
                if isinstance(t, ast.Name):
                    out[t.id] = st.value
        elif isinstance(st, ast.AnnAssign) and isinstance(st.target, ast.Name) and st.value is not None:
            out[st.target.id] = st.value
    return out


class Program:
    """All modules of interest, with cross-module class resolution."""

    def __init__(self, tree, rels):
        self.tree = tree
        self.modules = {}
        for rel in rels:
            if tree.exists(rel):
                self.modules[rel] = Module(tree, rel)
        self._modname = {}
        for rel in self.modules:
            name = rel[:-3].replace("/", ".")
            if name.endswith(".__init__"):
                name = name[: -len(".__init__")]
            self._modname[name] = rel

    def module(self, rel):
        m = self.modules.get(rel)
        if m is None:
            raise AnalysisError("anchored module %s is absent" % rel)
        return m

    def resolve_class(self, mod, name):
        """name (Name id or dotted) as seen from module `mod` -> (Module, ClassDef) or None"""
        if isinstance(name, ast.AST):
            name = src(name)
        head = name.split(".")[0]
        if name in mod.classes:
            return mod, mod.classes[name]
        if head in mod.imports:
            m, n = mod.imports[head]
            if n is not None:
                rel = self._modname.get(m)
                if rel:
                    m2 = self.modules[rel]
                    tgt = name if "." not in name else name.split(".", 1)[1]
                    if n in m2.classes and "." not in name:
                        return m2, m2.classes[n]
                    if n in m2.imports:  # re-export
                        return self.resolve_class(m2, n)
            else:
                rest = name.split(".")[1:]
                if rest:
                    rel = self._modname.get(m)
                    if rel and rest[-1] in self.modules[rel].classes:
                        return self.modules[rel], self.modules[rel].classes[rest[-1]]
        return None

    def mro(self, mod, cls, _seen=None):
        """Linearised list [(Module, ClassDef)], repo classes only (C3 is
        approximated by depth-first left-to-right with duplicates removed
        keeping the last occurrence, which matches C3 for the repo's
        hierarchies: mixins first, single concrete base last)."""
        out = [(mod, cls)]
        for b in cls.bases:
            r = self.resolve_class(mod, b)
            if r is not None:
                out.extend(self.mro(r[0], r[1]))
        seen = set()
        res = []
        for m, c in reversed(out):
            if id(c) in seen:
                continue
            seen.add(id(c))
            res.append((m, c))
        res.reverse()
        # keep the class itself first
        res.remove((mod, cls))
        return [(mod, cls)] + res

    def find_method(self, mod, cls, name):
        for m, c in self.mro(mod, cls):
            ms = methods(c)
            if name in ms:
                return m, c, ms[name]
        return None

    def find_class_attr(self, mod, cls, name):
        for m, c in self.mro(mod, cls):
            at = class_attrs(c)
            if name in at:
                return m, c, at[name]
        return None

    def all_classes(self):
        for rel, m in self.modules.items():
            for c in m.classes.values():
                yield m, c

    def subclasses(self, base_name):
        out = []
        for m, c in self.all_classes():
            names = [cc.name for _, cc in self.mro(m, c)]
            if base_name in names[1:] or c.name == base_name:
                out.append((m, c))
        return out


# ----------------------------------------------------------------------------
# literal evaluator (tables)
# ----------------------------------------------------------------------------
class NotLiteral(Exception):
    pass


def literal(node, env=None):
    env = env or {}
    if isinstance(node, ast.Constant):
        return node.value
    if isinstance(node, (ast.List, ast.Tuple)):
        v = [literal(e, env) for e in node.elts]
        return v if isinstance(node, ast.List) else tuple(v)
    if isinstance(node, ast.Set):
        return set(literal(e, env) for e in node.elts)
    if isinstance(node, ast.Dict):
        return {literal(k, env): literal(v, env) for k, v in zip(node.keys, node.values)}
    if isinstance(node, ast.UnaryOp) and isinstance(node.op, ast.USub):
        return -literal(node.operand, env)
    if isinstance(node, ast.BinOp):
        a, b = literal(node.left, env), literal(node.right, env)
        try:
            if isinstance(node.op, ast.Add):
                return a + b
            if isinstance(node.op, ast.Sub):
                return a - b
            if isinstance(node.op, ast.Mult):
                return a * b
            if isinstance(node.op, ast.Div):
                return a / b
            if isinstance(node.op, ast.Pow):
                return a ** b
        except Exception:
            raise NotLiteral(src(node))
    if isinstance(node, ast.Name) and node.id in env:
        v = env[node.id]
        return literal(v, env) if isinstance(v, ast.AST) else v
    raise NotLiteral(src(node))


def is_self_attr(node, attr=None):
    return (
        isinstance(node, ast.Attribute)
        and isinstance(node.value, ast.Name)
        and node.value.id == "self"
        and (attr is None or node.attr == attr)
    )


def call_name(node):
    """dotted name of a Call's callee, or None"""
    if not isinstance(node, ast.Call):
        return None
    f = node.func
    parts = []
    while isinstance(f, ast.Attribute):
        parts.append(f.attr)
        f = f.value
    if isinstance(f, ast.Name):
        parts.append(f.id)
        return ".".join(reversed(parts))
    return None


def base_name(node):
    """root Name id of an attribute/subscript chain (x.T[1:].foo -> x)"""
    while isinstance(node, (ast.Attribute, ast.Subscript, ast.Starred)):
        node = node.value
    if isinstance(node, ast.Name):
        return node.id
    return None


def clone(node):
    """Deep copy of an AST (sub)tree WITHOUT following the framework's `_parent`
    back-links (copy.deepcopy would drag the whole module along through them).
    The copy has no `_parent` links; line numbers are kept."""
    if isinstance(node, list):
        return [clone(x) for x in node]
    if not isinstance(node, ast.AST):
        return node
    new = type(node)()
    for f in node._fields:
        if hasattr(node, f):
            setattr(new, f, clone(getattr(node, f)))
    for a in ("lineno", "col_offset", "end_lineno", "end_col_offset"):
        if hasattr(node, a):
            setattr(new, a, getattr(node, a))
    return new
