from ref import *
import ref, sys
from ciderpress.pyscf.gen_cider_grid import CiderGrids
from ciderpress.pyscf.nldf_convolutions import PyscfNLDFGenerator
np.random.seed(0)
mol = gto.M(atom="H 0 0 0; F 0 0 0.9", basis="def2-svp", spin=0, verbose=0)
ks = dft.RKS(mol); ks.xc='PBE'; ks.grids.level=1; ks.kernel()
dm = ks.make_rdm1()
ni = NumInt()
th=[1.0,0.0,0.03125]
vi = NLDFSettingsVI('MGGA', th, 'one', [], ["se_grad","se_rvec"], [(0,0),(-1,1),(0,1)])
grids = CiderGrids(mol, lmax=10); grids.level=1; grids.build(with_non0tab=False)
rho = get_full_rho(ni, mol, dm, grids, 'MGGA')[0]
sel0 = np.where(rho[0] > 1e-3)[0]
sel = np.random.choice(sel0, 100, replace=False)
coords = grids.coords[sel]
refv = reference(mol, dm, vi, coords)
for plan in ['gaussian', 'spline']:
  for itype in ['onsite_direct', 'onsite_spline']:
    gen = PyscfNLDFGenerator.from_mol_and_settings(mol, grids.grids_indexer, 1, vi, plan_type=plan, interpolator_type=itype)
    gen.interpolator.set_coords(grids.coords)
    f = gen.get_features(rho)
    pred = f[:, sel]
    err = np.abs(pred - refv).max(axis=1)
    scale = np.abs(refv).max(axis=1)
    print(plan, itype, ' '.join('%.0e'%x for x in err/scale))
    # potential check by finite difference of sum(w * g(feat))
    v = gen.get_potential(np.ones_like(f)*grids.weights)
    d = np.random.normal(size=rho.shape)*rho[0]*1e-4
    fp = gen.get_features(rho + d); fm = gen.get_features(rho - d)
    fd = ((fp - fm)*grids.weights).sum()/2
    an = (v*d).sum()
    print('   potential fd', fd, 'analytic', an)
ana = RHFAnalyzer(mol, dm); ana.grids = ref._Grids(mol, coords)
pred = get_descriptors(ana, vi)[0]
print('train_gen', ' '.join('%.0e'%x for x in np.abs(pred-refv).max(axis=1)/np.abs(refv).max(axis=1)))
