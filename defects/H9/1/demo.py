"""
C15 -- PartialRBF.k_and_deriv slices the inputs twice and returns a gradient
that is neither the derivative of the kernel nor of the input width.

Expected: k_and_deriv(X, Y)[0] == kernel(X, Y) and k_and_deriv(X, Y)[1] is
d kernel(X, Y) / dX with shape (NX, NY, X.shape[1]) (zero for inactive columns).
"""
import sys

import numpy as np

from ciderpress.models import kernels as K

rng = np.random.default_rng(0)
X = rng.uniform(size=(6, 4))
Y = rng.uniform(size=(5, 4))
fails = []


def fd(kern, X, Y, d=1e-6):
    out = np.zeros((X.shape[0], Y.shape[0], X.shape[1]))
    for i in range(X.shape[1]):
        Xp = X.copy()
        Xm = X.copy()
        Xp[:, i] += d
        Xm[:, i] -= d
        out[:, :, i] = (kern(Xp, Y) - kern(Xm, Y)) / (2 * d)
    return out


cases = {
    "isotropic, start=1": K.PartialRBF(0.7, start=1),
    "anisotropic, start=1": K.PartialRBF(np.array([0.5, 0.8, 1.1]), start=1),
    "isotropic, active_dims=[0, 3]": K.PartialRBF(0.7, active_dims=[0, 3]),
    "anisotropic, active_dims=[0, 3]": K.PartialRBF(
        np.array([0.5, 0.8]), active_dims=[0, 3]
    ),
}
for name, kern in cases.items():
    kref = kern(X, Y)
    dref = fd(kern, X, Y)
    try:
        k, dk = kern.k_and_deriv(X, Y)
    except Exception as e:
        print("[%s] k_and_deriv raised %r although kernel(X, Y) works" % (name, e))
        fails.append(name)
        continue
    kerr = np.abs(k - kref).max()
    print("[%s] max|k_and_deriv.k - kernel(X,Y)| = %.3e (expected 0)" % (name, kerr))
    print("    dk shape %s (expected %s)" % (dk.shape, dref.shape))
    bad = kerr > 1e-12 or dk.shape != dref.shape
    if dk.shape == dref.shape:
        derr = np.abs(dk - dref).max()
        print("    max|dk - finite difference| = %.3e (expected ~1e-9)" % derr)
        bad = bad or derr > 1e-6
    if bad:
        fails.append(name)

# composition: the product rule in DiffProduct needs the full-width gradient
kern = K.PartialRBF(0.7, start=1) * K.DiffRBF(0.9)
try:
    k, dk = kern.k_and_deriv(X, Y)
    derr = np.abs(dk - fd(kern, X, Y)).max()
    print("[PartialRBF * DiffRBF] max|dk - finite difference| = %.3e" % derr)
    if derr > 1e-6:
        fails.append("product")
except Exception as e:
    print("[PartialRBF * DiffRBF] k_and_deriv raised %r" % e)
    fails.append("product")

if fails:
    print("FAIL:", fails)
    sys.exit(1)
print("OK")
