"""Make ciderpress.lib.load_library pick up libraries built into hunt_out/build.

Only requests coming from ciderpress/lib are intercepted; everything else
(pyscf's own libraries) goes to the original numpy loader.  CiderPress libraries
that cannot be built in this sandbox (libxc_utils, libpwutil) become MagicMocks.
"""
import os

import numpy
import numpy.ctypeslib as _npc

HERE = os.path.dirname(os.path.abspath(__file__))
BUILD = os.path.join(HERE, "build")
CIDER_LIB = os.path.join(os.path.dirname(HERE), "ciderpress", "lib")
_orig = _npc.load_library


def _load(libname, loader_path):
    if os.path.abspath(str(loader_path)) != CIDER_LIB:
        return _orig(libname, loader_path)
    if os.path.exists(os.path.join(BUILD, libname + ".so")):
        return _orig(libname, BUILD)
    from unittest.mock import MagicMock

    return MagicMock(name=libname)


_npc.load_library = _load
numpy.ctypeslib.load_library = _load
