"""NLDFAuxiliaryPlan.eval_rho_full / eval_occd_full(coeff_multipliers=c) must scale
interpolation coefficient q by c[q] for both coefficient orders. The 'qg' order does;
the default 'gq' order multiplies along the GRID axis: ValueError in general, and a
silently wrong feature when ngrids == nalpha."""
import os
import sys

sys.path.insert(0, os.path.dirname(os.path.abspath(__file__)))
import cider_boot

cider_boot.boot()
import numpy as np

from ciderpress.dft.plans import NLDFGaussianPlan, NLDFSplinePlan
from ciderpress.dft.settings import NLDFSettingsVJ

st = NLDFSettingsVJ(
    "MGGA", [1.0, 0.0, 0.03125], "one", ["se", "se_ar2"],
    [[2.0, 0.0, 0.04], [1.0, 0.1, 0.02]],
)
nalpha = 20
cm = np.linspace(1, 2, nalpha)
nfail = 0
for cls in [NLDFGaussianPlan, NLDFSplinePlan]:
    for ng in [nalpha, 37]:
        rs = np.random.RandomState(0)
        rho = np.abs(rs.normal(size=(5, ng))) + 0.1
        rho[1:4] = rs.normal(size=(3, ng))
        rho[4] = np.abs(rs.normal(size=ng)) + (rho[1:4] ** 2).sum(0) / (8 * rho[0])
        drho = rs.normal(size=(5, ng))
        f_qg = rs.normal(size=(nalpha, ng))
        df_qg = rs.normal(size=(nalpha, ng))
        out = {}
        for order in ["qg", "gq"]:
            plan = cls(st, 1, 0.01, 1.7, nalpha, coef_order=order)
            conv = (lambda a: a) if order == "qg" else (lambda a: np.ascontiguousarray(a.T))
            # reference: f . (c * p) == (c * f) . p  (no multipliers, scaled f)
            ref = plan.eval_rho_full(conv(f_qg * cm[:, None]), rho)[0]
            oref = plan.eval_occd_full(
                conv(f_qg * cm[:, None]), rho, conv(df_qg * cm[:, None]), drho,
                apply_transformation=False,
            )
            try:
                got = plan.eval_rho_full(conv(f_qg), rho, coeff_multipliers=cm)[0]
                ogot = plan.eval_occd_full(
                    conv(f_qg), rho, conv(df_qg), drho,
                    apply_transformation=False, coeff_multipliers=cm,
                )
                err = max(np.abs(got - ref).max(), np.abs(ogot - oref).max())
                msg = "max deviation from expected = %.2e" % err
                bad = err > 1e-10
            except Exception as e:
                msg = "raised " + repr(e)
                bad = True
            print("%-17s coef_order=%s ngrids=%d nalpha=%d: %s%s"
                  % (cls.__name__, order, ng, nalpha, msg, "   <-- WRONG" if bad else ""))
            nfail += bad
if nfail:
    print("FAIL: %d cases" % nfail)
    sys.exit(1)
print("OK")
