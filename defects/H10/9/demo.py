"""C18 demo: FeatureSettings accepts a normaliser list whose size (or semilocal mode)
does not match the features it is attached to.  With a length-1 list the
with_normalizers accessors silently broadcast the single normaliser over all features;
MappedXC.nfeat then reports the normaliser count, not the model's feature count."""
import sys

import numpy as np

from ciderpress.dft.feat_normalizer import DensityNormalizer, FeatNormalizerList
from ciderpress.dft.settings import (
    FeatureSettings,
    NLDFSettingsVJ,
    SemilocalSettings,
)

fails = 0
sl = SemilocalSettings("nst")
nldf = NLDFSettingsVJ("MGGA", [1.0, 0.0, 0.03], "one", ["se", "se_ar2"],
                      [[2.0, 0.0, 0.04], [4.0, 0.0, 0.04]])
ref = FeatureSettings(sl_settings=sl, nldf_settings=nldf)
print("model: nfeat = %d, raw usps = %s" % (ref.nfeat, ref.get_feat_usps()))

for nnorm in (1, 2, 7):
    norms = FeatNormalizerList([DensityNormalizer(2.0, -1.0)] * nnorm, slmode="nst")
    tag = "FeatureSettings(nfeat=%d, normalizers of length %d)" % (ref.nfeat, nnorm)
    try:
        fs = FeatureSettings(sl_settings=sl, nldf_settings=nldf, normalizers=norms)
    except (ValueError, AssertionError) as e:
        print("ok  ", tag, "rejected:", repr(e))
        continue
    print("FAIL", tag, "ACCEPTED  (expected: error for normaliser/model size mismatch)")
    fails += 1
    try:
        usps = fs.get_feat_usps(with_normalizers=True)
        ueg = fs.ueg_vector(0.7, with_normalizers=True)
        print("       get_feat_usps(with_normalizers=True) ->", usps,
              " (silently broadcast)")
        print("       ueg_vector(with_normalizers=True)    ->", np.round(ueg, 4))
    except ValueError as e:
        print("       later: get_feat_usps(with_normalizers=True) raises", repr(e)[:70])

# semilocal-mode mismatch between the settings and the normaliser list
norms = FeatNormalizerList([None] * ref.nfeat, slmode="npa")
try:
    FeatureSettings(sl_settings=sl, nldf_settings=nldf, normalizers=norms)
    print("FAIL FeatureSettings(sl mode 'nst', normalizers with slmode 'npa') ACCEPTED")
    fails += 1
except (ValueError, AssertionError) as e:
    print("ok   slmode mismatch rejected:", repr(e))

# control
norms = FeatNormalizerList([None] * ref.nfeat, slmode="nst")
fs = FeatureSettings(sl_settings=sl, nldf_settings=nldf, normalizers=norms)
assert len(fs.get_feat_usps(with_normalizers=True)) == fs.nfeat
print("control (matching list) ok")
print("failures:", fails)
sys.exit(1 if fails else 0)
