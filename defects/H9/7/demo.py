"""
C15 (borderline: raises instead of mis-evaluating) -- DiffLinearKernel defines
no __init__, so sklearn's Kernel.get_params() inspects object.__init__(*args,
**kwargs) and raises RuntimeError.  Consequently .theta / .bounds / repr() /
clone_with_theta() of DiffLinearKernel AND of every sum/product/power that
contains it raise, although the kernel evaluates and returns a (N, N, 0)
hyper-parameter gradient: the theta vector that the returned gradient refers
to cannot be obtained, and the composite cannot be used for hyper-parameter
training.

Expected: len(kernel.theta) == kernel(X, eval_gradient=True)[1].shape[-1]
for every kernel class and composition.
"""
import sys

import numpy as np

from ciderpress.models import kernels as K

rng = np.random.default_rng(0)
X = rng.uniform(size=(5, 3))
fails = []

cases = {
    "DiffLinearKernel()": K.DiffLinearKernel(),
    "2.0 * DiffLinearKernel()": 2.0 * K.DiffLinearKernel(),
    "DiffLinearKernel() + DiffRBF()": K.DiffLinearKernel() + K.DiffRBF(0.7),
    "DiffLinearKernel() ** 2": K.DiffLinearKernel() ** 2,
}
for name, kern in cases.items():
    k, dk = kern(X, eval_gradient=True)
    print("[%s] evaluates; hyper-parameter gradient width %d" % (name, dk.shape[-1]))
    try:
        theta = kern.theta
        print("    len(theta) = %d" % len(theta))
        if len(theta) != dk.shape[-1]:
            fails.append(name)
        kern.clone_with_theta(theta)
        repr(kern)
    except RuntimeError as e:
        print("    theta/clone/repr raised RuntimeError: %s" % str(e)[:90])
        fails.append(name)

if fails:
    print("FAIL:", fails)
    sys.exit(1)
print("OK")
