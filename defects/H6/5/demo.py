"""C07 + C08 -- ciderpress/dft/settings.py : get_alpha / get_single_orbital_tau

    def get_single_orbital_tau(rho, mag_grad):
        return mag_grad**2 / (8 * rho + 1e-16)          # <- un-scaled regulariser

    def get_alpha(rho, sigma, tau):
        rho = np.maximum(ALPHA_TOL, rho)                # rho >= 1e-10 already
        tauw = get_single_orbital_tau(rho, np.sqrt(sigma))
        alpha = np.maximum(tau - tauw, 0) / tau0

alpha is the *difference* tau - tau_W divided by tau_0 ~ rho^(5/3).  In a
single-orbital region tau == tau_W exactly, so alpha must be 0.  The absolute
1e-16 added to 8*rho makes tau_W too small by the relative amount
1e-16/(8 rho); multiplied by tau_W/tau_0 = (5/3) s^2 (huge in density tails)
this yields a spurious alpha = (5/3) s^2 * 1e-16 / (8 rho) of order 0.1 - 1 at
rho ~ 1e-9..1e-8, i.e. ABOVE the model cutoff (DEFAULT_RHOCUT = 1e-9).
Because the regulariser is not scaled with the spin factor, the spin-polarised
path (rho_s = n/2) gets exactly twice the spurious alpha of the unpolarised
path, so the same closed-shell density gives different features, energies and
potentials in the two paths.  dalpha() (the derivative used for the potential)
differentiates the un-regularised tau_W = sigma / (8 rho), i.e. a different
function.

Part 1 (pure python): analytic 1s-type orbital, doubly occupied.
Part 2: CiderNumInt.eval_xc_cider (RKS path vs UKS path) at the same points.
"""
import sys
from unittest import mock

import numpy as np

_orig_load = np.ctypeslib.load_library
np.ctypeslib.load_library = lambda name, path: (
    mock.MagicMock() if "ciderpress" in str(path) else _orig_load(name, path)
)

from ciderpress.dft import baselines as B  # noqa: E402
from ciderpress.dft.plans import SemilocalPlan  # noqa: E402
from ciderpress.dft.settings import FeatureSettings, SemilocalSettings  # noqa: E402
from ciderpress.dft.transform_data import FeatureList, SLNMap, UMap  # noqa: E402
from ciderpress.dft.xc_evaluator import FuncEvaluator, MappedDFTKernel, MappedXC  # noqa: E402
from ciderpress.pyscf.numint import DEFAULT_RHOCUT, CiderNumInt  # noqa: E402

fails = []

# doubly occupied normalised s-type Gaussian orbital, exponent a (Li/Be 1s-like)
a = 3.0
r = np.linspace(1.3, 1.9, 7)
n = 2 * (2 * a / np.pi) ** 1.5 * np.exp(-2 * a * r * r)
gz = -4 * a * r * n  # gradient along z
rho = np.zeros((5, r.size))
rho[0] = n
rho[3] = gz
rho[4] = gz * gz / (8 * n)  # tau == tau_W : single-orbital system
assert (n > DEFAULT_RHOCUT).all()

sl = SemilocalSettings("npa")
f1 = SemilocalPlan(sl, 1).get_feat(rho[None])
f2 = SemilocalPlan(sl, 2).get_feat(np.stack([rho / 2, rho / 2]))
print("density n            =", n)
print("s^2 feature          =", f1[0, 1])
print("alpha, nspin=1       =", f1[0, 2], " (exact: 0)")
print("alpha, nspin=2       =", f2[0, 2], " (exact: 0, and must equal the nspin=1 row)")
with np.errstate(all="ignore"):
    print("ratio nspin=2/nspin=1 =", f2[0, 2] / f1[0, 2])
if np.abs(f1[0, 2]).max() > 1e-6:
    fails.append("spurious alpha in single-orbital region (max %.3g)" % np.abs(f1[0, 2]).max())
if np.abs(f1[0, 2] - f2[0, 2]).max() > 1e-6:
    fails.append("alpha differs between nspin=1 and nspin=2 (max diff %.3g)"
                 % np.abs(f1[0, 2] - f2[0, 2]).max())


# ---- Part 2: energy / potential through CiderNumInt.eval_xc_cider ----
class Quad(FuncEvaluator):
    def __call__(self, X1, res=None, dres=None):
        c = 0.1 + 0.03 * np.arange(1, X1.shape[-1] + 1)
        res[:] += 1.0 + (X1**2).dot(c) + X1.dot(c)
        dres[:] += 2 * X1 * c + c
        return res, dres


fl = FeatureList([SLNMap(0, 2.0), UMap(1, 0.5), UMap(2, 1.0)])
for mode in ["SEP", "NPOL"]:
    mlxc = MappedXC(
        [MappedDFTKernel(Quad(), fl, mode, B.lda_x, B.zero_xc)],
        FeatureSettings(sl_settings=sl),
    )
    ni = CiderNumInt(mlxc, "", None, None)
    ni.build()
    ni.initialize_feature_generators(None, None, 1)
    e1, (v1, _, _) = ni.eval_xc_cider("", rho, None, None)[:2]
    ni.initialize_feature_generators(None, None, 2)
    e2, (v2, _, _) = ni.eval_xc_cider("", np.stack([rho / 2, rho / 2]), None, None)[:2]
    rel_e = np.abs(e1 - e2) / np.abs(e1)
    rel_v = np.abs(v1[[0, 4]] - v2[0][[0, 4]]) / np.abs(v1[[0, 4]])
    print("mode %s: exc RKS path = %s" % (mode, e1))
    print("          exc UKS path = %s" % e2)
    print("          vrho RKS path = %s" % v1[0])
    print("          vrho UKS path = %s" % v2[0, 0])
    print("          max rel. diff exc = %.2e, vrho/vtau = %.2e (expected <~1e-4: only the harmless"
          " relative 1e-16/rho^(4/3) effect on s^2)" % (rel_e.max(), rel_v.max()))
    if rel_e.max() > 1e-3 or rel_v.max() > 1e-3:
        fails.append("eval_xc_cider %s: RKS vs UKS path differ" % mode)

if fails:
    print("FAIL:")
    for f in fails:
        print("   -", f)
    sys.exit(1)
print("OK")
