import sys, os
sys.path.insert(0, os.path.dirname(os.path.abspath(__file__)))
import build_libs; build_libs.build_fft()
import patch_load  # noqa
import unittest
from ciderpress.lib.tests import tests_fft_plan as t
t.ALL_DIMS = [[13],[16],[5,9],[5,8],[6,4],[5,3,7],[3,5,4],[4,6,2],[2,2,2,2],[3,2,2,3]]
suite = unittest.TestSuite(); suite.addTest(t.TestFFT("test_cider_fft"))
r = unittest.TextTestRunner(verbosity=2).run(suite)
sys.exit(0 if r.wasSuccessful() else 1)
