"""
C01 demo: a CIDER model whose DFTKernel has no additive baseline
(MappedDFTKernel(..., additive_baseline=None), which is the constructor default).

KernelEvalBase.apply_baseline is written to skip the additive term in that case
("add_base = add_base and <additive baseline> is not None"), so the integrator must
return (nelec, excsum, vmat) with vmat = d excsum / dP.  It must also give exactly
the same result as the same model with the explicit "ZERO" additive baseline.

Run:  PYTHONPATH=/tmp/hunt/H1 /venv/bin/python demo.py
"""
import os
import sys
import traceback

sys.path.insert(0, os.path.join(os.path.dirname(os.path.abspath(__file__)), "..", "common"))
from demo_util import build_ks, default_mol, fd_vs_vmat, psd_dm  # noqa: E402

from ciderpress.dft import baselines  # noqa: E402
from ciderpress.dft.settings import FeatureSettings, SemilocalSettings  # noqa: E402
from ciderpress.dft.transform_data import FeatureList, UMap  # noqa: E402
from ciderpress.dft.xc_evaluator import (  # noqa: E402
    GlobalLinearEvaluator,
    MappedDFTKernel,
    MappedXC,
)

TOL = 1e-5


def run(additive, unrestricted):
    mol = default_mol(unrestricted)
    settings = FeatureSettings(sl_settings=SemilocalSettings("npa"))
    flist = FeatureList([UMap(1, 0.4), UMap(2, 0.3)])
    feval = GlobalLinearEvaluator([0.3, -0.2])
    if additive == "default":
        kernel = MappedDFTKernel(feval, flist, "SEP", baselines.lda_x)
    else:
        kernel = MappedDFTKernel(feval, flist, "SEP", baselines.lda_x, additive)
    mlxc = MappedXC([kernel], settings)
    ks = build_ks(mol, mlxc, unrestricted, xmix=1.0)
    dm = psd_dm(mol, unrestricted)
    return fd_vs_vmat(ks, dm)


if __name__ == "__main__":
    bad = False
    for unres in (False, True):
        name = "UKS" if unres else "RKS"
        e_ref, fd_ref, an_ref = run(baselines.zero_xc, unres)
        print("%s, additive baseline ZERO : Exc=%.8f dE(FD)=%.8f tr(vmat dP)=%.8f" % (name, e_ref, fd_ref, an_ref))
        print("%s, additive baseline None : expected the same numbers" % name)
        try:
            e0, fd, an = run("default", unres)
        except Exception:
            print("  observed: exception instead of (nelec, excsum, vmat):")
            print("  " + traceback.format_exc().strip().splitlines()[-1])
            bad = True
            continue
        print("  observed: Exc=%.8f dE(FD)=%.8f tr(vmat dP)=%.8f" % (e0, fd, an))
        if abs(e0 - e_ref) > 1e-10 or abs(fd - an) > TOL or abs(an - an_ref) > 1e-8:
            bad = True
    if bad:
        print("FAIL")
        sys.exit(1)
    print("OK")
