"""C04 (Python-kernel evaluator): the legacy Partial* kernels do not return the kernel and its
gradient with respect to the input features from k_and_deriv, so KernelEvaluator built on
them returns wrong numbers or raises.

PartialRBF.k_and_deriv slices X -> X[:, start:] (or active_dims) and then calls
DiffRBF.k_and_deriv, which evaluates the kernel through self.__call__ -- i.e.
PartialRBF.__call__, which slices AGAIN.  The value returned next to the derivative is the
kernel of X[:, start:][:, start:]:
  * isotropic length scale: silently a different kernel than PartialRBF.__call__;
  * one active feature (start = N-1): the second slice is empty -> k == 1 everywhere;
  * anisotropic / active_dims: ValueError / IndexError.
In addition both PartialRBF and PartialARBF return the gradient only for the selected
columns, shape (nx, ny, n_active), not (nx, ny, X.shape[1]) as the k_and_deriv contract
(DiffRBF docstring) and KernelEvaluator require: broadcasting error, or -- with a single
active feature -- the one column is silently broadcast onto ALL features.
"""
import os
import sys

sys.path.insert(0, os.path.join(os.path.dirname(os.path.abspath(__file__)), "..", "common"))
import hx  # noqa: E402

hx.install()

import numpy as np  # noqa: E402

from ciderpress.dft.xc_evaluator import KernelEvaluator  # noqa: E402
from ciderpress.models.kernels import PartialARBF, PartialRBF  # noqa: E402

rng = np.random.default_rng(0)
N1, nctrl, n = 4, 5, 6
X1ctrl = rng.uniform(0, 1, size=(nctrl, N1))
alpha = rng.normal(size=nctrl)
X1 = rng.uniform(0, 1, size=(n, N1))
ls = np.array([0.5, 0.7, 0.9, 1.1])
sc = [1.0, 0.7, 1.3]
cases = [
    ("PartialRBF iso ls, start=0 (control)", PartialRBF(length_scale=0.7, start=0)),
    ("PartialRBF iso ls, start=1", PartialRBF(length_scale=0.7, start=1)),
    ("PartialRBF ls=[0.7], start=3", PartialRBF(length_scale=np.array([0.7]), start=3)),
    ("PartialRBF aniso ls, start=1", PartialRBF(length_scale=ls[1:], start=1)),
    ("PartialRBF active_dims=[1,3]", PartialRBF(length_scale=ls[[1, 3]], active_dims=[1, 3])),
    ("PartialARBF o2, start=1", PartialARBF(order=2, length_scale=ls[1:], scale=sc, start=1)),
    ("PartialARBF o2, active_dims=[0,2]", PartialARBF(order=2, length_scale=ls[[0, 2]], scale=sc, active_dims=[0, 2])),
    ("PartialARBF o1, start=3", PartialARBF(order=1, length_scale=ls[3:], scale=sc[:2], start=3)),
]
fail = False
for name, kern in cases:
    ref = kern(X1, X1ctrl).dot(alpha)  # f(x) = sum_a k(x, x_a) alpha_a from the kernel itself
    h = 1e-6
    g = np.zeros_like(X1)
    for j in range(N1):
        Xp = X1.copy()
        Xp[:, j] += h
        Xm = X1.copy()
        Xm[:, j] -= h
        g[:, j] = (kern(Xp, X1ctrl).dot(alpha) - kern(Xm, X1ctrl).dot(alpha)) / (2 * h)
    msg = []
    bad = False
    try:
        k, dk = kern.k_and_deriv(X1, X1ctrl)
        ek = np.abs(k - kern(X1, X1ctrl)).max()
        msg.append("k_and_deriv: max|k - kernel(X,Y)|=%.1e, dk shape %s (expected %s)"
                   % (ek, dk.shape, k.shape + (N1,)))
        bad |= ek > 1e-12 or dk.shape != k.shape + (N1,)
    except Exception as e:
        msg.append("k_and_deriv raised %r" % e)
        bad = True
    try:
        r, d = KernelEvaluator(kern, X1ctrl, alpha)(X1)
        e1, e2 = np.abs(r - ref).max(), np.abs(d - g).max()
        msg.append("KernelEvaluator: max|f-ref|=%.1e max|grad-FD|=%.1e" % (e1, e2))
        bad |= e1 > 1e-12 or e2 > 1e-6
    except Exception as e:
        msg.append("KernelEvaluator raised %s" % type(e).__name__)
        bad = True
    print("%-36s %s" % (name, "MISMATCH" if bad else "ok"))
    for m in msg:
        print("      " + m)
    fail |= bad
if fail:
    print("FAIL: Partial* kernels: k_and_deriv is not (kernel, gradient w.r.t. the input features)")
    sys.exit(1)
print("OK")
