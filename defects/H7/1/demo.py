"""C16: MOLGP.compute_likelihood() does not report the log marginal likelihood of the
fitted Gaussian-process model.

After MOLGP.fit() the model covariance of the labels is
    K_ = K_nm K_mm^-1 K_mn + diag(noise_i^2)          (stored as gp.K_)
and the weights kernel.alpha are the solution for exactly that covariance.
compute_likelihood() (default arguments) silently replaces its x=None by
x = [1, 1] and evaluates the likelihood for the noise covariance multiplied by
(sigma_min + x[1]**2) = 1.25, i.e. for a different model than the fitted one.
The same double counting happens after fit(x=..., sigma_min=...): K_ / Kcov_ are
already scaled and compute_likelihood(x) scales them a second time.
"""
import os
import sys

sys.path.insert(0, os.path.join(os.path.dirname(os.path.abspath(__file__)), "..", "common"))
import cider_env

cider_env.install(need_c=False)

import numpy as np

from ciderpress.dft.baselines import lda_x, zero_xc
from ciderpress.dft.settings import FeatureSettings, SemilocalSettings
from ciderpress.dft.transform_data import FeatureList, UMap
from ciderpress.models.dft_kernel import DFTKernel
from ciderpress.models.kernels import DiffRBF
from ciderpress.models.train import MOLGP

rng = np.random.default_rng(0)


def make_X(n):
    X = np.empty((1, 3, n))
    X[:, 0] = rng.uniform(0.05, 2.0, (1, n))
    X[:, 1] = rng.uniform(0.0, 3.0, (1, n))
    X[:, 2] = rng.uniform(0.0, 3.0, (1, n))
    return X


def gauss_lml(K, y):
    sign, logdet = np.linalg.slogdet(K)
    assert sign > 0
    return -0.5 * y @ np.linalg.solve(K, y) - 0.5 * logdet - 0.5 * y.size * np.log(2 * np.pi)


settings = FeatureSettings(sl_settings=SemilocalSettings("npa"))
flist = FeatureList([UMap(1, 0.3), UMap(2, 0.5)])
kern = DFTKernel(
    DiffRBF(length_scale=np.array([0.4, 0.6])), flist, "SEP", lda_x, zero_xc, component="x"
)
gp = MOLGP([kern], settings, default_noise=0.01)
gp.set_control_points([make_X(40)], reduce=True)

# four "systems": integrated covariance vectors, baselines and reference energies
for name in "ABCD":
    X, wt = make_X(50), rng.uniform(0.1, 1.0, 50)
    k = kern.get_k(X)  # (Nctrl, nspin, Nsamp)
    m = kern.multiplicative_baseline(X)[0]
    kern.cov_dict[name] = ((k * m).sum(1) * wt).sum(1)
    kern.base_dict[name] = 0.0
    gp.exx_ref_dict[name] = float(-rng.uniform(5, 10))
gp.add_reactions(
    [
        (0, {"structs": ["A"], "counts": [1]}),
        (0, {"structs": ["B", "C"], "counts": [1, -2], "noise": 0.02}),
        (0, {"structs": ["D"], "counts": [1], "weight": 4.0}),
        (0, {"structs": ["A", "D"], "counts": [2, -1], "noise_factor": 3.0}),
    ]
)

ok = True

# ---- 1. plain fit -------------------------------------------------------------
gp.fit()
y = np.array(gp.rxn_ref_list)
s = np.array(gp.rxn_noise_list)
eps = gp.numerical_epsilon
Kmm = kern.get_kctrl()
Kmn = np.stack(kern.rxn_cov_list).T
Kimn = np.linalg.solve(Kmm + eps * np.eye(len(Kmm)), Kmn)
K = Kmn.T @ Kimn + np.diag(s**2) + eps * np.eye(y.size)
alpha = Kimn @ np.linalg.solve(K, y)
print("max |kernel.alpha - K_mm^-1 K_mn K^-1 y| = %.2e  (fit itself is right)" % np.abs(alpha - kern.alpha).max())
print("max |gp.K_ - K| = %.2e" % np.abs(gp.K_ - K).max())
expected = gauss_lml(K, y)
observed = gp.compute_likelihood()
other = gauss_lml(Kmn.T @ Kimn + 1.25 * (np.diag(s**2) + eps * np.eye(y.size)), y)
print("after fit():")
print("  expected  log N(y | 0, K_nm K_mm^-1 K_mn + Sigma_noise)       = %.10f" % expected)
print("  observed  gp.compute_likelihood()                             = %.10f" % observed)
print("  (log N(y | 0, K_nm K_mm^-1 K_mn + 1.25 * Sigma_noise)         = %.10f)" % other)
if abs(expected - observed) > 1e-8:
    ok = False
    print("  MISMATCH: %.3e" % (observed - expected))

# ---- 2. fit with hyper-parameters, as optimize_cov_and_noise_(refit=True) does ---
x = np.array([1.3, 0.7])
smin = 0.5
gp.fit(x=x, sigma_min=smin)
K2 = x[0] ** 2 * Kmn.T @ Kimn + (smin + x[1] ** 2) * np.diag(s**2) + eps * np.eye(y.size)
alpha2 = x[0] ** 2 * Kimn @ np.linalg.solve(K2, y)
print("after fit(x=[1.3, 0.7], sigma_min=0.5):")
print("  max |kernel.alpha - expected| = %.2e" % np.abs(alpha2 - kern.alpha).max())
expected2 = gauss_lml(K2, y)
for label, val in [
    ("compute_likelihood()", gp.compute_likelihood()),
    ("compute_likelihood(x, sigma_min=0.5)", gp.compute_likelihood(x, sigma_min=smin)),
]:
    print("  expected %.10f   observed %-38s = %.10f" % (expected2, label, val))
if abs(gp.compute_likelihood() - expected2) > 1e-8:
    ok = False
    print("  MISMATCH: default call does not describe the fitted model")

sys.exit(0 if ok else 1)
