"""
C03 (and C12-style consistency) demo: FracLaplPlan._cache_ld_vectors loops over
settings.nk1 instead of settings.nd1. Whenever nd1 != nk1 the cached list of F_s^d vectors
is wrong, so the `ld_dots` features are dot products of the wrong vectors (the density
gradient takes the place of F_s^d vectors) and do not scale with the declared power.
"""
import sys, os
sys.path.insert(0, os.path.dirname(os.path.abspath(__file__)))
from scaling import *  # installs compiled C libraries; numpy as np
from ciderpress.pyscf.descriptors import get_descriptors
from ciderpress.dft.plans import FracLaplPlan
from ciderpress.dft.settings import FracLaplSettings

fail = []

# ---------------------------------------------------------------------------------
# settings accepted by FracLaplSettings: 1 vector feature F_s^1, 2 vector features F_s^d
slist = [-0.5, 0.5, 1.0]
nk0, nk1, nd1, ndd = 2, 1, 2, 1
l1_dots = [(0, 0), (-1, 0)]
ld_dots = [(0, 0), (0, 1), (-1, 1), (1, 1)]
settings = FracLaplSettings(slist, nk0, nk1, l1_dots, nd1=nd1, ld_dots=ld_dots, ndd=ndd)

# (A) documented definition (FracLaplSettings.__init__ docstring) vs FracLaplPlan.get_feat
print("(A) FracLaplPlan.get_feat vs documented definition of the ld_dots features")
rng = np.random.default_rng(0)
ng = 7
plan = FracLaplPlan(settings, 1)
rho_data = rng.normal(size=(1, 5 + settings.nrho, ng))
feat = plan.get_feat(rho_data)
fl_rho = rho_data[0, 5:]
drho = rho_data[0, 1:4]
nstart = nk0 + 3 * nk1


def ldvec(j):
    return drho if j == -1 else fl_rho[3 * j + nstart: 3 * j + 3 + nstart]


for i, (j, k) in enumerate(ld_dots):
    ref = np.einsum("xg,xg->g", ldvec(j), ldvec(k))
    got = feat[0, nk0 + len(l1_dots) + i]
    err = np.abs(ref - got).max()
    ok = err < 1e-12
    print("   ld_dots[%d]=%s  max|expected-observed| = %.3e  %s" % (i, (j, k), err, "ok" if ok else "WRONG"))
    if not ok:
        fail.append("definition ld_dots[%d]=%s: expected %s, observed %s" % (i, (j, k), ref[:2], got[:2]))

# (B) reverse mode (get_vxc) vs finite differences of get_feat
print("(B) FracLaplPlan.get_vxc vs finite difference of sum(vfeat*feat)")
vfeat = rng.normal(size=feat.shape)
plan.get_feat(rho_data)
vxc = plan.get_vxc(vfeat)
num = np.zeros_like(rho_data)
h = 1e-6
for r in range(rho_data.shape[1]):
    for g in range(ng):
        rp = rho_data.copy(); rp[0, r, g] += h
        rm = rho_data.copy(); rm[0, r, g] -= h
        num[0, r, g] = ((plan.get_feat(rp) - plan.get_feat(rm)) * vfeat).sum() / (2 * h)
err = np.abs(num - vxc).max()
print("   max|FD - analytic| = %.3e  %s" % (err, "ok" if err < 1e-6 else "MISMATCH"))
if err >= 1e-6:
    fail.append("get_vxc is not the transpose-derivative of get_feat: max err %.3e" % err)

# (C) uniform scaling with the real PySCF feature generator (FLNumInt + C library)
print("(C) declared power (FracLaplSettings.get_feat_usps) vs observed under n -> lam^3 n(lam r)")
mol, mf = reference_state()
dm = mf.make_rdm1()
pts = default_points()
lam = 1.3
a1 = FakeAnalyzer(make_mol(1.0), dm, pts, mf.mo_coeff, mf.mo_occ, mf.mo_energy)
a2 = FakeAnalyzer(make_mol(lam), dm, pts / lam, mf.mo_coeff, mf.mo_occ, mf.mo_energy)
d1 = get_descriptors(a1, settings)[0]
d2 = get_descriptors(a2, settings)[0]
usps = settings.get_feat_usps()
for i in range(settings.nfeat):
    emp = float(np.median(np.log(np.abs(d2[i] / d1[i])) / np.log(lam)))
    ok = abs(emp - usps[i]) < 0.05
    print("   feat %d: declared u=%g observed u=%.4f %s" % (i, usps[i], emp, "ok" if ok else "MISMATCH"))
    if not ok:
        fail.append("scaling feat %d: expected u=%g, observed u=%.4f" % (i, usps[i], emp))

print()
if fail:
    print("FAIL:")
    for f in fail:
        print("   " + f)
    sys.exit(1)
print("PASS")
