import sys, os, traceback
sys.path.insert(0, os.path.dirname(__file__))
import cider_env; cider_env.install()
import numpy as np
from pyscf import gto, dft
from ciderpress.pyscf.gen_cider_grid import CiderGrids
from ciderpress.pyscf.nldf_convolutions import PyscfNLDFGenerator
from ciderpress.dft.settings import *
mol = gto.M(atom="He 0 0 0; H 0 0 1.2", basis="sto-3g", verbose=0, charge=1)
g = CiderGrids(mol, lmax=4); g.level=0; g.build()
dm = dft.RKS(mol).get_init_guess()
ao = dft.numint.eval_ao(mol, g.coords, deriv=1)
rho = dft.numint.eval_rho(mol, ao, dm, xctype="MGGA", with_lapl=False)
print(rho.shape)
th=[1.0,0.0,0.03]
cases = {
 "vi_l1only": NLDFSettingsVI("MGGA", th, "one", [], ["se_grad"], [(0,0),(-1,0)]),
 "vi_l0only": NLDFSettingsVI("MGGA", th, "one", ["se","se_r2"], [], []),
 "vi_both": NLDFSettingsVI("MGGA", th, "one", ["se_lapl"], ["se_grad","se_rvec"], [(0,1)]),
 "vj": NLDFSettingsVJ("MGGA", th, "one", ["se","se_erf_rinv"], [[2.,0.,0.04],[1.,0.,0.04,2.0]]),
 "vij_l1only": NLDFSettingsVIJ("MGGA", th, "one", [], ["se_rvec"], [(0,0)], ["se"], [[2.,0.,0.04]]),
 "vk": NLDFSettingsVK("MGGA", th, "one", [[2.,0.,0.04]], "exponential"),
 "vj_gga": NLDFSettingsVJ("GGA", th[:2], "one", ["se"], [[2.,0.0]]),
}
for name, s in cases.items():
    for pt in ["gaussian","spline"]:
        try:
            gen = PyscfNLDFGenerator.from_mol_and_settings(mol, g.grids_indexer, 1, s, plan_type=pt, aux_lambd=2.0, alpha_max=1000)
            gen.interpolator.set_coords(g.coords)
            r = rho if s.sl_level=="MGGA" else rho[:4]
            feat = gen.get_features(r)
            print(name, pt, "feat", feat.shape, s.nfeat, np.abs(feat).max())
        except Exception as e:
            print(name, pt, "EXC", repr(e)); traceback.print_exc(limit=3)
