"""C18 demo: FracLaplPlan._cache_ld_vectors caches nk1 (not nd1) F_s^d vectors,
so ld_dots index the wrong vectors whenever nk1 != nd1."""
import os
import sys

sys.path.insert(0, os.path.dirname(os.path.abspath(__file__)))
import cider_env  # noqa: E402

cider_env.install()

import numpy as np  # noqa: E402

from ciderpress.dft.plans import FracLaplPlan  # noqa: E402
from ciderpress.dft.settings import FracLaplSettings  # noqa: E402

rng = np.random.default_rng(0)
fails = 0


def reference_feat(settings, rho_data, nsl=5, i0d=1):
    """Feature vector straight from the FracLaplSettings.__init__ docstring."""
    nk0, nk1, nd1, ndd = settings.nk0, settings.nk1, settings.nd1, settings.ndd
    fl = rho_data[:, nsl:]
    drho = rho_data[:, i0d : i0d + 3]
    feat = []
    for i in range(nk0):
        feat.append(fl[:, i])

    def vec(start, j):
        return drho if j == -1 else fl[:, start + 3 * j : start + 3 * j + 3]

    for j, k in settings.l1_dots:
        feat.append(np.einsum("sxg,sxg->sg", vec(nk0, j), vec(nk0, k)))
    nstart = nk0 + 3 * nk1
    for j, k in settings.ld_dots:
        feat.append(np.einsum("sxg,sxg->sg", vec(nstart, j), vec(nstart, k)))
    nstart = nk0 + 3 * nk1 + 3 * nd1
    for i in range(ndd):
        feat.append(fl[:, nstart + i])
    return np.stack(feat, axis=1)


def run(nk0, nk1, l1_dots, nd1, ld_dots, ndd):
    global fails
    slist = [0.5, 1.0, 1.5]
    settings = FracLaplSettings(slist, nk0, nk1, l1_dots, nd1=nd1, ld_dots=ld_dots, ndd=ndd)
    plan = FracLaplPlan(settings, 1)
    ng = 7
    rho_data = rng.normal(size=(1, 5 + settings.nrho, ng))
    ref = reference_feat(settings, rho_data)
    tag = "nk0=%d nk1=%d l1_dots=%s nd1=%d ld_dots=%s ndd=%d" % (
        nk0, nk1, l1_dots, nd1, ld_dots, ndd)
    try:
        feat = plan.get_feat(rho_data)
    except Exception as e:  # noqa: BLE001
        print("FAIL", tag, "-> get_feat raised", repr(e))
        fails += 1
        return
    assert feat.shape == (1, settings.nfeat, ng)
    err = np.abs(feat - ref).max()
    # also check get_vxc (transpose of get_feat) by finite differences
    vfeat = rng.normal(size=feat.shape)
    vxc = plan.get_vxc(vfeat)
    d = rng.normal(size=rho_data.shape)
    h = 1e-6
    fd = (np.sum(vfeat * plan.get_feat(rho_data + h * d))
          - np.sum(vfeat * plan.get_feat(rho_data - h * d))) / (2 * h)
    plan.get_feat(rho_data)
    an = np.sum(plan.get_vxc(vfeat) * d)
    ok = err < 1e-12
    print("%s %s : max|feat-ref| = %.3e  (vxc FD %.6f vs analytic %.6f)" % (
        "ok  " if ok else "FAIL", tag, err, fd, an))
    if not ok:
        bad = np.where(np.abs(feat - ref).max(axis=(0, 2)) > 1e-12)[0]
        print("      expected rows", bad, "=", ref[0, bad, :2].round(4).tolist())
        print("      observed rows", bad, "=", feat[0, bad, :2].round(4).tolist())
        fails += 1


# control: nk1 == nd1 works
run(1, 1, [(0, 0)], 1, [(0, 0), (-1, 0)], 0)
# nk1 < nd1: F_s^d vectors are never cached; index 0 silently refers to grad rho
run(1, 0, [], 1, [(0, 0)], 0)
run(1, 0, [], 1, [(-1, 0)], 0)
run(2, 1, [(0, 0)], 2, [(0, 1), (1, 1)], 1)
# nk1 > nd1: empty slices are cached, still indexable for valid dots
run(1, 2, [(0, 1)], 1, [(0, 0), (-1, 0)], 0)

print("failures:", fails)
sys.exit(1 if fails else 0)
