#!/bin/bash
# run every registered check (tier $1, default quick) and validate evidence
tier=${1:-quick}
cd /verif
python3 - "$tier" <<'PY'
import json,subprocess,sys,time
tier=sys.argv[1]
m=json.load(open('MANIFEST.json'))
import concurrent.futures as cf
def run(c):
    cmd=c['quick_cmd'] if tier=='quick' else c.get('thorough_cmd',c['quick_cmd'])
    t=time.time(); p=subprocess.run(cmd,shell=True,capture_output=True,text=True,cwd='/verif')
    out=p.stdout+p.stderr
    return c['property_id'],p.returncode,time.time()-t,[l for l in out.splitlines() if l.startswith(('VIOLATION','ANALYSIS-ERROR','KNOWN-FINDING','mutation'))]
jobs=1 if tier=='thorough' else 4
with cf.ThreadPoolExecutor(jobs) as ex:
    for pid,rc,dt,lines in ex.map(run,m['checks']):
        print(pid,'rc=%d'%rc,'%.1fs'%dt)
        for l in lines: print('   ',l[:260])
PY
python3-vt - <<'PY'
import json,jsonschema,glob
S=json.load(open('/root/.vp/EVIDENCE.schema.json'))
jsonschema.validate(json.load(open('/verif/MANIFEST.json')), json.load(open('/root/.vp/MANIFEST.schema.json')))
m=json.load(open('/verif/MANIFEST.json'))
for c in m['checks']:
    try:
        jsonschema.validate(json.load(open(c['evidence_file'])),S)
    except Exception as e: print('EVIDENCE INVALID',c['property_id'],str(e)[:200])
print('manifest+evidence validated for',len(m['checks']),'checks')
PY
