import numpy as np
from scipy.special import erf
from scipy.integrate import quad
from ciderpress.dft.settings import *
from ciderpress.dft.feat_normalizer import *
CFC_ = 0.3*(3*np.pi**2)**(2/3)
def expnt(n, params, level):
    conv = 1.2*(6*np.pi**2)**(2/3)/np.pi
    A = params[0]
    res = A  # sigma=0, tau=tau0
    return np.pi*(n/2)**(2/3)*res
def rad(f):
    return quad(lambda r: 4*np.pi*r*r*f(r), 0, np.inf, epsabs=1e-13, epsrel=1e-12)[0]
rng = np.random.default_rng(0)
bad = 0
for trial in range(40):
    level = ['GGA','MGGA'][trial%2]
    rm = ['one','expnt'][(trial//2)%2]
    n = np.exp(rng.uniform(-4, 3))
    def rp(extra=False):
        p = [float(rng.uniform(0.3, 3)), float(rng.uniform(0, 0.1))]
        if level=='MGGA': p.append(float(rng.uniform(0, 0.08)))
        if extra: p.append(float(rng.uniform(0.5, 4)))
        return p
    th = rp()
    specs = ["se","se_ar2","se_a2r4","se_erf_rinv"]
    fps = [rp(s=='se_erf_rinv') for s in specs]
    l0 = ["se","se_r2","se_apr2","se_ap","se_ap2r2","se_lapl"]
    l1 = ["se_grad","se_rvec"]; dots=[(-1,0),(0,1)]
    a0 = expnt(n, th, level)
    mult = a0 if rm=='expnt' else 1.0
    # j
    refj = []
    for s, p in zip(specs, fps):
        ai = expnt(n, p, level)
        if s=='se': k = lambda r: np.exp(-(ai+a0)*r*r)
        if s=='se_ar2': k = lambda r: ai*r*r*np.exp(-(ai+a0)*r*r)
        if s=='se_a2r4': k = lambda r: (ai*r*r)**2*np.exp(-(ai+a0)*r*r)
        if s=='se_erf_rinv': k = lambda r: np.exp(-(ai+a0)*r*r)*(erf(np.sqrt(p[-1]*ai)*r)/(np.sqrt(p[-1]*ai)*r+1e-300))*np.sqrt(np.pi)/2 if r>0 else 1.0
        refj.append(n*mult*rad(k))
    refi = []
    for s in l0:
        a = a0
        k = {'se': lambda r: np.exp(-a*r*r), 'se_r2': lambda r: r*r*np.exp(-a*r*r), 'se_apr2': lambda r: a*r*r*np.exp(-a*r*r),
             'se_ap': lambda r: a*np.exp(-a*r*r), 'se_ap2r2': lambda r: a*a*r*r*np.exp(-a*r*r), 'se_lapl': lambda r: (4*a*a*r*r-2*a)*np.exp(-a*r*r)}[s]
        refi.append(n*mult*rad(k))
    refi += [0,0]
    kps = [rp() for _ in range(3)]
    refk = []
    for p in kps:
        ai = expnt(n, p, level)
        refk.append(n*mult*rad(lambda r: np.exp(-ai*r*r))*np.exp(-1.5*a0/ai))
    vj = NLDFSettingsVJ(level, th, rm, specs, fps)
    vi = NLDFSettingsVI(level, th, rm, l0, l1, dots)
    vij = NLDFSettingsVIJ(level, th, rm, l0, l1, dots, specs, fps)
    vk = NLDFSettingsVK(level, th, rm, kps, 'exponential')
    for name, s, ref in [('j',vj,refj),('i',vi,refi),('ij',vij,refj+refi),('k',vk,refk)]:
        u = s.ueg_vector(n)
        ref = np.array(ref)
        err = np.abs(u-ref)/(np.abs(ref)+1e-12)
        if err.max() > 1e-7:
            bad += 1
            print('MISMATCH', level, rm, name, n, err)
        # normalizers
        for slmode in (['nst','npa'] if level=='MGGA' else ['ns','np','nst','npa']):
            sl = SemilocalSettings(slmode)
            fs = FeatureSettings(sl_settings=sl, nldf_settings=s)
            try:
                fs.assign_reasonable_normalizer()
            except NotImplementedError:
                continue
            raw = fs.ueg_vector(n)
            X = raw[None,:,None].copy()
            Xn = fs.normalizers.get_normalized_feature_vector(X)[0,:,0]
            un = fs.ueg_vector(n, with_normalizers=True)
            e2 = np.abs(Xn-un)/(np.abs(un)+1e-12)
            if e2.max() > 1e-9:
                bad += 1
                print('NORM MISMATCH', level, rm, name, slmode, e2)
print('bad', bad)
