from ref import *
import ref, sys
mol = gto.M(atom="H 0 0 0; F 0 0 0.9", basis="def2-svp", spin=0, verbose=0)
ks = dft.RKS(mol); ks.xc='PBE'; ks.grids.level=1; ks.kernel()
dm = ks.make_rdm1()
coords = np.vstack([mol.atom_coords(), [[0,0,1e-9],[0.1,0,0],[0.3,0.2,1.0]]])
ana = RHFAnalyzer(mol, dm)
ana.grids = ref._Grids(mol, coords)
th=[1.0,0.0,0.03125]
vij = NLDFSettingsVIJ("MGGA", th, "one", ["se_ap"], ["se_grad","se_rvec"], [(0,0),(-1,1)], ["se","se_ar2"], [[2.0,0.0,0.04]]*2)
for plan in ['gaussian','spline']:
    p = get_descriptors(ana, vij, plan_type=plan)[0]
    r = reference(mol, dm, vij, coords)
    print(plan); print(p); print(r)
