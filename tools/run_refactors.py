#!/usr/bin/env python3
"""False-alarm test: apply every behaviour-preserving refactoring in
/verif/refactors/<id>/patch.diff to a scratch copy of /repo's working tree and
run EVERY registered quick check on it.  Expected: every check exits 0.
A VIOLATION is a false alarm; exit 2 is a fail-closed reaction (tolerated only
with a clear reason, but counted).

usage: tools/run_refactors.py [id ...] [-j N]
"""
import concurrent.futures as cf
import json
import os
import shutil
import subprocess
import sys
import tempfile

VERIF = os.path.dirname(os.path.dirname(os.path.abspath(__file__)))


def sh(cmd, cwd=None):
    p = subprocess.run(cmd, shell=True, cwd=cwd, capture_output=True, text=True)
    return p.returncode, p.stdout + p.stderr


def one(rid):
    man = json.load(open(os.path.join(VERIF, "MANIFEST.json")))
    d = os.path.join(VERIF, "refactors", rid)
    scratch = tempfile.mkdtemp(prefix="verif_refac_")
    out_lines = []
    try:
        sh("git -C /repo ls-files -z ciderpress docs | xargs -0 -I{} cp --parents {} %s/" % scratch, cwd="/repo")
        for gen in ("ciderpress/lib/fft_wrapper/cider_fft_config.h", "ciderpress/lib/pwutil/config.h"):
            if os.path.exists("/repo/" + gen):
                shutil.copy("/repo/" + gen, os.path.join(scratch, gen))
        pf_ = os.path.join(d, "patch_rebased.diff")  # same refactoring, re-done on a tree changed by a later /repo fix
        if not os.path.exists(pf_):
            pf_ = os.path.join(d, "patch.diff")
        rc, out = sh("patch -p1 -d %s < %s" % (scratch, pf_))
        if rc != 0:
            return rid, "PATCH-DOES-NOT-APPLY", [out[-200:]]
        bad = []
        only = [x for x in os.environ.get("REFAC_CHECKS", "").split(",") if x]  # e.g. REFAC_CHECKS=C04,C08
        for c in man["checks"]:
            if only and c["property_id"] not in only:
                continue
            rc, out = sh(c["quick_cmd"] + " --root %s --no-evidence" % scratch, cwd=VERIF)
            if rc != 0:
                lines = [l for l in out.splitlines() if ("::" in l and not l.startswith(("NOTE", "KNOWN"))) or l.startswith("ANALYSIS-ERROR")]
                bad.append((c["property_id"], rc, lines[:3]))
        if not bad:
            return rid, "SILENT", []
        for pid, rc, lines in bad:
            out_lines.append("   %s rc=%d %s" % (pid, rc, " | ".join(l[:260] for l in lines)))
        return rid, "ALARM" if any(rc == 1 for _, rc, _ in bad) else "FAILCLOSED", out_lines
    finally:
        shutil.rmtree(scratch, ignore_errors=True)


def main():
    args = [a for a in sys.argv[1:] if not a.startswith("-")]
    ids = sorted(os.listdir(os.path.join(VERIF, "refactors")))
    ids = [i for i in ids if os.path.isdir(os.path.join(VERIF, "refactors", i))]
    if args:
        ids = [i for i in ids if i in args]
    n_bad = 0
    results = []
    with cf.ThreadPoolExecutor(int(os.environ.get("REFAC_JOBS", "4"))) as ex:
        for rid, status, lines in ex.map(one, ids):
            print("%-10s %s" % (rid, status), flush=True)
            for l in lines:
                print(l, flush=True)
            n_bad += status != "SILENT"
            results.append({"id": rid, "status": status, "lines": lines})
    if not args and not os.environ.get("REFAC_CHECKS"):
        with open(os.path.join(VERIF, "refactors", "RESULTS.json"), "w") as fh:
            json.dump(results, fh, indent=1)
    print("%d refactorings, %d not silent" % (len(ids), n_bad))


if __name__ == "__main__":
    main()
