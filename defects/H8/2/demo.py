"""C10: SDMX convolved radial functions (SDMXeval_rad_loop / SDMXeval_rad_iter in
ciderpress/lib/mod_cider/fast_sdmx.c) depend on the OpenMP schedule, are not
reproducible run to run, and write out of bounds when shell screening is on
(`cutoff=` of ciderpress.pyscf.sdmx.eval_conv_sh / EXXSphGenerator.get_cao /
get_features) and an atom's last shell is generally contracted (NCTR > 1).

Run:  PYTHONPATH=/tmp/hunt/H8 /venv/bin/python demo.py
"""
import ctypes
import os
import sys

sys.path.insert(0, os.path.join(os.path.dirname(os.path.abspath(__file__)), ".."))
import build_libs  # noqa: E402

build_libs.build_mcider()
import patch_load  # noqa: E402,F401

import numpy as np  # noqa: E402
from pyscf import dft, gto  # noqa: E402
from pyscf.gto.eval_gto import BLKSIZE, make_screen_index  # noqa: E402

from ciderpress.pyscf.sdmx import _get_rf_loc, eval_conv_sh  # noqa: E402

gomp = ctypes.CDLL("libgomp.so.1")

# Two water molecules 12 Angstrom apart, a stock PySCF basis with general
# contraction in every shell (roos-dz: O [4s3p2d], H [3s2p]), stock PySCF grid and
# the stock grids.cutoff.
mol = gto.M(
    atom="""O 0 0 0; H 0 -0.757 0.587; H 0 0.757 0.587
            O 0 0 12.0; H 0 -0.757 12.587; H 0 0.757 12.587""",
    basis="roos-dz",
    verbose=0,
)
grids = dft.gen_grid.Grids(mol)
grids.level = 0
grids.build()
coords = np.ascontiguousarray(grids.coords)
ngrids = coords.shape[0]
cutoff = grids.cutoff
alphas = np.array([0.05, 0.2, 0.8, 3.2])
plan = (alphas, np.ones_like(alphas), "gauss_diff")  # (alphas, norms, integral type)
nalpha = alphas.size
rf_loc = _get_rf_loc(mol)
nrf = int(rf_loc[-1])
SENTINEL = 7.0
NPAD = 8 * ngrids


def run(nthreads, cutoff):
    gomp.omp_set_num_threads(nthreads)
    n = nalpha * nrf * ngrids
    buf = np.full(n + NPAD, SENTINEL)  # exact-size output + guard area
    res = eval_conv_sh(plan, mol, coords, deriv=0, cutoff=cutoff, out=buf)
    # res is a (nalpha, ngrids, nrf) view of buf
    return np.array(res), int((buf[n:] != SENTINEL).sum())


tab = make_screen_index(mol, np.asfortranarray(coords), (0, mol.nbas), cutoff)
print(f"ngrids={ngrids}, nrf={nrf}, NCTR per shell={mol._bas[:, 3].tolist()}")
print(f"(grid block, shell) pairs screened out by cutoff={cutoff:g}: {(tab == 0).sum()} of {tab.size}")

unscreened, _ = run(1, None)
ref, oob_ref = run(1, cutoff)
fails = []

# (A) thread-count / run-to-run independence
print("\n(A) same call repeated with different OpenMP team sizes; expected: bitwise identical")
ndiff_runs = 0
for nt in (1, 2, 4, 8, 16):
    for rep in range(4):
        out, _ = run(nt, cutoff)
        d = np.abs(out - ref).max(axis=1)  # (nalpha, nrf)
        bad_rf = sorted(set(np.argwhere(d > 0)[:, 1].tolist()))
        if bad_rf:
            ndiff_runs += 1
        print(f"  threads={nt:2d} run {rep}: max|out - out(1 thread)| = {d.max():.3e}"
              f"  radial functions that differ: {bad_rf}")
if ndiff_runs:
    fails.append(f"{ndiff_runs} of 20 repeated runs differ from the single-thread result")

# (B) a shell that is NOT screened in a grid block must have exactly the values of
#     the unscreened evaluation there (same arithmetic); expected: 0 mismatches
mism = 0
for ib in range(tab.shape[0]):
    g0, g1 = ib * BLKSIZE, min((ib + 1) * BLKSIZE, ngrids)
    for ish in range(mol.nbas):
        if tab[ib, ish]:
            a = ref[:, g0:g1, rf_loc[ish]:rf_loc[ish + 1]]
            b = unscreened[:, g0:g1, rf_loc[ish]:rf_loc[ish + 1]]
            mism += int((a != b).sum())
print(f"\n(B) single thread: values of non-screened shells that differ from the cutoff=None "
      f"evaluation: {mism} (expected 0)")
if mism:
    fails.append(f"{mism} values of non-screened shells were overwritten")

# (C) nothing may be written behind the (nalpha, nrf, ngrids) output
print(f"(C) elements written behind the end of the output array: {oob_ref} (expected 0)")
if oob_ref:
    fails.append(f"{oob_ref} doubles written out of bounds")

print()
if fails:
    print("FAIL: " + "; ".join(fails))
    sys.exit(1)
print("PASS")
