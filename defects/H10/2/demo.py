"""C18 demo: RBFEvaluator (and its Spin subclass) hand control-point/alpha arrays to
the C kernel routines without checking that their sizes match the feature count the
C loop is told to use.  Accepted calls then read and WRITE outside the arrays given."""
import os
import sys

sys.path.insert(0, os.path.dirname(os.path.abspath(__file__)))
import cider_env  # noqa: E402

cider_env.install()

import numpy as np  # noqa: E402

from ciderpress.dft.xc_evaluator import (  # noqa: E402
    KernelEvaluator,
    RBFEvaluator,
    SpinRBFEvaluator,
)
from ciderpress.models.kernels import DiffConstantKernel, DiffRBF, SubsetRBF  # noqa: E402

rng = np.random.default_rng(1)
fails = 0
N, nctrl, n = 5, 6, 4
X1ctrl = rng.normal(size=(nctrl, N))
alpha = rng.normal(size=nctrl)
X1 = rng.normal(size=(n, N))
idx = [0, 2, 3]
kernel = DiffConstantKernel(2.0) * SubsetRBF(idx, length_scale=np.array([1.0, 2.0, 3.0]))

# ---------------------------------------------------------------- case A
print("Case A: SubsetRBF kernel, control points in the full feature space")
print("        (exactly the arguments KernelEvaluator takes for the same kernel)")
ref, dref = KernelEvaluator(kernel, X1ctrl, alpha)(X1)
print("  expected (KernelEvaluator)       :", ref.round(6))
canary = 7.0
big = np.full((n + 4, len(idx)), canary)
big[:n] = 0.0
try:
    ev = RBFEvaluator(kernel, X1ctrl, alpha)
    res, dres = ev(X1, dres=big[:n])
    print("  observed (RBFEvaluator, accepted):", res)
    touched = np.argwhere(big[n:] != canary)
    if len(touched):
        print("  C routine WROTE outside dres: %d guard elements behind the %dx%d "
              "dres array were modified" % (len(touched), n, len(idx)))
        fails += 1
    if not np.allclose(res, ref, rtol=1e-10, atol=1e-12):
        print("  values differ from the reference evaluator")
        fails += 1
except (ValueError, AssertionError, IndexError) as e:
    print("  rejected with", repr(e), "(acceptable)")

# ---------------------------------------------------------------- case B
print("Case B: alpha shorter than the number of control points")
kfull = DiffRBF(length_scale=np.ones(N))
store = np.zeros(nctrl)
store[:3] = alpha[:3]
short_alpha = store[:3]
try:
    ev = RBFEvaluator(kfull, X1ctrl, short_alpha)
    # the evaluator keeps a (contiguous) reference/copy of the 3 numbers only
    buf = np.zeros(nctrl)
    buf[:3] = short_alpha
    ev._alpha = buf[:3]  # same 3 values, but we control what lies behind them
    r1 = ev(X1)[0].copy()
    buf[3:] = 100.0  # memory *behind* the alpha array
    r2 = ev(X1)[0].copy()
    print("  accepted; result with zeros behind alpha :", r1.round(6))
    print("            result with 100s behind alpha  :", r2.round(6))
    if not np.array_equal(r1, r2):
        print("  C routine READ outside the alpha array (result depends on memory behind it)")
        fails += 1
except (ValueError, AssertionError) as e:
    print("  rejected with", repr(e), "(acceptable)")

# ---------------------------------------------------------------- case C
print("Case C: SpinRBFEvaluator given 2-D control points (needs (2, nctrl, nfeat))")
X1s = rng.normal(size=(2, n, N))
try:
    ev = SpinRBFEvaluator(kfull, X1ctrl, alpha)
    buf = np.zeros((2, nctrl, N))
    buf[0] = X1ctrl
    ev._X1ctrl = buf[0]  # identical 2-D content, controlled memory behind it
    r1 = ev(X1s)[0].copy()
    buf[1] = 3.0
    r2 = ev(X1s)[0].copy()
    print("  accepted; result A:", r1.round(6))
    print("            result B:", r2.round(6))
    if not np.array_equal(r1, r2):
        print("  C routine READ outside the control-point array")
        fails += 1
except (ValueError, AssertionError) as e:
    print("  rejected with", repr(e), "(acceptable)")

# ---------------------------------------------------------------- case D
print("Case D: SubsetRBF whose indexes are slice(0, None, 2) (features 0, 2, 4)")
ksl = SubsetRBF(slice(0, None, 2), length_scale=np.array([1.0, 2.0, 3.0]))
refD, drefD = KernelEvaluator(ksl, X1ctrl, alpha)(X1)
print("  expected (KernelEvaluator)       :", refD.round(6))
try:
    ev = RBFEvaluator(ksl, X1ctrl[:, ::2], alpha)
    print("  feature columns used by RBFEvaluator:", list(ev._indexes), "(kernel uses [0, 2, 4])")
    ncol = len(ev._indexes)
    guard = np.zeros((4 * n, ncol))  # keeps stray writes inside memory we own
    res, dres = ev(X1, dres=guard[:n])
    print("  observed (RBFEvaluator, accepted):", res)
    if np.any(guard[n:] != 0):
        print("  C routine WROTE outside dres")
    if not np.allclose(res, refD, rtol=1e-10, atol=1e-12):
        print("  values differ from the reference evaluator")
        fails += 1
except (ValueError, AssertionError, IndexError) as e:
    print("  raised", repr(e), "for a valid kernel")
    fails += 1

# ---------------------------------------------------------------- control
ev = RBFEvaluator(kernel, X1ctrl[:, idx], alpha)
res, dres = ev(X1)
assert np.allclose(res, ref)
assert np.allclose(dres, dref[:, idx])
print("control (pre-sliced control points) agrees with KernelEvaluator")

print("failures:", fails)
sys.exit(1 if fails else 0)
