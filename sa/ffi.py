"""E-ffi: conformance of ctypes call sites with the C prototypes (clang).

No `argtypes` are declared anywhere in the repository, so nothing checks the
~110 native calls at run time; this engine decides, per call site, whether
the argument list the Python code builds lands in the registers / stack slots
from which the C function reads its parameters (x86-64 System-V model), and
whether each landing value has the kind (pointer / integer scalar / double)
the C parameter has.

Python side (pure `ast`):
  * library handles: module-level `h = load_library("libX")` (any alias of
    ciderpress.lib.load_library) and `from <repo module> import h`;
  * function references `h.f`, `getattr(h, "f")`;
  * callee sets through local variables (forward data-flow over the statement
    CFG: `fn = h.a` / `else: fn = h.b`), class attributes (`_fn = h.a` called
    as `self._fn(...)`, including subclasses' overrides) and parameters of
    module-level helpers that receive a function reference from their callers;
  * argument lists built incrementally (`args = [...]`, `.append`, `+=`,
    `fn(*args)`), resolved by the same data-flow;
  * argument kinds: ctypes constructors, `.ctypes.data_as(..)`, byref,
    pointer types, ctypes arrays `(c_int * n)(..)`, None, int literals,
    locals / instance attributes bound only to such expressions; anything else
    is `unknown` (counted, never a violation).

C side: `sa.cfacts` TUs; typedef names resolved through the TU's typedef
table; function-pointer typedefs (`FPtr_*`) are parsed into parameter lists.
"""
import ast
import re

from sa import cfacts, cfg as cfgm, pyfacts as pf
from sa.core import AnalysisError

# ----------------------------------------------------------------------------
# C side
# ----------------------------------------------------------------------------
LIB_DIRS = {
    "libmcider": ["mod_cider/"],
    "libpwutil": ["pwutil/", "mod_cider/sph_harm.c"],
    "libfft_wrapper": ["fft_wrapper/"],
    "libxc_utils": ["xc_utils/"],
    "libnumint": ["numint_cider/"],
    "libsbt": ["sbt/"],
}

FFI_C_FILES = [
    "mod_cider/cider_coefs.c", "mod_cider/cider_grids.c", "mod_cider/conv_interpolation.c",
    "mod_cider/convolutions.c", "mod_cider/debug_numint.c", "mod_cider/fast_sdmx.c",
    "mod_cider/frac_lapl.c", "mod_cider/model_utils.c", "mod_cider/pbc_tools.c",
    "mod_cider/sph_harm.c", "mod_cider/spline.c", "fft_wrapper/cider_fft.c", "fft_wrapper/cider_mpi_fft.c",
    "xc_utils/libxc_baselines.c", "pwutil/grid_util.c", "pwutil/nldf_fft_core.c",
    "pwutil/nldf_fft_serial.c",
]
# sources that need Python.h (GPAW interface) and cannot be parsed in this sandbox; a callee
# found only there is reported as "prototype unavailable" (note, counted)
UNPARSED_C = ["pwutil/nldf_fft_mpi.c", "pwutil/gpaw_interface.c"]

INT32 = {"int", "unsigned int", "unsigned", "signed int", "int32_t", "uint32_t", "short", "unsigned short",
         "char", "signed char", "unsigned char", "uint8_t", "int8_t", "int16_t", "uint16_t", "_Bool", "bool"}
INT64 = {"long", "unsigned long", "long long", "unsigned long long", "size_t", "ssize_t", "int64_t",
         "uint64_t", "ptrdiff_t", "intptr_t", "uintptr_t", "long int", "unsigned long int"}


def _split_top(s):
    out, depth, cur = [], 0, ""
    for ch in s:
        if ch in "([":
            depth += 1
        elif ch in ")]":
            depth -= 1
        if ch == "," and depth == 0:
            out.append(cur.strip())
            cur = ""
        else:
            cur += ch
    if cur.strip():
        out.append(cur.strip())
    return out


class CProto:
    def __init__(self, name, rel, ret, params, line=0):
        self.name = name
        self.rel = rel
        self.ret = ret  # C type text
        self.params = params  # [(name, type text)]
        self.line = line

    def sig(self):
        return "%s %s(%s)" % (self.ret, self.name, ", ".join("%s %s" % (t, n) for n, t in self.params))


class CSide:
    """All prototypes of the parsed C sources + typedef resolution."""

    def __init__(self, tree, rels=None):
        self.tree = tree
        rels = list(rels or FFI_C_FILES)
        self.tus = cfacts.load_all(tree, rels, jobs=1 if self._all_cached(tree, rels) else 16)
        self.funcs = {}  # name -> [CProto]
        self.typedefs = {}
        for rel, tu in self.tus.items():
            for d in tu.decls:
                if d.get("kind") == "TypedefDecl" and d.get("name"):
                    self.typedefs.setdefault(d["name"], d.get("type", ""))
            for name, d in tu.funcs.items():
                qt = d.get("type", {}).get("qualType", "")
                ret = qt.split("(")[0].strip()
                ps = [(p.get("name", ""), p.get("type", {}).get("qualType", "")) for p in tu.params(name)]
                self.funcs.setdefault(name, []).append(CProto(name, rel, ret, ps, tu.line_of(d)))
        self._unparsed_text = None

    @staticmethod
    def _all_cached(tree, rels):
        """every TU is already in the digest-keyed clang cache (then no worker pool is needed)"""
        import os
        try:
            for rel in rels:
                full = cfacts.LIB + "/" + rel
                if full in tree.overlay:
                    continue  # one mutated file is parsed in-process
                dg = cfacts._digest(tree, rel, tree.read(full))
                if not os.path.exists(os.path.join(cfacts.CACHE, "%s.%s.json" % (rel.replace("/", "_"), dg))):
                    return False
            return True
        except Exception:
            return False

    def lookup(self, name, libname=None):
        """-> CProto | None ; prefers the definition inside the handle's library."""
        cands = self.funcs.get(name) or []
        if not cands:
            return None
        if libname in LIB_DIRS:
            for c in cands:
                if any(c.rel.startswith(p) for p in LIB_DIRS[libname]):
                    return c
        return cands[0]

    def in_unparsed_source(self, name):
        if self._unparsed_text is None:
            t = ""
            for rel in UNPARSED_C:
                full = cfacts.LIB + "/" + rel
                if self.tree.exists(full):
                    t += self.tree.read(full)
            self._unparsed_text = t
        return re.search(r"\b%s\s*\(" % re.escape(name), self._unparsed_text) is not None

    def resolve(self, t, _depth=0):
        """strip qualifiers, resolve typedef names (non-pointer part)"""
        t = re.sub(r"\b(const|volatile|restrict|__restrict|register|struct)\b", " ", t)
        t = re.sub(r"\s+", " ", t).strip()
        if _depth < 8 and t in self.typedefs and t not in INT32 and t not in INT64:
            return self.resolve(self.typedefs[t], _depth + 1)
        return t

    def kind(self, t):
        """C type text -> kind in {'ptr','fnptr','int','long','double','float','void','other:<t>'}"""
        r = self.resolve(t)
        if "(*" in r:
            return "fnptr"
        if "*" in r or "[" in r:
            return "ptr"
        if r in INT32:
            return "int"
        if r in INT64:
            return "long"
        if r == "double":
            return "double"
        if r == "float":
            return "float"
        if r == "void":
            return "void"
        if r.startswith("enum "):
            return "int"
        return "other:" + r

    def fnptr_params(self, t):
        """parameter type list of a function-pointer type, or None"""
        r = self.resolve(t)
        m = re.match(r"^(.*?)\(\*\)\s*\((.*)\)$", r)
        if not m:
            return None
        inner = m.group(2).strip()
        if inner == "":
            return None  # unprototyped `()`: nothing to compare
        if inner == "void":
            return m.group(1).strip(), []
        return m.group(1).strip(), _split_top(inner)


# ----------------------------------------------------------------------------
# x86-64 System V argument locations
# ----------------------------------------------------------------------------
def abi_class(kind):
    if kind in ("ptr", "fnptr", "int", "long"):
        return "I"
    if kind in ("double", "float"):
        return "S"
    return None


def abi_locations(kinds):
    """kind list -> list of locations ('I',k) k<6 | ('S',k) k<8 | ('M',k); None if a
    kind has no known class (the layout after it is then unknown)."""
    ni = ns = nm = 0
    out = []
    for k in kinds:
        c = abi_class(k)
        if c is None:
            return None
        if c == "I":
            if ni < 6:
                out.append(("I", ni))
                ni += 1
            else:
                out.append(("M", nm))
                nm += 1
        else:
            if ns < 8:
                out.append(("S", ns))
                ns += 1
            else:
                out.append(("M", nm))
                nm += 1
    return out


LOC_NAMES = {("I", 0): "rdi", ("I", 1): "rsi", ("I", 2): "rdx", ("I", 3): "rcx", ("I", 4): "r8", ("I", 5): "r9"}


def loc_name(loc):
    if loc in LOC_NAMES:
        return LOC_NAMES[loc]
    if loc[0] == "S":
        return "xmm%d" % loc[1]
    return "stack+%d" % (8 * loc[1])


def compat(py, c):
    """python value kind landing where a C parameter of kind c is read.
    -> 'ok' | 'note:<why>' | 'bad:<why>'"""
    if py == "unknown":
        return "ok"
    if c in ("ptr", "fnptr"):
        if py in ("ptr", "fnptr"):
            return "ok"
        if py == "zero":
            return "ok"
        return "bad:a %s value is read as an address" % py
    if c in ("int", "long"):
        if py in ("ptr", "fnptr"):
            return "bad:an address is read as an integer"
        if py == "zero":
            return "ok"
        if py == "int" and c == "long":
            return "note:32-bit c_int passed for a 64-bit integer parameter (sign-extended by libffi; " \
                   "harmless for non-negative values)"
        if py in ("int", "long"):
            return "ok"
        return "bad:a %s value is read as an integer" % py
    if c == "double":
        if py == "double":
            return "ok"
        return "bad:a %s value is read as a double" % py
    if c == "float":
        if py == "float":
            return "ok"
        return "bad:a %s value is read as a float" % py
    return "ok"


def conform(py_kinds, c_kinds):
    """-> (violations, notes): lists of text.  py_kinds may contain 'unknown':
    an unknown argument is assumed to have the class of the C parameter at the
    same index (best case), so it can never produce a violation by itself."""
    viol, notes = [], []
    npy, nc = len(py_kinds), len(c_kinds)
    pk = list(py_kinds)
    for i, k in enumerate(pk):
        if k == "unknown":
            pk[i] = ("unknown", c_kinds[i] if i < nc else "ptr")
    eff = [k[1] if isinstance(k, tuple) else ("int" if k == "zero" else k) for k in pk]
    shown = [("unknown" if isinstance(k, tuple) else k) for k in pk]
    cl = abi_locations(c_kinds)
    pl = abi_locations(eff)
    if cl is None or pl is None:
        # by-value aggregate or complex parameter: fall back to positional comparison
        if npy != nc:
            viol.append("arity: call passes %d argument(s), C declares %d parameter(s)" % (npy, nc))
        return viol, notes
    where = {loc: j for j, loc in enumerate(pl)}
    if npy < nc:
        viol.append("arity: call passes %d argument(s), C declares %d parameter(s) -- the callee reads "
                    "register/stack contents the caller never set" % (npy, nc))
    moved = []
    for i, loc in enumerate(cl):
        j = where.get(loc)
        if j is None:
            if npy >= nc:
                viol.append("C parameter %d (%s) is read from %s, which no argument of the call fills "
                            "(register-class sequence of the call differs from the prototype)"
                            % (i + 1, c_kinds[i], loc_name(loc)))
            continue
        r = compat(shown[j], c_kinds[i])
        if r.startswith("bad:"):
            viol.append("C parameter %d (kind %s, read from %s) receives argument %d of kind %s: %s"
                        % (i + 1, c_kinds[i], loc_name(loc), j + 1, shown[j], r[4:]))
        elif r.startswith("note:"):
            notes.append("parameter %d: %s" % (i + 1, r[5:]))
        if j != i:
            moved.append((i + 1, j + 1))
    if npy > nc and not viol:
        notes.append("call passes %d argument(s) for %d parameter(s); the surplus lands in locations the "
                     "callee does not read" % (npy, nc))
    if moved and not viol:
        notes.append("argument positions differ from the prototype (C param <- call arg: %s) but every "
                     "value lands in the register/stack slot the callee reads it from (INTEGER and SSE "
                     "classes are assigned independently)" % ", ".join("%d<-%d" % m for m in moved))
    return viol, notes


# ----------------------------------------------------------------------------
# Python side
# ----------------------------------------------------------------------------
CT_INT32 = {"c_int", "c_uint", "c_int32", "c_uint32", "c_short", "c_ushort", "c_char", "c_byte", "c_ubyte",
            "c_bool", "c_int8", "c_uint8", "c_int16", "c_uint16", "c_wchar"}
CT_INT64 = {"c_long", "c_ulong", "c_longlong", "c_ulonglong", "c_size_t", "c_ssize_t", "c_int64", "c_uint64"}
CT_PTR_CALLS = {"c_void_p", "c_char_p", "c_wchar_p", "byref", "pointer", "cast", "addressof_ptr", "data_as",
                "c_null_ptr", "c_double_p", "c_int_p", "POINTER"}

UNKNOWN = ("unknown",)


def _last(name):
    return name.split(".")[-1] if name else None


# abstract values: ('kind', k) | ('fn', handle, name) | ('list', tuple(items)) | ('param', name) | UNKNOWN
# an item of a list / an argument is (kind, source text, (handle, name) | None)


def is_ctypes_array_ctor(call):
    # (ctypes.c_int * 3)(...)  /  (ctypes.c_double * n)(*xs)
    f = call.func
    return isinstance(f, ast.BinOp) and isinstance(f.op, ast.Mult) and (
        (_last(pf.src(f.left)) or "").startswith("c_") or (_last(pf.src(f.right)) or "").startswith("c_"))


class ModuleFFI:
    """ctypes facts of one Python module."""

    def __init__(self, eng, rel):
        self.eng = eng
        self.rel = rel
        self.mod = pf.Module(eng.tree, rel)
        self.handles = {}  # local name -> library name
        self.origin = {}  # local name -> (defining module rel, name there): identity of the CDLL object
        self.restypes = {}  # (handle, fn) -> restype expr text
        self.argtypes = set()
        self._find_handles()

    def _find_handles(self):
        loaders = {"load_library"}
        for local, (m, n) in self.mod.imports.items():
            if n == "load_library" and m.startswith("ciderpress.lib"):
                loaders.add(local)
        for name, v in self.mod.assigns.items():
            if isinstance(v, ast.Call) and isinstance(v.func, ast.Name) and v.func.id in loaders \
                    and v.args and isinstance(v.args[0], ast.Constant):
                self.handles[name] = str(v.args[0].value)
                self.origin[name] = (self.rel, name)
        for local, (m, n) in self.mod.imports.items():
            if n is None or not m.startswith("ciderpress"):
                continue
            h = self.eng.handle_of(m, n)
            if h:
                self.handles[local] = h[0]
                self.origin[local] = h[1]
        for n in ast.walk(self.mod.ast):
            if isinstance(n, ast.Assign) and len(n.targets) == 1 and isinstance(n.targets[0], ast.Attribute) \
                    and n.targets[0].attr in ("restype", "argtypes"):
                ref = self.fn_ref(n.targets[0].value)
                if ref:
                    if ref[1] is None:
                        continue
                    if n.targets[0].attr == "restype":
                        self.restypes[ref] = pf.src(n.value)
                    else:
                        self.argtypes.add(ref)
        self._find_table_restypes()

    def _find_table_restypes(self):
        """for name in TABLE: getattr(h, name).restype = T   (TABLE a literal list/tuple/set of names, or a module-level
        name bound to one; also dict tables `for name, T in TABLE.items()`)"""
        for n in ast.walk(self.mod.ast):
            if not isinstance(n, ast.For):
                continue
            it = n.iter
            var = n.target
            dict_items = False
            if isinstance(it, ast.Call) and isinstance(it.func, ast.Attribute) and it.func.attr == "items" \
                    and isinstance(var, ast.Tuple) and len(var.elts) == 2 and not it.args:
                it, var, dict_items = it.func.value, var.elts[0], True
            if not isinstance(var, ast.Name):
                continue
            try:
                tbl = pf.literal(it, self.mod.assigns)
            except pf.NotLiteral:
                tbl = None
            if isinstance(tbl, dict):
                names = [k for k in tbl if isinstance(k, str)]
            elif isinstance(tbl, (list, tuple, set, frozenset)):
                names = [k for k in tbl if isinstance(k, str)]
            else:
                # a dict table whose values are ctypes expressions is not a literal: take its string keys
                names = []
                src_node = self.mod.assigns.get(it.id) if isinstance(it, ast.Name) else it
                if isinstance(src_node, ast.Dict):
                    names = [k.value for k in src_node.keys if isinstance(k, ast.Constant) and isinstance(k.value, str)]
            if not names:
                continue
            for st in ast.walk(n):
                if isinstance(st, ast.Assign) and len(st.targets) == 1 and isinstance(st.targets[0], ast.Attribute) \
                        and st.targets[0].attr in ("restype", "argtypes"):
                    tv = st.targets[0].value
                    if isinstance(tv, ast.Call) and isinstance(tv.func, ast.Name) and tv.func.id == "getattr" \
                            and len(tv.args) >= 2 and isinstance(tv.args[0], ast.Name) and tv.args[0].id in self.handles \
                            and isinstance(tv.args[1], ast.Name) and tv.args[1].id == var.id:
                        for nm in names:
                            if st.targets[0].attr == "restype":
                                txt = pf.src(st.value)
                                if dict_items and isinstance(st.value, ast.Name):
                                    dn = self.mod.assigns.get(it.id) if isinstance(it, ast.Name) else it
                                    if isinstance(dn, ast.Dict):
                                        for k, v in zip(dn.keys, dn.values):
                                            if isinstance(k, ast.Constant) and k.value == nm:
                                                txt = pf.src(v)
                                self.restypes[(tv.args[0].id, nm)] = txt
                            else:
                                self.argtypes.add((tv.args[0].id, nm))

    def fn_ref(self, e):
        """h.f / getattr(h, 'f') -> (handle, f) ; getattr(h, <non-literal>) -> (handle, None)"""
        if isinstance(e, ast.Attribute) and isinstance(e.value, ast.Name) and e.value.id in self.handles:
            return (e.value.id, e.attr)
        if isinstance(e, ast.Call) and isinstance(e.func, ast.Name) and e.func.id == "getattr" \
                and len(e.args) >= 2 and isinstance(e.args[0], ast.Name) and e.args[0].id in self.handles:
            a = e.args[1]
            if isinstance(a, ast.Constant) and isinstance(a.value, str):
                return (e.args[0].id, a.value)
            return (e.args[0].id, None)
        return None


class CallSite:
    def __init__(self, rel, func, node, how):
        self.rel = rel
        self.func = func  # qualified name of the enclosing python function
        self.node = node  # ast.Call
        self.how = how  # 'direct' | 'variable' | 'class-attr' | 'parameter'
        self.callees = []  # sorted callee names
        self.pairs = []  # [((ModuleFFI, (handle, name)) | None, arglist | None)]; arglist = tuple of
        #                  items (kind, src, fnref|None); None = not resolvable
        self.unresolved = False  # some reaching binding is not a function reference
        self.result_used = False

    @property
    def line(self):
        return self.node.lineno

    def construct(self, callee):
        return "%s(...)" % callee


class Engine:
    def __init__(self, tree, rels, cside=None):
        self.tree = tree
        self.rels = [r for r in rels if tree.exists(r)]
        self._handle_cache = {}
        self.c = cside or CSide(tree)
        self.modules = {}
        for rel in self.rels:
            self.modules[rel] = ModuleFFI(self, rel)
        self.prog = pf.Program(tree, self.rels)
        self.attr_kinds = self._attr_registry()
        self._helper_cache = {}
        self.sites = []
        self.stats = {"functions_scanned": 0}
        for rel in self.rels:
            self._scan_module(self.modules[rel])

    # -- handles through imports -------------------------------------------
    def handle_of(self, modname, name, _depth=0):
        key = (modname, name)
        if key in self._handle_cache:
            return self._handle_cache[key]
        self._handle_cache[key] = None
        rel = modname.replace(".", "/") + ".py"
        if not self.tree.exists(rel):
            rel = modname.replace(".", "/") + "/__init__.py"
            if not self.tree.exists(rel):
                return None
        try:
            m = pf.Module(self.tree, rel)
        except AnalysisError:
            return None
        res = None
        v = m.assigns.get(name)
        loaders = {"load_library"} | {l for l, (mm, nn) in m.imports.items() if nn == "load_library"}
        if isinstance(v, ast.Call) and isinstance(v.func, ast.Name) and v.func.id in loaders and v.args \
                and isinstance(v.args[0], ast.Constant):
            res = (str(v.args[0].value), (rel, name))
        elif name in m.imports and _depth < 5:
            mm, nn = m.imports[name]
            if nn is not None and mm.startswith("ciderpress"):
                res = self.handle_of(mm, nn, _depth + 1)
        self._handle_cache[key] = res
        return res

    # -- attribute registry --------------------------------------------------
    def _attr_registry(self):
        """attribute name -> kind, when every `self.<attr> = e` in the analysed modules binds an
        expression of that one ctypes kind (None assignments ignored); also properties that return
        such an attribute."""
        seen = {}
        for rel, mf in self.modules.items():
            for n in ast.walk(mf.mod.ast):
                if isinstance(n, ast.Assign):
                    for t in n.targets:
                        if pf.is_self_attr(t):
                            if isinstance(n.value, ast.Constant) and n.value.value is None:
                                continue
                            k = self.expr_kind_simple(n.value)
                            # a local bound just before (atco = c_null_ptr(); ...; self._atco = atco)
                            if k == "unknown" and isinstance(n.value, ast.Name):
                                k = self._local_kind_flow_insensitive(n, n.value.id)
                            seen.setdefault(t.attr, set()).add(k)
        reg = {a: next(iter(ks)) for a, ks in seen.items() if len(ks) == 1 and "unknown" not in ks}
        # properties: return self.X
        for rel, mf in self.modules.items():
            for cls in mf.mod.classes.values():
                for name, fn in pf.methods(cls).items():
                    if any(pf.src(d) == "property" for d in fn.decorator_list):
                        rets = [x for x in pf.walk_no_nested(fn) if isinstance(x, ast.Return)]
                        if len(rets) == 1 and pf.is_self_attr(rets[0].value) and rets[0].value.attr in reg \
                                and name not in seen:
                            reg.setdefault(name, reg[rets[0].value.attr])
        return reg

    def _local_kind_flow_insensitive(self, stmt, name):
        fn = pf.enclosing_func(stmt)
        if fn is None:
            return "unknown"
        ks = set()
        for n in pf.walk_no_nested(fn):
            if isinstance(n, ast.Assign):
                for t in n.targets:
                    if isinstance(t, ast.Name) and t.id == name:
                        ks.add(self.expr_kind_simple(n.value))
        return next(iter(ks)) if len(ks) == 1 else "unknown"

    def expr_kind_simple(self, e):
        """kind of an expression without any variable environment"""
        if isinstance(e, ast.Constant):
            if e.value is None:
                return "ptr"
            if isinstance(e.value, bool):
                return "int"
            if isinstance(e.value, int):
                return "zero" if e.value == 0 else "int"
            if isinstance(e.value, bytes):
                return "ptr"
            return "unknown"
        if isinstance(e, ast.Call):
            if is_ctypes_array_ctor(e):
                return "ptr"
            nm = e.func.attr if isinstance(e.func, ast.Attribute) else _last(pf.call_name(e))
            if nm in CT_INT32:
                return "int"
            if nm in CT_INT64:
                return "long"
            if nm in ("c_double", "c_longdouble"):
                return "double"
            if nm == "c_float":
                return "float"
            if nm in CT_PTR_CALLS:
                return "ptr"
            # ctypes.POINTER(T)()  /  lib.c_null_ptr()
            if isinstance(e.func, ast.Call) and _last(pf.call_name(e.func)) == "POINTER":
                return "ptr"
        return "unknown"

    # -- helpers that build a ctypes value -------------------------------------
    def helper_value(self, mf, call, enclosing_fn):
        """`_c_flag(x)`, `_ptr(arr)`, `self._as_ptr(a)`: a call of a same-module function / module-level lambda /
        method of the enclosing class / function imported from a repository module, every return expression of
        which is a classifiable ctypes value -> (kind, source text with the helper inlined | None) or None"""
        f = call.func
        target = None  # (params, [return exprs], single_expression)
        key = None
        if isinstance(f, ast.Name):
            key = (mf.rel, f.id)
            if key in self._helper_cache:
                target = self._helper_cache[key]
            else:
                fn = mf.mod.functions.get(f.id)
                lam = mf.mod.assigns.get(f.id)
                if fn is None and not isinstance(lam, ast.Lambda) and f.id in mf.mod.imports:
                    m, n = mf.mod.imports[f.id]
                    if n is not None and m.startswith("ciderpress"):
                        rel2 = m.replace(".", "/") + ".py"
                        if self.tree.exists(rel2):
                            try:
                                m2 = pf.Module(self.tree, rel2)
                                fn = m2.functions.get(n)
                                lam = m2.assigns.get(n)
                            except AnalysisError:
                                pass
                target = self._helper_target(fn, lam, False)
                self._helper_cache[key] = target
        elif isinstance(f, ast.Attribute) and isinstance(f.value, ast.Name) and enclosing_fn is not None:
            cls = pf.enclosing_class(enclosing_fn)
            if cls is not None and f.value.id in ("self", "cls", cls.name):
                key = (mf.rel, cls.name, f.attr)
                if key in self._helper_cache:
                    target = self._helper_cache[key]
                else:
                    m_ = pf.methods(cls).get(f.attr)
                    static = m_ is not None and any(pf.src(d) == "staticmethod" for d in m_.decorator_list)
                    target = self._helper_target(m_, None, m_ is not None and not static)
                    self._helper_cache[key] = target
        if not target:
            return None
        params, rets, single = target
        kinds = {self._ret_kind(r) for r in rets}
        if len(kinds) != 1 or "unknown" in kinds:
            return None
        kind = next(iter(kinds))
        src = None
        if single and not call.keywords and not any(isinstance(a, ast.Starred) for a in call.args) \
                and len(call.args) <= len(params):
            mapping = {p_: a for p_, a in zip(params, call.args)}
            names = {n.id for n in ast.walk(rets[0]) if isinstance(n, ast.Name)}
            if not (names & set(params)) - set(mapping):
                e2 = ast.parse(ast.unparse(rets[0]), mode="eval").body

                class _S(ast.NodeTransformer):
                    def visit_Name(self, node):
                        if node.id in mapping and isinstance(node.ctx, ast.Load):
                            return ast.parse(ast.unparse(mapping[node.id]), mode="eval").body
                        return node
                src = ast.unparse(_S().visit(e2))
        return kind, src

    def _ret_kind(self, e):
        if isinstance(e, ast.IfExp):
            a, b = self._ret_kind(e.body), self._ret_kind(e.orelse)
            return a if a == b else "unknown"
        return self.expr_kind_simple(e)

    @staticmethod
    def _helper_target(fn, lam, drop_self):
        if isinstance(fn, (ast.FunctionDef, ast.AsyncFunctionDef)):
            rets = [n.value for n in pf.walk_no_nested(fn) if isinstance(n, ast.Return) and n.value is not None]
            if not rets or any(isinstance(n, (ast.Yield, ast.YieldFrom)) for n in pf.walk_no_nested(fn)):
                return None
            params = [a.arg for a in fn.args.args]
            if drop_self:
                params = params[1:]
            body = [st for st in fn.body if not (isinstance(st, ast.Expr) and isinstance(st.value, ast.Constant))]
            single = len(body) == 1 and isinstance(body[0], ast.Return)
            return params, rets, single
        if isinstance(lam, ast.Lambda):
            return [a.arg for a in lam.args.args], [lam.body], True
        return None

    # -- scanning ------------------------------------------------------------
    def _scan_module(self, mf):
        funcs = [mf.mod.ast]
        for n in ast.walk(mf.mod.ast):
            if isinstance(n, (ast.FunctionDef, ast.AsyncFunctionDef)):
                funcs.append(n)
        for fn in funcs:
            if self._mentions_ffi(mf, fn):
                self.stats["functions_scanned"] += 1
                FuncFlow(self, mf, fn).run()

    def _mentions_ffi(self, mf, fn):
        if not mf.handles:
            return False
        """cheap filter: the function refers to a handle, to a class attribute bound to a function
        reference, or calls one of its own parameters with ctypes-looking arguments"""
        for n in (pf.walk_no_nested(fn) if not isinstance(fn, ast.Module) else _walk_module_level(fn)):
            if isinstance(n, ast.Name) and n.id in mf.handles:
                return True
            if isinstance(n, ast.Call):
                f = n.func
                if pf.is_self_attr(f) and self.class_attr_refs(mf, pf.enclosing_class(fn), f.attr):
                    return True
                if isinstance(f, ast.Name) and not isinstance(fn, ast.Module) \
                        and fn.name in self._ref_receivers(mf) and f.id in [a.arg for a in fn.args.args]:
                    return True
        return False

    def _ref_receivers(self, mf):
        """names of module-level functions that some call in the module hands a library function to"""
        c = self.__dict__.setdefault("_recv_cache", {})
        if mf.rel not in c:
            out = set()
            if mf.handles:
                for n in ast.walk(mf.mod.ast):
                    if isinstance(n, ast.Call) and isinstance(n.func, ast.Name):
                        if any(mf.fn_ref(a) for a in n.args) or any(mf.fn_ref(k.value) for k in n.keywords):
                            out.add(n.func.id)
            c[mf.rel] = out
        return c[mf.rel]

    def class_attr_refs(self, mf, cls, attr):
        """function references bound to class attribute `attr` in cls, its bases and its subclasses"""
        if cls is None:
            return []
        out = []
        related = []
        for m, c in self.prog.all_classes():
            names = [cc for _, cc in self.prog.mro(m, c)]
            if c is cls or cls in names:
                related.append((m, c))
        m0 = self.prog.modules.get(mf.rel)
        if m0 is not None:
            for m, c in self.prog.mro(m0, cls):
                if (m, c) not in related:
                    related.append((m, c))
        for m, c in related:
            v = pf.class_attrs(c).get(attr)
            if v is not None:
                mm = self.modules.get(m.rel)
                ref = mm.fn_ref(v) if mm else None
                if ref:
                    out.append((mm, ref))
        return out

    def callers_binding(self, mf, fn, pname):
        """module-level helper `fn` whose parameter `pname` is called: the argument expressions its
        callers (same module, by bare name) bind to that parameter -> [(caller_call, expr)]"""
        if not isinstance(getattr(fn, "_parent", None), ast.Module):
            return []
        params = [a.arg for a in fn.args.args]
        idx = params.index(pname)
        out = []
        for n in ast.walk(mf.mod.ast):
            if isinstance(n, ast.Call) and isinstance(n.func, ast.Name) and n.func.id == fn.name:
                e = None
                if idx < len(n.args) and not any(isinstance(a, ast.Starred) for a in n.args[: idx + 1]):
                    e = n.args[idx]
                for k in n.keywords:
                    if k.arg == pname:
                        e = k.value
                if e is not None:
                    out.append((n, e))
        return out


def _walk_module_level(mod):
    todo = list(mod.body)
    while todo:
        n = todo.pop()
        if isinstance(n, (ast.FunctionDef, ast.AsyncFunctionDef, ast.ClassDef, ast.Lambda)):
            if isinstance(n, ast.ClassDef):
                # class-level statements execute at import time; their method bodies do not
                todo.extend(s for s in n.body if not isinstance(s, (ast.FunctionDef, ast.AsyncFunctionDef)))
            continue
        yield n
        todo.extend(ast.iter_child_nodes(n))


class FuncFlow:
    """Forward data-flow over one function's statement CFG.

    The state at a program point is a *set of environments* (name -> one
    abstract value): the join at a merge point is the union of the sets, so
    correlated bindings (`args.append(x); fn = h.a` in one branch, `fn = h.b`
    in the other) stay correlated.  When the set outgrows MAXENV (loops that
    append, long if-chains) the environments are merged and the names on which
    they disagree become UNKNOWN."""

    MAXENV = 48
    MAXLIST = 64

    def __init__(self, eng, mf, fn):
        self.eng = eng
        self.mf = mf
        self.fn = fn
        self.qual = pf.qualname(fn) if not isinstance(fn, ast.Module) else "<module>"

    # -- values --------------------------------------------------------------
    def eval(self, e, env):
        """expression -> list of alternative abstract values"""
        ref = self.mf.fn_ref(e)
        if ref is not None:
            if ref[1] is None:
                return [UNKNOWN]
            return [("fn", ref[0], ref[1])]
        if isinstance(e, ast.Name):
            return [env.get(e.id, UNKNOWN)]
        if isinstance(e, ast.IfExp):
            return _uniq(self.eval(e.body, env) + self.eval(e.orelse, env))
        if isinstance(e, (ast.List, ast.Tuple)):
            lists = [()]
            for el in e.elts:
                if isinstance(el, ast.Starred):
                    new = []
                    for v in self.eval(el.value, env):
                        if v[0] != "list":
                            return [UNKNOWN]
                        new += [l + v[1] for l in lists]
                    lists = new
                else:
                    it = self.item_of(el, env)
                    lists = [l + (it,) for l in lists]
                if len(lists) > self.MAXENV or any(len(l) > self.MAXLIST for l in lists):
                    return [UNKNOWN]
            return [("list", l) for l in lists]
        if isinstance(e, ast.BinOp) and isinstance(e.op, ast.Add):
            a, b = self.eval(e.left, env), self.eval(e.right, env)
            if all(v[0] == "list" for v in a + b):
                out = [("list", x[1] + y[1]) for x in a for y in b]
                if len(out) <= self.MAXENV and all(len(v[1]) <= self.MAXLIST for v in out):
                    return out
            return [UNKNOWN]
        if isinstance(e, ast.Subscript) and isinstance(e.slice, ast.Slice) and e.slice.step is None:
            vs = self.eval(e.value, env)
            lo, hi = e.slice.lower, e.slice.upper

            def cint(x):
                if x is None:
                    return None
                if isinstance(x, ast.Constant) and isinstance(x.value, int):
                    return x.value
                if isinstance(x, ast.UnaryOp) and isinstance(x.op, ast.USub) and isinstance(x.operand, ast.Constant) \
                        and isinstance(x.operand.value, int):
                    return -x.operand.value
                return "?"
            a, b = cint(lo), cint(hi)
            if all(v[0] == "list" for v in vs) and a != "?" and b != "?":
                return [("list", v[1][a:b]) for v in vs]
            return [UNKNOWN]
        if isinstance(e, ast.Call) and pf.call_name(e) == "list" and len(e.args) == 1 and not e.keywords:
            vs = self.eval(e.args[0], env)
            if all(v[0] == "list" for v in vs):
                return vs
            return [UNKNOWN]
        k = self.kind_of(e, env)
        if k != "unknown":
            return [("kind", k)]
        return [UNKNOWN]

    def kind_of(self, e, env):
        k = self.eng.expr_kind_simple(e)
        if k != "unknown":
            return k
        if self.mf.fn_ref(e):
            return "fnptr"
        if isinstance(e, ast.Name):
            v = env.get(e.id)
            if v is not None:
                if v[0] == "kind":
                    return v[1]
                if v[0] == "fn":
                    return "fnptr"
            return "unknown"
        if isinstance(e, ast.Attribute):
            if e.attr in self.eng.attr_kinds and not isinstance(e.value, ast.Call):
                return self.eng.attr_kinds[e.attr]
        if isinstance(e, ast.IfExp):
            a, b = self.kind_of(e.body, env), self.kind_of(e.orelse, env)
            if a == b:
                return a
            if {a, b} <= {"ptr", "fnptr", "zero"}:
                return "ptr"
        if isinstance(e, ast.Call):
            hv = self.eng.helper_value(self.mf, e, self.fn if not isinstance(self.fn, ast.Module) else None)
            if hv is not None:
                return hv[0]
        return "unknown"

    def item_of(self, e, env):
        """argument expression -> item (kind, src, fnref|None)"""
        ref = self.mf.fn_ref(e)
        fr = None
        if ref and ref[1]:
            fr = (ref[0], ref[1])
        elif isinstance(e, ast.Name):
            v = env.get(e.id)
            if v is not None and v[0] == "fn":
                fr = (v[1], v[2])
        src = pf.src(e)
        if isinstance(e, ast.Call) and self.eng.expr_kind_simple(e) == "unknown":
            hv = self.eng.helper_value(self.mf, e, self.fn if not isinstance(self.fn, ast.Module) else None)
            if hv is not None and hv[1]:
                src = hv[1]  # the helper inlined: downstream rules read the array / count out of this text
        return (self.kind_of(e, env), src, fr)

    # -- transfer ------------------------------------------------------------
    def _kill(self, t, env):
        if isinstance(t, ast.Name):
            env[t.id] = UNKNOWN
        elif isinstance(t, (ast.Tuple, ast.List)):
            for el in t.elts:
                self._kill(el.value if isinstance(el, ast.Starred) else el, env)

    def transfer_env(self, node, env0):
        """-> list of successor environments"""
        env = dict(env0)
        a = node.ast
        if a is None:
            return [env]
        if node.kind == "iter":
            self._kill(a.target, env)
            return [env]
        if node.kind == "with":
            for it in a.items:
                if it.optional_vars is not None:
                    self._kill(it.optional_vars, env)
            return [env]
        if node.kind == "handler":
            if a.name:
                env[a.name] = UNKNOWN
            return [env]
        if node.kind != "stmt":
            if hasattr(a, "test"):
                for name in self._walrus(a.test):
                    env[name] = UNKNOWN
            return [env]
        outs = [env]
        if isinstance(a, ast.Assign) or (isinstance(a, ast.AnnAssign) and a.value is not None):
            targets = a.targets if isinstance(a, ast.Assign) else [a.target]
            vals = self.eval(a.value, env)
            outs = []
            for v in vals:
                e2 = dict(env)
                for t in targets:
                    if isinstance(t, ast.Name):
                        e2[t.id] = v
                    else:
                        self._kill(t, e2)
                outs.append(e2)
        elif isinstance(a, ast.AugAssign):
            if isinstance(a.target, ast.Name):
                cur = env.get(a.target.id, UNKNOWN)
                adds = self.eval(a.value, env)
                outs = []
                for ad in adds:
                    e2 = dict(env)
                    if isinstance(a.op, ast.Add) and cur[0] == "list" and ad[0] == "list" \
                            and len(cur[1]) + len(ad[1]) <= self.MAXLIST:
                        e2[a.target.id] = ("list", cur[1] + ad[1])
                    else:
                        e2[a.target.id] = UNKNOWN
                    outs.append(e2)
        elif isinstance(a, ast.Expr) and isinstance(a.value, ast.Call) and isinstance(a.value.func, ast.Attribute) \
                and isinstance(a.value.func.value, ast.Name) and a.value.func.value.id in env:
            name, meth = a.value.func.value.id, a.value.func.attr
            cur = env[name]
            if cur[0] == "list":
                if meth == "append" and len(a.value.args) == 1 and len(cur[1]) < self.MAXLIST:
                    env[name] = ("list", cur[1] + (self.item_of(a.value.args[0], env),))
                elif meth == "extend" and len(a.value.args) == 1:
                    outs = []
                    for ad in self.eval(a.value.args[0], env):
                        e2 = dict(env)
                        if ad[0] == "list" and len(cur[1]) + len(ad[1]) <= self.MAXLIST:
                            e2[name] = ("list", cur[1] + ad[1])
                        else:
                            e2[name] = UNKNOWN
                        outs.append(e2)
                elif meth == "insert" and len(a.value.args) == 2 and isinstance(a.value.args[0], ast.Constant) \
                        and isinstance(a.value.args[0].value, int) and len(cur[1]) < self.MAXLIST:
                    k = a.value.args[0].value
                    lst = list(cur[1])
                    lst.insert(k, self.item_of(a.value.args[1], env))
                    env[name] = ("list", tuple(lst))
                elif meth in ("append", "extend", "insert", "pop", "remove", "clear", "reverse", "sort"):
                    env[name] = UNKNOWN
        elif isinstance(a, (ast.Import, ast.ImportFrom)):
            for al in a.names:
                env[(al.asname or al.name).split(".")[0]] = UNKNOWN
        elif isinstance(a, (ast.FunctionDef, ast.AsyncFunctionDef, ast.ClassDef)):
            env[a.name] = UNKNOWN
        elif isinstance(a, ast.Delete):
            for t in a.targets:
                self._kill(t, env)
        for name in self._walrus(a):
            for e2 in outs:
                e2[name] = UNKNOWN
        return outs

    def _walrus(self, a):
        c = self.__dict__.setdefault("_walrus_cache", {})
        k = id(a)
        if k not in c:
            c[k] = [w.target.id for w in ast.walk(a)
                    if isinstance(w, ast.NamedExpr) and isinstance(w.target, ast.Name)]
        return c[k]

    @staticmethod
    def freeze(env):
        return frozenset((k, v) for k, v in env.items() if v != UNKNOWN)

    def widen(self, envs):
        """set of frozen envs -> at most MAXENV; beyond, merge to one env (disagreement -> UNKNOWN,
        which freeze() drops)"""
        if len(envs) <= self.MAXENV:
            return envs
        it = iter(envs)
        common = set(next(it))
        for e in it:
            common &= set(e)
        return frozenset([frozenset(common)])

    # -- run -----------------------------------------------------------------
    def run(self):
        fn = self.fn
        g = cfgm.CFG(_ModBody(fn) if isinstance(fn, ast.Module) else fn)
        ins = {g.entry.id: frozenset([self.freeze({})])}
        work = [g.entry.id]
        done_in = {}
        steps = 0
        while work:
            u = work.pop(0)
            steps += 1
            if steps > 50000:
                raise AnalysisError("data-flow did not converge in %s:%s" % (self.mf.rel, self.qual))
            cur = ins.get(u, frozenset())
            if done_in.get(u) == cur:
                continue
            done_in[u] = cur
            out = set()
            for fe in cur:
                for e2 in self.transfer_env(g.nodes[u], dict(fe)):
                    out.add(self.freeze(e2))
            out = self.widen(frozenset(out))
            for v in g.succ[u]:
                old = ins.get(v, frozenset())
                new = self.widen(old | out)
                if new != old:
                    ins[v] = new
                    if v not in work:
                        work.append(v)
        walker = pf.walk_no_nested(fn) if not isinstance(fn, ast.Module) else _walk_module_level(fn)
        for n in walker:
            if not isinstance(n, ast.Call):
                continue
            cn = g.stmt_of_expr(n)
            if cn is None or cn.id not in ins:
                continue  # unreachable code
            self.examine(n, [dict(fe) for fe in ins[cn.id]])

    def examine(self, call, envs):
        f = call.func
        how = None
        ref = self.mf.fn_ref(f)
        pairs = []  # (callee ref | None, arglist | None)
        cls_refs = None
        if ref is not None:
            how = "direct"
        elif isinstance(f, ast.Name):
            vals = {env.get(f.id, UNKNOWN) for env in envs}
            if any(v[0] == "fn" for v in vals):
                how = "variable"
            elif vals == {UNKNOWN} and self._is_pure_param(f.id):
                binds = self.eng.callers_binding(self.mf, self.fn, f.id)
                prefs = []
                other = False
                for _, e in binds:
                    r = self.mf.fn_ref(e)
                    if r and r[1]:
                        prefs.append(r)
                    else:
                        other = True
                if prefs:
                    how = "parameter"
                    cls_refs = [(self.mf, r) for r in sorted(set(prefs))] + ([None] if other else [])
        elif pf.is_self_attr(f):
            refs = self.eng.class_attr_refs(self.mf, pf.enclosing_class(self.fn), f.attr)
            if refs:
                how = "class-attr"
                cls_refs = sorted(set(refs), key=lambda x: x[1])
        if how is None:
            return
        site = CallSite(self.mf.rel, self.qual, call, how)
        seen = set()
        for env in envs:
            if how == "direct":
                callees = [(self.mf, ref)] if ref[1] else [None]
            elif how == "variable":
                v = env.get(f.id, UNKNOWN)
                callees = [(self.mf, (v[1], v[2]))] if v[0] == "fn" else [None]
            else:
                callees = cls_refs
            al = self.arglist(call, env)
            for c in callees:
                key = (c[1] if c else None, al)
                if key in seen:
                    continue
                seen.add(key)
                pairs.append((c, al))
        pairs.sort(key=lambda ca: (ca[0][1][1] if ca[0] else "", repr(ca[1])))
        site.pairs = pairs
        site.unresolved = any(c is None for c, _ in pairs)
        site.callees = sorted({c[1][1] for c, _ in pairs if c})
        par = getattr(call, "_parent", None)
        site.result_used = not isinstance(par, ast.Expr)
        self.eng.sites.append(site)

    def _is_pure_param(self, name):
        """`name` is a positional parameter of this function that is never re-bound in it"""
        fn = self.fn
        if isinstance(fn, ast.Module) or name not in [a.arg for a in fn.args.posonlyargs + fn.args.args]:
            return False
        for n in pf.walk_no_nested(fn):
            if isinstance(n, ast.Name) and n.id == name and isinstance(n.ctx, (ast.Store, ast.Del)):
                return False
        return True

    def arglist(self, call, env):
        if call.keywords:
            return None
        out = ()
        for a in call.args:
            if isinstance(a, ast.Starred):
                vs = self.eval(a.value, env)
                if len(vs) != 1 or vs[0][0] != "list":
                    return None
                out += vs[0][1]
            else:
                out += (self.item_of(a, env),)
        return out


def _uniq(xs):
    out = []
    for x in xs:
        if x not in out:
            out.append(x)
    return out


class _ModBody:
    """module-level statements as a pseudo function for the CFG builder"""

    def __init__(self, mod):
        self.body = mod.body


# ----------------------------------------------------------------------------
# judging a call site
# ----------------------------------------------------------------------------
EXTERNAL_DRIVERS = {
    # PySCF's libcgto drivers that the repo hands its own C functions to; position -> typedef name
    # declared in ciderpress/lib/mod_cider/pyscf_gto.h (a copy of PySCF's declarations)
    "GTOeval_sph_drv": {0: "FPtr_eval", 1: "FPtr_exp"},
    "GTOeval_cart_drv": {0: "FPtr_eval", 1: "FPtr_exp"},
    "GTOeval_loop": {1: "FPtr_eval", 2: "FPtr_exp"},
}


def restype_kind(text):
    if text is None:
        return None
    t = text.replace(" ", "")
    last = t.split(".")[-1]
    if last in ("c_void_p", "c_char_p", "c_wchar_p", "py_object") or "POINTER(" in t or last.endswith("_p"):
        return "ptr"
    if last in CT_INT32:
        return "int"
    if last in CT_INT64:
        return "long"
    if last == "c_double":
        return "double"
    if last == "c_float":
        return "float"
    if last == "None":
        return "void"
    return "unknown"


class Verdict:
    def __init__(self):
        self.violations = []  # (callee, text)
        self.notes = []
        self.unknown_args = []  # source texts
        self.checked = []  # callee names with a full comparison
        self.unavailable = []  # callee names whose C source cannot be parsed here
        self.unresolved = False
        self.fnptr_checked = 0


def judge_fnptr(eng, mf, ref, typedef_text, v, where):
    """a repo C function passed where the callee declares a function-pointer parameter"""
    proto = eng.c.lookup(ref[1], mf.handles.get(ref[0]))
    if proto is None:
        if eng.c.in_unparsed_source(ref[1]):
            v.unavailable.append(ref[1])
        else:
            v.violations.append((ref[1], "function %s passed as %s has no C definition in the sources of %s"
                                 % (ref[1], where, mf.handles.get(ref[0]))))
        return
    fp = eng.c.fnptr_params(typedef_text)
    if fp is None:
        return
    ret, ptypes = fp
    want = [eng.c.kind(t) for t in ptypes]
    have = [eng.c.kind(t) for _, t in proto.params]
    viol, notes = conform(want, have)
    v.fnptr_checked += 1
    for x in viol:
        v.violations.append((ref[1], "function pointer %s: %s is called through type `%s` but is defined as `%s`: %s"
                             % (where, ref[1], eng.c.resolve(typedef_text), proto.sig(), x)))
    rk, hk = eng.c.kind(ret), eng.c.kind(proto.ret)
    if rk != hk and not (rk == "void"):
        v.violations.append((ref[1], "function pointer %s: %s returns %s but is called through a type returning %s"
                             % (where, ref[1], proto.ret, ret)))


def judge(eng, site):
    """-> Verdict for one CallSite"""
    v = Verdict()
    for c, al in site.pairs:
        if c is None:
            v.unresolved = True
            continue
        mf, (h, name) = c
        libname = mf.handles.get(h)
        proto = eng.c.lookup(name, libname)
        if proto is None:
            if eng.c.in_unparsed_source(name):
                if name not in v.unavailable:
                    v.unavailable.append(name)
            else:
                v.violations.append((name, "no C definition of %s in the sources of %s (nor anywhere under "
                                           "ciderpress/lib): the attribute lookup on the library fails" % (name, libname)))
            continue
        if al is None:
            v.unresolved = True
            continue
        ck = [eng.c.kind(t) for _, t in proto.params]
        pk = [it[0] for it in al]
        viol, notes = conform(pk, ck)
        if viol:
            lay = "call passes (%s); C declares %s [%s:%d]" % (
                ", ".join(pk), proto.sig(), proto.rel, proto.line)
            v.violations.append((name, "; ".join(viol) + " -- " + lay))
        for n in notes:
            if (name, n) not in v.notes:
                v.notes.append((name, n))
        for i, it in enumerate(al):
            if it[0] == "unknown" and it[1] not in v.unknown_args:
                v.unknown_args.append(it[1])
            if it[2] is not None and i < len(proto.params) and ck[i] == "fnptr":
                judge_fnptr(eng, mf, it[2], proto.params[i][1], v,
                            "argument %d (%s) of %s" % (i + 1, proto.params[i][0], name))
        if name not in v.checked:
            v.checked.append(name)
        # return value
        rk = eng.c.kind(proto.ret)
        if site.result_used:
            rt = None
            org = mf.origin.get(h)
            for m2 in eng.modules.values():
                for (h2, f2), txt in m2.restypes.items():
                    if f2 == name and m2.origin.get(h2) == org:
                        rt = txt
            have = restype_kind(rt)
            if rk in ("ptr", "fnptr", "double", "float"):
                if rt is None:
                    v.violations.append((name, "%s returns `%s` and the result is used, but no restype is set on "
                                               "this library handle: ctypes converts the return register as a "
                                               "32-bit C int" % (name, proto.ret)))
                elif have not in ("unknown", None) and have != ("ptr" if rk in ("ptr", "fnptr") else rk):
                    v.violations.append((name, "%s returns `%s` but restype is %s" % (name, proto.ret, rt)))
            elif rk == "long" and rt is None:
                v.notes.append((name, "returns `%s`; without restype the value is truncated to 32 bits" % proto.ret))
            elif rk == "void" and have != "void":
                v.notes.append((name, "is declared void in C but its ctypes result (an undefined int) is used"))
    return v


def external_fnptr_sites(eng):
    """calls to a function of a library outside the repo (PySCF's libcgto) that pass a repo C function:
    -> [(ModuleFFI, qualname, call, driver name, [(index, ref)])]"""
    out = []
    for rel, mf in eng.modules.items():
        for fn in ast.walk(mf.mod.ast):
            if not isinstance(fn, (ast.FunctionDef, ast.AsyncFunctionDef)):
                continue
            ext = {}
            for n in pf.walk_no_nested(fn):
                if isinstance(n, ast.Assign) and len(n.targets) == 1 and isinstance(n.targets[0], ast.Name):
                    e = n.value
                    if isinstance(e, ast.Call) and isinstance(e.func, ast.Name) and e.func.id == "getattr" \
                            and len(e.args) == 2 and isinstance(e.args[0], ast.Name) \
                            and e.args[0].id not in mf.handles and isinstance(e.args[1], ast.Constant) \
                            and e.args[1].value in EXTERNAL_DRIVERS:
                        ext.setdefault(n.targets[0].id, set()).add(e.args[1].value)
            if not ext:
                continue
            binds = {}
            for n in pf.walk_no_nested(fn):
                if isinstance(n, ast.Assign) and len(n.targets) == 1 and isinstance(n.targets[0], ast.Name):
                    r = mf.fn_ref(n.value)
                    if r and r[1]:
                        binds.setdefault(n.targets[0].id, set()).add(r)
            for n in pf.walk_no_nested(fn):
                if isinstance(n, ast.Call) and isinstance(n.func, ast.Name) and n.func.id in ext:
                    for drv in sorted(ext[n.func.id]):
                        passed = []
                        for i, a in enumerate(n.args):
                            refs = set()
                            r = mf.fn_ref(a)
                            if r and r[1]:
                                refs.add(r)
                            elif isinstance(a, ast.Name):
                                refs |= binds.get(a.id, set())
                            for r in sorted(refs):
                                passed.append((i, r))
                        if passed:
                            out.append((mf, pf.qualname(fn), n, drv, passed))
    return out


def report(chk, eng, rule, sites, describe=True):
    """Emit obligations / violations / notes for the given call sites under rule id `rule`.
    -> dict of counters"""
    cnt = {"sites": 0, "direct": 0, "indirect": 0, "callee_alternatives": 0, "unknown_args": 0,
           "unavailable": 0, "unresolved": 0, "fnptr_checked": 0, "args_compared": 0}
    for s in sites:
        v = judge(eng, s)
        cnt["sites"] += 1
        cnt["direct" if s.how == "direct" else "indirect"] += 1
        cnt["callee_alternatives"] += len(s.pairs)
        cnt["unknown_args"] += len(v.unknown_args)
        cnt["fnptr_checked"] += v.fnptr_checked
        cnt["args_compared"] += sum(len(al) for c, al in s.pairs if c and al)
        where = "%s:%s" % (s.rel, s.func)
        callee_txt = pf.src(s.node.func)
        inst = "%s %s -> %s [%s]" % (where, callee_txt, "|".join(s.callees) or "?", s.how)
        seen = set()
        for name, txt in v.violations:
            key = (name, txt)
            if key in seen:
                continue
            seen.add(key)
            chk.violation(rule, s.rel, s.func, "%s -> %s" % (callee_txt, name), s.line, txt,
                          instance=inst + " " + name)
        for name, txt in v.notes:
            chk.note(rule, "%s:%d %s" % (s.rel, s.line, s.func), "%s: %s" % (name, txt))
        for a in v.unknown_args:
            chk.note(rule, "%s:%d %s" % (s.rel, s.line, s.func),
                     "argument `%s` of %s has no recognisable ctypes kind (not compared)" % (a, "|".join(s.callees)))
        if v.unavailable:
            cnt["unavailable"] += 1
            chk.note(rule, "%s:%d %s" % (s.rel, s.line, s.func),
                     "%s: defined only in MPI-dependent C sources that cannot be parsed here; not compared"
                     % ", ".join(v.unavailable))
        if v.unresolved:
            cnt["unresolved"] += 1
            chk.note(rule, "%s:%d %s" % (s.rel, s.line, s.func),
                     "callee or argument list of `%s(...)` is not fully resolvable (some path binds something "
                     "other than a library function / a literal list)" % callee_txt)
        if v.checked and not v.violations:
            chk.ok(rule, inst, nontrivial=True)
        elif not v.checked and not v.violations:
            chk.ok(rule + "-unchecked", inst, nontrivial=False)
    return cnt


# ----------------------------------------------------------------------------
# C side: which integer parameters act as a stride of which pointer parameter
# ----------------------------------------------------------------------------
def stride_params(tu, name):
    """{pointer param name: sorted int param names that multiply inside an index / pointer-offset
    expression rooted at that pointer (directly or through a local pointer initialised from it)}"""
    params = {p["id"]: (p.get("name"), p.get("type", {}).get("qualType", "")) for p in tu.params(name)}
    body = tu.body(name)
    if body is None:
        return {}

    def refs(n):
        return [x["referencedDecl"]["id"] for x in cfacts.walk(n)
                if x.get("kind") == "DeclRefExpr" and x.get("referencedDecl")]

    def mult_ints(n):
        """integer parameters that are a direct factor of a product"""
        out = set()
        for x in cfacts.walk(n):
            if x.get("kind") == "BinaryOperator" and x.get("opcode") == "*":
                for op in cfacts.kids(x):
                    op = cfacts.strip(op)
                    if op.get("kind") == "DeclRefExpr" and op.get("referencedDecl"):
                        r = op["referencedDecl"]["id"]
                        if r in params and "*" not in params[r][1] and "[" not in params[r][1]:
                            out.add(r)
        return out

    alias, rel = {}, {}
    for n in cfacts.walk(body):
        if n.get("kind") == "VarDecl" and "*" in n.get("type", {}).get("qualType", ""):
            rs = refs(n)
            base = [r for r in rs if r in params and "*" in params[r][1]] + [alias[r] for r in rs if r in alias]
            if base:
                alias[n["id"]] = base[0]
                rel.setdefault(base[0], set()).update(mult_ints(n))
    for n in cfacts.walk(body):
        if n.get("kind") == "ArraySubscriptExpr":
            k = cfacts.kids(n)
            if len(k) < 2:
                continue
            b = refs(k[0])
            base = [r for r in b if r in params and "*" in params[r][1]] + [alias[r] for r in b if r in alias]
            if base:
                rel.setdefault(base[0], set()).update(mult_ints(k[1]) | mult_ints(k[0]))
    return {params[k][0]: sorted(params[i][0] for i in v) for k, v in rel.items() if v}


def extent_params(tu, name):
    """{pointer parameter: integer parameter N} when the C body subscripts the pointer parameter itself directly
    with the induction variable of a loop `for (i = ...; i < N; ...)` whose bound is the integer parameter N:
    the function touches exactly elements [0, N) of that array along its leading index."""
    params = {p["id"]: (p.get("name"), p.get("type", {}).get("qualType", "")) for p in tu.params(name)}
    body = tu.body(name)
    out = {}
    if body is None:
        return out

    def visit(n, loops):
        k = n.get("kind")
        if k == "ForStmt":
            raw = [c for c in (n.get("inner") or []) if isinstance(c, dict)]
            if len(raw) == 5:
                init, _, cond, inc, bod = raw
                var = None
                for x in cfacts.walk(init) if init.get("kind") else ():
                    if x.get("kind") == "VarDecl":
                        var = x.get("id")
                        break
                    if x.get("kind") == "BinaryOperator" and x.get("opcode") == "=":
                        t = cfacts.strip(cfacts.kids(x)[0])
                        if t.get("kind") == "DeclRefExpr":
                            var = t["referencedDecl"]["id"]
                        break
                bound = None
                if cond.get("kind") == "BinaryOperator" and cond.get("opcode") == "<":
                    ck = cfacts.kids(cond)
                    l, r = cfacts.strip(ck[0]), cfacts.strip(ck[1])
                    if l.get("kind") == "DeclRefExpr" and l["referencedDecl"]["id"] == var \
                            and r.get("kind") == "DeclRefExpr" and r["referencedDecl"]["id"] in params \
                            and "*" not in params[r["referencedDecl"]["id"]][1]:
                        bound = r["referencedDecl"]["id"]
                new = loops + ([(var, bound)] if var is not None and bound is not None else [])
                visit(bod, new)
                return
        if k == "ArraySubscriptExpr":
            ks = cfacts.kids(n)
            b, i = cfacts.strip(ks[0]), cfacts.strip(ks[1])
            if b.get("kind") == "DeclRefExpr" and b["referencedDecl"]["id"] in params \
                    and i.get("kind") == "DeclRefExpr":
                for var, bound in loops:
                    if i["referencedDecl"]["id"] == var:
                        out.setdefault(params[b["referencedDecl"]["id"]][0], set()).add(params[bound][0])
        for c in cfacts.kids(n):
            if c.get("kind") == "CapturedStmt":
                cd = cfacts.kids(c)
                if cd and cd[0].get("kind") == "CapturedDecl" and cfacts.kids(cd[0]):
                    visit(cfacts.kids(cd[0])[0], loops)
                return
            visit(c, loops)

    visit(body, [])
    return {p: sorted(v)[0] for p, v in out.items() if len(v) == 1}


def clamp_params(tu, name):
    """C functions that bound an array in place: a pointer parameter P is stored to at a loop index and the function
    compares (a value read from) the array with an integer parameter N that is not a loop bound, e.g.
        di = P[g]; cond = di < N; P[g] = cond ? di : N - eps;
    -> (sorted pointer parameter names written in place, N) or None"""
    params = {p["id"]: (p.get("name"), p.get("type", {}).get("qualType", "")) for p in tu.params(name)}
    body = tu.body(name)
    if body is None:
        return None
    bounds, stored, read = set(), set(), set()
    cmp_ints = set()
    for n in cfacts.walk(body):
        k = n.get("kind")
        if k == "ForStmt":
            raw = [c for c in (n.get("inner") or []) if isinstance(c, dict)]
            if len(raw) == 5 and raw[2].get("kind"):
                for x in cfacts.walk(raw[2]):
                    if x.get("kind") == "DeclRefExpr" and x["referencedDecl"]["id"] in params:
                        bounds.add(x["referencedDecl"]["id"])
        if k == "BinaryOperator" and n.get("opcode") == "=":
            t = cfacts.strip(cfacts.kids(n)[0])
            if t.get("kind") == "ArraySubscriptExpr":
                b = cfacts.strip(cfacts.kids(t)[0])
                if b.get("kind") == "DeclRefExpr" and b["referencedDecl"]["id"] in params:
                    stored.add(b["referencedDecl"]["id"])
            for x in cfacts.walk(cfacts.kids(n)[1]):
                if x.get("kind") == "ArraySubscriptExpr":
                    b = cfacts.strip(cfacts.kids(x)[0])
                    if b.get("kind") == "DeclRefExpr" and b["referencedDecl"]["id"] in params:
                        read.add(b["referencedDecl"]["id"])
        if k == "BinaryOperator" and n.get("opcode") in ("<", ">", "<=", ">="):
            for side in cfacts.kids(n):
                s_ = cfacts.strip(side)
                if s_.get("kind") == "DeclRefExpr" and s_["referencedDecl"]["id"] in params \
                        and "*" not in params[s_["referencedDecl"]["id"]][1]:
                    cmp_ints.add(s_["referencedDecl"]["id"])
    ns = [i for i in cmp_ints if i not in bounds]
    ps = sorted(params[i][0] for i in stored & read)
    if len(ns) == 1 and ps:
        return ps, params[ns[0]][0]
    return None
