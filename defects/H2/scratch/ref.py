import sys
sys.path.insert(0, '/tmp/hunt/H2/hunt_out/common')
import shim
import numpy as np
from scipy.special import erf
from pyscf import gto, dft
from pyscf.dft.gen_grid import Grids
from ciderpress.dft.settings import *
from ciderpress.pyscf.analyzers import RHFAnalyzer, UHFAnalyzer
from ciderpress.pyscf.descriptors import get_descriptors, get_full_rho
from pyscf.dft.numint import NumInt

CFC_ = (3.0 / 10) * (3 * np.pi**2) ** (2.0 / 3)

def expnt(rho_data, params, level):
    """doc formula: pi (n/2)^(2/3) [A + B sigma/(8 n tau0) + C (tau/tau0 - 1)]"""
    n = np.maximum(rho_data[0], 1e-30)
    sigma = np.einsum('xg,xg->g', rho_data[1:4], rho_data[1:4])
    tau0 = CFC_ * n ** (5.0 / 3)
    conv = 1.2 * (6 * np.pi**2) ** (2.0 / 3) / np.pi
    A = params[0]
    B = params[1] * conv
    res = A + B * sigma / (8 * n * tau0)
    if level == 'MGGA':
        C = params[2] * conv
        res += C * (rho_data[4] / tau0 - 1)
    return np.pi * (n / 2) ** (2.0 / 3) * res

class _Grids:
    def __init__(self, mol, coords):
        self.mol = mol
        self.coords = coords
        self.non0tab = None
        self.cutoff = 0
        self.weights = np.ones(coords.shape[0])

def reference(mol, dm, settings, coords, level=4):
    """dm: full spin-summed density matrix for which features are defined"""
    ni = NumInt()
    g = Grids(mol); g.level = level; g.prune=None; g.build()
    rin = get_full_rho(ni, mol, dm, g, 'MGGA')[0]
    rout = get_full_rho(ni, mol, dm, _Grids(mol, coords), 'MGGA')[0]
    lvl = settings.sl_level
    a0p = expnt(rin, settings.theta_params, lvl)
    f = rin[0] * g.weights
    if settings.rho_mult == 'expnt':
        f = f * a0p
    D = g.coords[None, :, :] - coords[:, None, :]  # (out, in, 3)  r' - r
    R2 = np.einsum('oix,oix->oi', D, D)
    feats = []
    ver = settings.version
    if 'j' in ver:
        for spec, p in zip(settings.feat_specs, settings.feat_params):
            ai = expnt(rout, p, lvl)
            K = np.exp(-(ai[:, None] + a0p[None, :]) * R2)
            if spec == 'se':
                pass
            elif spec == 'se_ar2':
                K = K * ai[:, None] * R2
            elif spec == 'se_a2r4':
                K = K * (ai[:, None] * R2) ** 2
            elif spec == 'se_erf_rinv':
                x = np.sqrt(p[-1] * ai[:, None] * R2) + 1e-16
                K = K * erf(x) / x * np.sqrt(np.pi) / 2
            feats.append(K.dot(f))
    if ver == 'k':
        for p in settings.feat_params:
            ai = expnt(rout, p, lvl)
            K = np.exp(-ai[:, None] * R2) * np.exp(-1.5 * a0p[None, :] / ai[:, None])
            feats.append(K.dot(f))
    if 'i' in ver:
        K0 = np.exp(-a0p[None, :] * R2)
        a = a0p[None, :]
        for spec in settings.l0_feat_specs:
            if spec == 'se':
                K = K0
            elif spec == 'se_r2':
                K = K0 * R2
            elif spec == 'se_apr2':
                K = K0 * R2 * a
            elif spec == 'se_ap':
                K = K0 * a
            elif spec == 'se_ap2r2':
                K = K0 * a * a * R2
            elif spec == 'se_lapl':
                K = K0 * (4 * a * a * R2 - 2 * a)
            feats.append(K.dot(f))
        vecs = []
        for spec in settings.l1_feat_specs:
            if spec == 'se_grad':
                K = K0 * a
            else:
                K = K0
            vecs.append(np.einsum('oi,oix,i->xo', K, D, f))
        vecs.append(rout[1:4])
        for j, k in settings.l1_feat_dots:
            feats.append(np.einsum('xo,xo->o', vecs[j], vecs[k]))
    return np.array(feats)
