"""Rule helpers shared by the Kohn-Sham interface checks (C01, C17): feature-family guard recognition,
must-pass-through of `raise NotImplementedError` guards across a generator boundary, forward def-use
slicing inside one integrator function, and the one-half convention on the weighted potential.

Pure ast + sa.cfg; nothing is executed."""
import ast

from sa import cfg as cfgm
from sa import pyfacts as pf
from sa.core import AnalysisError

FAMILIES = {"sdmx": ("has_sdmx", "sdmx_settings"), "nlof": ("has_nlof", "nlof_settings"),
            "nldf": ("has_nldf", "nldf_settings"), "sl": ("has_sl", "sl_settings")}


def family_test(t):
    """-> (family, present: bool) when `t` tests the presence of one feature family with the repo's idioms:
    `X.has_<fam>`, `[not] X.<fam>_settings.is_empty`; else None."""
    pol = True
    while isinstance(t, ast.UnaryOp) and isinstance(t.op, ast.Not):
        t = t.operand
        pol = not pol
    if isinstance(t, ast.Attribute):
        for fam, (flag, sett) in FAMILIES.items():
            if t.attr == flag:
                return fam, pol
            if t.attr == "is_empty" and isinstance(t.value, ast.Attribute) and t.value.attr == sett:
                return fam, not pol
    return None


def raises_not_implemented(stmts):
    if not stmts:
        return False
    last = stmts[-1]
    if isinstance(last, ast.Raise) and last.exc is not None:
        e = last.exc.func if isinstance(last.exc, ast.Call) else last.exc
        return pf.src(e) == "NotImplementedError"
    if isinstance(last, ast.If) and last.orelse:
        return raises_not_implemented(last.body) and raises_not_implemented(last.orelse)
    return False


def _present_when_true(t, fam, pol=True):
    """the test being true (pol) / false (not pol) is implied by `fam` features being present:
    `A or B` is true when A is; `not (absentA and absentB)` likewise (De Morgan)"""
    while isinstance(t, ast.UnaryOp) and isinstance(t.op, ast.Not):
        t, pol = t.operand, not pol
    if isinstance(t, ast.BoolOp):
        if isinstance(t.op, ast.Or) and pol:
            return any(_present_when_true(v, fam, True) for v in t.values)
        if isinstance(t.op, ast.And) and not pol:
            return any(_present_when_true(v, fam, False) for v in t.values)
        return False
    ft = family_test(t)
    return ft is not None and ft[0] == fam and ft[1] == pol


def is_guard(ifnode, fam):
    """`if <fam present [or ...]>: raise NotImplementedError`, or `if <fam absent [and ...]>: ... else: raise
    NotImplementedError`"""
    if _present_when_true(ifnode.test, fam, True) and raises_not_implemented(ifnode.body):
        return True
    if _present_when_true(ifnode.test, fam, False) and ifnode.orelse and raises_not_implemented(ifnode.orelse):
        return True
    return False


def _guard_helper(node, fam, top, depth=0):
    """the statement calls a same-module function / self-method that executes a guard for `fam` on every normal
    path (one level of helper extraction: `_check_supported(ni)`)"""
    if node.kind != "stmt" or not isinstance(node.ast, (ast.Expr, ast.Assign)) or depth > 1:
        return False
    mod = top
    while pf.parent(mod) is not None:
        mod = pf.parent(mod)
    for c in ast.walk(node.ast):
        if not isinstance(c, ast.Call):
            continue
        name = c.func.id if isinstance(c.func, ast.Name) else (
            c.func.attr if isinstance(c.func, ast.Attribute) and isinstance(c.func.value, ast.Name)
            and c.func.value.id == "self" else None)
        if name is None:
            continue
        for h in ast.walk(mod):
            if isinstance(h, ast.FunctionDef) and h.name == name and h is not top:
                g = cfgm.CFG(h)
                ok, _w = g.must_pass(lambda n: (n.kind == "test" and isinstance(n.ast, ast.If) and is_guard(n.ast, fam))
                                     or _guard_helper(n, fam, h, depth + 1))
                if ok:
                    return True
    return False


def local_generators(fn):
    out = {}
    for n in ast.walk(fn):
        if isinstance(n, (ast.FunctionDef, ast.AsyncFunctionDef)) and n is not fn:
            if any(isinstance(y, (ast.Yield, ast.YieldFrom)) for y in pf.walk_no_nested(n)):
                out[n.name] = n
    return out


def calls_named(fn, attr, nested=True):
    it = ast.walk(fn) if nested else pf.walk_no_nested(fn)
    return [n for n in it if isinstance(n, ast.Call) and isinstance(n.func, ast.Attribute) and n.func.attr == attr]


def guard_passes(fn, target, fam):
    """Every path from the entry of `fn` to the expression `target` (possibly inside a generator defined in
    fn and iterated by fn) goes through the test of a guard for `fam`.  -> (ok, description of a bypass)"""
    scope = pf.enclosing_func(target)
    g = cfgm.CFG(scope)
    tn = g.stmt_of_expr(target)
    if tn is None:
        raise AnalysisError("cannot place `%s` in the CFG of %s" % (pf.src(target)[:40], scope.name))

    def pred(n):
        return (n.kind == "test" and isinstance(n.ast, ast.If) and is_guard(n.ast, fam)) or _guard_helper(n, fam, fn)

    ok, wit = g.must_pass(pred, dst=tn.id)
    if ok:
        return True, None
    if scope is fn:
        return False, _witness(g, wit)
    # inside a generator: all iteration sites in fn must be guarded
    go = cfgm.CFG(fn)
    sites = [n for n in pf.walk_no_nested(fn) if isinstance(n, ast.Call) and isinstance(n.func, ast.Name)
             and n.func.id == scope.name]
    if not sites:
        raise AnalysisError("%s: generator %s is never iterated" % (fn.name, scope.name))
    for s in sites:
        sn = go.stmt_of_expr(s)
        ok2, wit2 = go.must_pass(pred, dst=sn.id)
        if not ok2:
            return False, _witness(go, wit2) + " -> %s() -> " % scope.name + _witness(g, wit)
    return True, None


def _witness(g, path):
    if not path:
        return ""
    lines = [str(getattr(g.nodes[p].ast, "lineno", "")) for p in path if g.nodes[p].ast is not None]
    return "lines " + ",".join(lines[:12]) + ("..." if len(lines) > 12 else "")


# ----------------------------------------------------------------------------
# forward slicing (def-use) inside one function, across its local generators
# ----------------------------------------------------------------------------
def _names(e):
    return {n.id for n in ast.walk(e) if isinstance(n, ast.Name)}


def _store_names(t):
    """names (re)defined or whose storage is updated by assigning to target t"""
    out = set()
    if isinstance(t, ast.Name):
        out.add(t.id)
    elif isinstance(t, (ast.Tuple, ast.List)):
        for e in t.elts:
            out |= _store_names(e)
    elif isinstance(t, (ast.Subscript, ast.Attribute, ast.Starred)):
        b = pf.base_name(t)
        if b:
            out.add(b)
    return out


class Slice:
    """Flow-insensitive forward slice of a set of seed names within fn (nested generators included; a
    tainted value yielded at tuple position k taints the k-th target of the loops that iterate the generator).
    Records the statements through which the taint flows."""

    def __init__(self, fn, seeds, seed_stmt=None):
        self.fn = fn
        self.tainted = set(seeds)
        self.flow = []  # statements (Assign/AugAssign/For) that propagated taint
        gens = local_generators(fn)
        changed = True
        seen = set()
        while changed:
            changed = False
            for n in ast.walk(fn):
                new = set()
                if isinstance(n, ast.Assign):
                    if n is seed_stmt:
                        continue
                    if _names(n.value) & self.tainted:
                        for t in n.targets:
                            new |= _store_names(t)
                elif isinstance(n, ast.AugAssign):
                    if _names(n.value) & self.tainted:
                        new |= _store_names(n.target)
                elif isinstance(n, ast.For) and isinstance(n.iter, ast.Call) and isinstance(n.iter.func, ast.Name) \
                        and n.iter.func.id in gens:
                    gen = gens[n.iter.func.id]
                    tg = n.target.elts if isinstance(n.target, (ast.Tuple, ast.List)) else [n.target]
                    for y in pf.walk_no_nested(gen):
                        if isinstance(y, ast.Yield) and y.value is not None:
                            ys = y.value.elts if isinstance(y.value, ast.Tuple) else [y.value]
                            for k, e in enumerate(ys):
                                if k < len(tg) and _names(e) & self.tainted:
                                    new |= _store_names(tg[k])
                if new - self.tainted or (new and id(n) not in seen):
                    if id(n) not in seen:
                        seen.add(id(n))
                        self.flow.append(n)
                    if new - self.tainted:
                        self.tainted |= new
                        changed = True

    def reaches_call(self, pred):
        """calls c with pred(c) having a tainted name among the arguments"""
        out = []
        for n in ast.walk(self.fn):
            if isinstance(n, ast.Call) and pred(n):
                args = list(n.args) + [k.value for k in n.keywords]
                if any(_names(a) & self.tainted for a in args):
                    out.append(n)
        return out


def unpack_of_eval_xc(fn):
    """all `exc, (vxc, vxc_nldf, vxc_sdmx) = <ni>.eval_xc_cider(...)[:2]` statements of fn (nested included),
    also when the triple is unpacked by a following statement (`exc, v = ...; vxc, vxc_nldf, vxc_sdmx = v`)
    -> list of (assign stmt, call, exc target, [three Name targets])"""
    out = []
    for n in ast.walk(fn):
        if isinstance(n, ast.Assign) and len(n.targets) == 1:
            calls = [c for c in ast.walk(n.value) if isinstance(c, ast.Call) and isinstance(c.func, ast.Attribute)
                     and c.func.attr == "eval_xc_cider"]
            if not calls:
                continue
            t = n.targets[0]
            if not (isinstance(t, ast.Tuple) and len(t.elts) >= 2):
                raise AnalysisError("%s: unrecognised unpacking of eval_xc_cider: %s" % (fn.name, pf.src(t)))
            trip = t.elts[1]
            if isinstance(trip, ast.Name):
                # look for the statement that takes the triple apart
                scope = pf.enclosing_func(n) or fn
                nxt = [m for m in pf.walk_no_nested(scope) if isinstance(m, ast.Assign) and isinstance(m.value, ast.Name)
                       and m.value.id == trip.id and isinstance(m.targets[0], ast.Tuple)]
                if len(nxt) != 1:
                    raise AnalysisError("%s: the potentials returned by eval_xc_cider are not unpacked: %s" % (
                        fn.name, pf.src(t)))
                trip = nxt[0].targets[0]
            if not (isinstance(trip, ast.Tuple) and len(trip.elts) == 3 and all(isinstance(x, ast.Name) for x in trip.elts)):
                raise AnalysisError("%s: unrecognised unpacking of eval_xc_cider: %s" % (fn.name, pf.src(t)))
            out.append((n, calls[0], t.elts[0], list(trip.elts)))
    for c in calls_named(fn, "eval_xc_cider"):
        if not any(c is x[1] for x in out):
            raise AnalysisError("%s: an eval_xc_cider call whose result is not unpacked as "
                                "`exc, (vxc, vxc_nldf, vxc_sdmx)`" % fn.name)
    return out


def weight_names(fn):
    """names bound to quadrature weights: the `weight` position of block_loop / extra_block_loop /
    grids_response_cc / grids_noresponse_cc tuples"""
    out = set()
    for n in ast.walk(fn):
        if not isinstance(n, ast.For):
            continue
        it = n.iter
        if isinstance(it, ast.Call) and pf.call_name(it) == "enumerate" and it.args:
            inner = it.args[0]
            tg = n.target.elts[1] if isinstance(n.target, ast.Tuple) and len(n.target.elts) == 2 else None
        else:
            inner, tg = it, n.target
        cn = pf.call_name(inner) or ""
        last = cn.split(".")[-1]
        pos = {"block_loop": 2, "extra_block_loop": 1, "grids_response_cc": 1, "grids_noresponse_cc": 1}.get(last)
        if pos is None or cn == "block_loop":
            continue  # the local generator wrapper re-yields; handled by the name it yields
        if isinstance(tg, ast.Tuple) and pos < len(tg.elts) and isinstance(tg.elts[pos], ast.Name):
            out.add(tg.elts[pos].id)
    return out


# ----------------------------------------------------------------------------
# the one-half convention in the gradient functions
# ----------------------------------------------------------------------------
def _is_half(v, div=False):
    if isinstance(v, ast.Constant):
        return v.value == (2 if div else 0.5)
    if not div and isinstance(v, ast.BinOp) and isinstance(v.op, ast.Div) and isinstance(v.left, ast.Constant) \
            and isinstance(v.right, ast.Constant):
        return v.left.value == 1 and v.right.value == 2
    return False


def _half_stmt(st, var, row, spin=False):
    """`var[row] *= 0.5` (spin=False) or `var[:, row] *= 0.5` (spin=True: var carries a leading spin axis), and
    the equivalent spellings `/= 2`, `*= 1 / 2`, `x = x * 0.5`, `x = 0.5 * x`, `x = x / 2`"""
    tgt = None
    if isinstance(st, ast.AugAssign) and isinstance(st.target, ast.Subscript):
        if (isinstance(st.op, ast.Mult) and _is_half(st.value)) or (isinstance(st.op, ast.Div) and _is_half(st.value, True)):
            tgt = st.target
    elif isinstance(st, ast.Assign) and len(st.targets) == 1 and isinstance(st.targets[0], ast.Subscript) \
            and isinstance(st.value, ast.BinOp):
        t, v = st.targets[0], st.value
        ts = pf.src(t)
        if isinstance(v.op, ast.Mult) and ((pf.src(v.left) == ts and _is_half(v.right)) or (
                pf.src(v.right) == ts and _is_half(v.left))):
            tgt = t
        elif isinstance(v.op, ast.Div) and pf.src(v.left) == ts and _is_half(v.right, True):
            tgt = t
    if tgt is None or not (isinstance(tgt.value, ast.Name) and tgt.value.id == var):
        return False
    sl = tgt.slice
    if isinstance(sl, ast.Constant):
        return (not spin) and sl.value == row
    if spin and isinstance(sl, ast.Tuple) and len(sl.elts) == 2 and isinstance(sl.elts[0], ast.Slice) \
            and sl.elts[0].lower is None and sl.elts[0].upper is None and isinstance(sl.elts[1], ast.Constant):
        return sl.elts[1].value == row
    return False


def half_sites(fn, sink_attr, arg_pos):
    """For each call `<x>.<sink_attr>(...)`/`<sink_attr>(...)` in fn: the base name of the wv argument and
    how many times its row 0 (resp. the row passed for tau) is halved in the enclosing loop body before it."""
    out = []
    for n in ast.walk(fn):
        if not isinstance(n, ast.Call):
            continue
        cn = pf.call_name(n) or ""
        if cn.split(".")[-1] != sink_attr or len(n.args) <= arg_pos:
            continue
        out.append(n)
    return out


def count_halvings(call, var, row, spin=False):
    """halvings of var[row] that are executed exactly once per evaluation of `call`: statements of the
    enclosing loop body (or function body) at any nesting level whose conditions also hold at the call, and
    that precede the call."""
    loop = pf.parent(call)
    while loop is not None and not isinstance(loop, (ast.For, ast.While, ast.FunctionDef)):
        loop = pf.parent(loop)
    cconds = {(pf.src(t), p) for t, p, _k in cfgm.conditions_at(call, stop=loop)}
    n_before = 0
    others = []
    for st in ast.walk(loop):
        if _half_stmt(st, var, row, spin):
            # skip halvings that belong to an inner loop not containing the call
            p = pf.parent(st)
            inner = False
            while p is not None and p is not loop:
                if isinstance(p, (ast.For, ast.While)) and not any(a is p for a in _anc(call)):
                    inner = True
                p = pf.parent(p)
            sconds = {(pf.src(t), p2) for t, p2, _k in cfgm.conditions_at(st, stop=loop)}
            if not inner and sconds <= cconds and st.lineno < call.lineno:
                n_before += 1
            else:
                others.append(st)
    # the potential may come out of a local generator already halved: count the halvings of the yielded
    # name inside the generator as well
    if isinstance(loop, ast.For) and isinstance(loop.iter, ast.Call) and isinstance(loop.iter.func, ast.Name):
        fn = loop
        while fn is not None and not isinstance(fn, ast.FunctionDef):
            fn = pf.parent(fn)
        top = fn
        while top is not None and isinstance(pf.enclosing_func(top), ast.FunctionDef):
            top = pf.enclosing_func(top)
        gen = local_generators(top).get(loop.iter.func.id) if top is not None else None
        tg = loop.target.elts if isinstance(loop.target, (ast.Tuple, ast.List)) else [loop.target]
        pos = [k for k, t in enumerate(tg) if isinstance(t, ast.Name) and t.id == var]
        if gen is not None and pos:
            for y in pf.walk_no_nested(gen):
                if isinstance(y, ast.Yield) and isinstance(y.value, ast.Tuple) and pos[0] < len(y.value.elts) \
                        and isinstance(y.value.elts[pos[0]], ast.Name):
                    yv = y.value.elts[pos[0]].id
                    yl = pf.parent(y)
                    while yl is not None and not isinstance(yl, (ast.For, ast.While, ast.FunctionDef)):
                        yl = pf.parent(yl)
                    yconds = {(pf.src(t), p) for t, p, _k in cfgm.conditions_at(y, stop=yl)} | cconds
                    for st in ast.walk(yl):
                        if _half_stmt(st, yv, row, spin) and st.lineno < y.lineno:
                            sconds = {(pf.src(t), p2) for t, p2, _k in cfgm.conditions_at(st, stop=yl)}
                            if sconds <= yconds:
                                n_before += 1
                    break
    return n_before, others


def _anc(n):
    p = pf.parent(n)
    while p is not None:
        yield p
        p = pf.parent(p)


def half_rule(chk, rule, tree, rels_names):
    """shared with C01: the density row (and tau row) of the weighted potential is halved exactly once"""
    for rel, name in rels_names:
        rel, fn = locate(tree, rel, name)
        sites = 0
        for sink, pos, row in (("_gga_grad_sum_", 3, 0), ("_tau_grad_dot_", 3, 4)):
            for c in half_sites(fn, sink, pos):
                a = c.args[pos]
                spin = False
                var = None
                if isinstance(a, ast.Name):
                    var = a.id
                elif isinstance(a, ast.Subscript) and isinstance(a.value, ast.Name):
                    var = a.value.id
                    sl = a.slice
                    if row == 0:
                        # wv[:4] (rows) or wv[s] (spin channel)
                        spin = isinstance(sl, ast.Constant)
                    else:
                        # wv[4] (row) or wv[s, 4]
                        if isinstance(sl, ast.Tuple):
                            spin = True
                            if not (len(sl.elts) == 2 and isinstance(sl.elts[1], ast.Constant) and sl.elts[1].value == 4):
                                var = None
                        elif not (isinstance(sl, ast.Constant) and sl.value == 4):
                            var = None
                if var is None:
                    raise AnalysisError("%s:%s: unrecognised potential argument %s of %s" % (
                        rel, name, pf.src(a), sink))
                n, others = count_halvings(c, var, row, spin)
                sites += 1
                inst = "%s:%s %s(..., %s, ...) row %d halved once" % (rel, name, sink, pf.src(a), row)
                if n == 1:
                    chk.ok(rule, inst)
                else:
                    chk.violation(rule, rel, name, "%s(%s, ..., %s)" % (sink, pf.src(c.args[0]), pf.src(a)), c.lineno,
                                  "the %s row of `%s` is multiplied by 0.5 %d time(s) before this call (expected "
                                  "exactly once: the factor 1/2 that turns the one-sided derivative contraction into "
                                  "the symmetrised one)" % ("density" if row == 0 else "tau", var, n), instance=inst)
        if sites == 0:
            raise AnalysisError("%s:%s: no _gga_grad_sum_ call found" % (rel, name))


# ----------------------------------------------------------------------------
# locating anchors: a function moved to another module and re-imported, or a method moved to a base class /
# mixin, is still the same anchor
# ----------------------------------------------------------------------------
def _repo_rel(tree, modname):
    for cand in (modname.replace(".", "/") + ".py", modname.replace(".", "/") + "/__init__.py"):
        if tree.exists(cand):
            return cand
    return None


def locate(tree, rel, qual, _depth=0):
    """-> (rel where it is defined, FunctionDef).  `qual` is 'func' or 'Class.method'.  Follows `from m import
    name` re-exports for functions and classes, and the MRO (repo classes) for methods."""
    mod = pf.Module(tree, rel)
    if "." not in qual:
        if qual in mod.functions:
            return rel, mod.functions[qual]
        if qual in mod.imports and _depth < 3:
            m, n = mod.imports[qual]
            r2 = _repo_rel(tree, m) if n else None
            if r2:
                return locate(tree, r2, n, _depth + 1)
        # bound as a class attribute elsewhere in the module?  no: report it
        raise AnalysisError("anchor function %s vanished from %s" % (qual, rel))
    cname, mname = qual.split(".", 1)
    if cname not in mod.classes:
        if cname in mod.imports and _depth < 3:
            m, n = mod.imports[cname]
            r2 = _repo_rel(tree, m) if n else None
            if r2:
                return locate(tree, r2, "%s.%s" % (n, mname), _depth + 1)
        raise AnalysisError("anchor class %s vanished from %s" % (cname, rel))
    rels = [rel]
    for m, n in mod.imports.values():
        r2 = _repo_rel(tree, m) if m.startswith("ciderpress") else None
        if r2 and r2 not in rels:
            rels.append(r2)
    prog = pf.Program(tree, rels)
    pm = prog.module(rel)
    r = prog.find_method(pm, pm.classes[cname], mname)
    if r is None:
        raise AnalysisError("anchor method %s vanished from %s (also not found through the MRO)" % (qual, rel))
    return r[0].rel, r[2]


# ----------------------------------------------------------------------------
# spin-slot mirror symmetry of the unrestricted integrators / gradients
# ----------------------------------------------------------------------------
_SPIN_PAIRS = {"a": "b", "b": "a", "alpha": "beta", "beta": "alpha", "up": "dn", "dn": "up", "down": "up"}
_SPIN_CH0 = {"a", "alpha", "up"}


def _spin_flip(name, idents):
    """(partner identifier, channel of `name`) when swapping one spin tag of `name` (a token a/b, alpha/beta,
    up/dn, or a token ending in a/b such as rhoa, wvb, dma) gives another identifier of the same function"""
    if name.endswith(("__0", "__1")):  # elements of a 2-tuple split by sa.unroll
        n2 = name[:-1] + ("1" if name[-1] == "0" else "0")
        return (n2, int(name[-1])) if n2 in idents else None
    toks = name.split("_")
    out = []
    for i, t in enumerate(toks):
        cand = None
        if t in _SPIN_PAIRS:
            cand = (_SPIN_PAIRS[t], 0 if t in _SPIN_CH0 else 1)
        elif len(t) > 1 and t[-1] in "ab":
            cand = (t[:-1] + ("b" if t[-1] == "a" else "a"), 0 if t[-1] == "a" else 1)
        if cand:
            n2 = "_".join(toks[:i] + [cand[0]] + toks[i + 1:])
            if n2 in idents and n2 != name:
                out.append((n2, cand[1]))
    return out[0] if len(out) == 1 else None


def _first_index(sub):
    f = sub.slice.elts[0] if isinstance(sub.slice, ast.Tuple) and sub.slice.elts else sub.slice
    if isinstance(f, ast.Constant) and isinstance(f.value, int) and not isinstance(f.value, bool):
        return f
    return None


def spin_context(fns):
    """per function: (spin-tagged names -> (partner, channel), arrays whose FIRST axis is the spin channel).
    Evidence for a spin-first array: literal first indices are exactly {0, 1} in some analysed function of the
    module, or it is allocated with a leading 2, or it is the argument of _format_uks_dm.  Tagged arrays
    (wva/wvb) and arrays only ever indexed with one literal (rho_a[0]: a density row) are not spin arrays."""
    per, module_spin = {}, set()
    for fn in fns:
        idents = {n.id for n in ast.walk(fn) if isinstance(n, ast.Name)} | {a.arg for a in fn.args.args}
        tag = {}
        for n in idents:
            fl = _spin_flip(n, idents)
            if fl:
                tag[n] = fl
        first = {}
        local = set()
        for n in ast.walk(fn):
            if isinstance(n, ast.Subscript) and isinstance(n.value, ast.Name):
                f = _first_index(n)
                if f is not None:
                    first.setdefault(n.value.id, set()).add(f.value)
            if isinstance(n, ast.Assign) and isinstance(n.value, ast.Call):
                cn = pf.call_name(n.value) or ""
                if cn.split(".")[-1] == "_format_uks_dm" and n.value.args and isinstance(n.value.args[0], ast.Name):
                    local.add(n.value.args[0].id)
                if cn.split(".")[-1] in ("zeros", "empty", "ones") and n.value.args \
                        and isinstance(n.value.args[0], ast.Tuple) and n.value.args[0].elts \
                        and isinstance(n.value.args[0].elts[0], ast.Constant) and n.value.args[0].elts[0].value == 2:
                    local |= {t.id for t in n.targets if isinstance(t, ast.Name)}
        local |= {k for k, v in first.items() if v == {0, 1}}
        per[id(fn)] = [tag, local - set(tag), first]
        module_spin |= {k for k, v in first.items() if v == {0, 1} and k not in tag}
    for fn in fns:
        tag, local, first = per[id(fn)]
        # a name that is a spin array elsewhere in the module and is only indexed with 0/1 here
        local |= {k for k in module_spin if k not in tag and first.get(k, set()) <= {0, 1} and k in first}
        per[id(fn)] = (tag, local)
    return per


def spin_units(fn, tag, spin_arr):
    """Statements (or their right-hand sides, when the targets carry no spin information) that address exactly
    one spin channel through a literal spin slot of a spin-first array or a literal `spin=` keyword
    -> [(channel, text, mirrored text, statement)]"""
    import copy
    from sa.core import norm_text

    def slots(node):
        out = []
        for n in ast.walk(node):
            if isinstance(n, ast.Subscript) and isinstance(n.value, ast.Name) and n.value.id in spin_arr:
                f = _first_index(n)
                if f is not None and f.value in (0, 1):
                    out.append(f)
            if isinstance(n, ast.keyword) and n.arg == "spin" and isinstance(n.value, ast.Constant) \
                    and n.value.value in (0, 1) and not isinstance(n.value.value, bool):
                out.append(n.value)
        return out

    def channels(node):
        ch = {c.value for c in slots(node)}
        ch |= {tag[n.id][1] for n in ast.walk(node) if isinstance(n, ast.Name) and n.id in tag}
        return ch

    def mirror(node):
        n2 = copy.deepcopy(node)
        for c in slots(n2):
            c.value = 1 - c.value
        for n in ast.walk(n2):
            if isinstance(n, ast.Name) and n.id in tag:
                n.id = tag[n.id][0]
        return n2

    out = []
    for st in ast.walk(fn):
        if isinstance(st, ast.Assign):
            node = st if any(channels(t) for t in st.targets) else st.value
        elif isinstance(st, ast.AugAssign):
            node = st
        elif isinstance(st, ast.Expr) and isinstance(st.value, ast.Call):
            node = st.value
        else:
            continue
        todo = [node]
        while todo:
            nd = todo.pop()
            if not slots(nd):
                continue  # names only (make_rhoa, nset = ...[:2] vs make_rhob = ...[0]): legitimately asymmetric
            ch = channels(nd)
            if len(ch) == 1:
                out.append((ch.pop(), norm_text(ast.unparse(nd)), norm_text(ast.unparse(mirror(nd))), st))
                continue
            # both channels in one statement (np.stack([f(xa, spin=0), f(xb, spin=1)]), vj[0] + vj[1]): the calls
            # inside it that address one channel are the units
            for ch_ in ast.iter_child_nodes(nd):
                stack = [ch_]
                while stack:
                    x = stack.pop()
                    if isinstance(x, ast.Call):
                        todo.append(x)
                    else:
                        stack.extend(ast.iter_child_nodes(x))
    return out


def spin_mirror_rule(chk, rule, tree, rel, names):
    from collections import Counter
    fns = [locate(tree, rel, n) for n in names]
    ctx = spin_context([f for _, f in fns])
    for (rel2, fn), name in zip(fns, names):
        tag, spin_arr = ctx[id(fn)]
        us = spin_units(fn, tag, spin_arr)
        cnt = Counter((c, t) for c, t, _m, _s in us)
        seen = set()
        for c, t, m, st in us:
            if (c, t) in seen:
                continue
            seen.add((c, t))
            inst = "%s:%s `%s` <-> `%s`" % (rel2, name, t[:70], m[:70])
            if cnt[(c, t)] == cnt[(1 - c, m)]:
                chk.ok(rule, inst)
            else:
                chk.violation(rule, rel2, name, t, st.lineno,
                              "this statement addresses spin channel %d (%d occurrence(s)); its mirror image under "
                              "the exchange of the spin-tagged locals and of the spin slot 0 <-> 1, `%s`, occurs %d "
                              "time(s) in %s: the two spin channels are not treated by the same statements (spin-first "
                              "arrays here: %s)" % (c, cnt[(c, t)], m[:140], cnt[(1 - c, m)], name, sorted(spin_arr)),
                              instance=inst)
