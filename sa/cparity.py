"""Swap parity of C kernels that carry two spin channels as paired pointers (clang JSON AST via sa.cfacts).

A *channel pair* is two local pointer variables initialised from the same pointer parameter, one with no
offset (`xin_a = xin`) and one with an offset (`xin_b = xin + n * nfeat`).  The exchange a<->b swaps the two
members of every pair.  Every *effect* of the kernel body (a store through a pointer: `p[i] op= e`, directly or
inside a helper function of the same translation unit, which is inlined with its parameters replaced by the
call's arguments) is put into a canonical text: locals are replaced by their initialisers, operands of `+`
and `*` are sorted.  The multiset of effects must be invariant under the exchange: each effect's image must be
the canonical text of another effect.  No algebra beyond inlining and commutative sorting is performed.

API:  analyse(tu, fname) -> dict(pairs=[(a_name, b_name, param)], effects=[(line, text, canon, image)],
                                 unmatched=[(line, text, image)])
"""
from sa import cfacts
from sa.core import AnalysisError


def _is_ptr(t):
    return "*" in (t or {}).get("qualType", "")


def analyse(tu, fname, max_depth=12):
    body = tu.body(fname)
    params = {p["id"]: p for p in tu.params(fname)}
    decls = {}
    for n in cfacts.walk(body):
        if n.get("kind") == "VarDecl":
            ks = cfacts.kids(n)
            decls[n["id"]] = (n, ks[0] if ks else None)

    def base_param(e):
        """(param id, has_offset) of a pointer expression `P` or `P + off`"""
        e = cfacts.strip(e)
        if e.get("kind") == "DeclRefExpr":
            rid = e["referencedDecl"]["id"]
            if rid in params and _is_ptr(params[rid].get("type")):
                return rid, False
            return None
        if e.get("kind") == "BinaryOperator" and e.get("opcode") == "+":
            for c in cfacts.kids(e):
                b = base_param(c)
                if b is not None:
                    return b[0], True
        return None

    by_param = {}
    for vid, (n, init) in decls.items():
        if _is_ptr(n.get("type")) and init is not None:
            b = base_param(init)
            if b is not None:
                by_param.setdefault(b[0], []).append((vid, b[1]))
    partner, label, pairs = {}, {}, []
    for pid, vs in by_param.items():
        plain = [v for v, off in vs if not off]
        shifted = [v for v, off in vs if off]
        if len(plain) == 1 and len(shifted) == 1:
            a, b = plain[0], shifted[0]
            partner[a], partner[b] = b, a
            label[a] = "%s#0" % params[pid]["name"]
            label[b] = "%s#1" % params[pid]["name"]
            pairs.append((decls[a][0]["name"], decls[b][0]["name"], params[pid]["name"]))

    def canon(e, swap, subst, depth=0):
        e = cfacts.strip(e)
        k = e.get("kind")
        if depth > max_depth:
            return tu.text_of(e)
        if k == "DeclRefExpr":
            rid = e["referencedDecl"]["id"]
            if rid in subst:
                return subst[rid]
            if rid in partner:
                return label[partner[rid] if swap else rid]
            if rid in decls and decls[rid][1] is not None and \
                    cfacts.strip(decls[rid][1]).get("kind") != "IntegerLiteral":      # loop indices stay symbolic
                return canon(decls[rid][1], swap, subst, depth + 1)
            return e["referencedDecl"].get("name", "?")
        if k in ("IntegerLiteral", "FloatingLiteral"):
            return str(e.get("value", tu.text_of(e)))
        if k == "BinaryOperator":
            l, r = [canon(c, swap, subst, depth + 1) for c in cfacts.kids(e)]
            op = e.get("opcode")
            if op in ("+", "*"):
                l, r = sorted((l, r))
            return "(%s %s %s)" % (l, op, r)
        if k == "CompoundAssignOperator":
            l, r = [canon(c, swap, subst, depth + 1) for c in cfacts.kids(e)]
            return "%s %s %s" % (l, e.get("opcode"), r)
        if k == "UnaryOperator":
            return "%s(%s)" % (e.get("opcode"), canon(cfacts.kids(e)[0], swap, subst, depth + 1))
        if k == "ArraySubscriptExpr":
            b, i = cfacts.kids(e)
            return "%s[%s]" % (canon(b, swap, subst, depth + 1), canon(i, swap, subst, depth + 1))
        if k == "CallExpr":
            ks = cfacts.kids(e)
            name = (cfacts.strip(ks[0]).get("referencedDecl") or {}).get("name", "?")
            return "%s(%s)" % (name, ", ".join(canon(a, swap, subst, depth + 1) for a in ks[1:]))
        return " ".join(tu.text_of(e).split())

    def stores(node):
        """store expressions (assignment through an array element) below `node`, not descending into calls"""
        out = []
        todo = [node]
        while todo:
            x = todo.pop()
            k = x.get("kind")
            if k == "CompoundAssignOperator" or (k == "BinaryOperator" and x.get("opcode") == "="):
                lhs = cfacts.strip(cfacts.kids(x)[0])
                if lhs.get("kind") in ("ArraySubscriptExpr", "UnaryOperator"):
                    out.append(x)
                    continue
            todo.extend(reversed(cfacts.kids(x)))
        return out

    def helper_calls(node):
        out = []
        for x in cfacts.walk(node):
            if x.get("kind") == "CallExpr":
                ks = cfacts.kids(x)
                name = (cfacts.strip(ks[0]).get("referencedDecl") or {}).get("name")
                if name in tu.funcs and name != fname and \
                        tu.func(name).get("type", {}).get("qualType", "").startswith("void"):
                    out.append((x, name, ks[1:]))
        return out

    effects = []

    def add_effects(swap):
        res = []
        for st in stores(body):
            res.append((st, canon(st, swap, {})))
        for call, name, args in helper_calls(body):
            hp = tu.params(name)
            if len(hp) != len(args):
                raise AnalysisError("%s: call of %s with %d arguments for %d parameters" % (fname, name, len(args), len(hp)))
            sub = {p["id"]: canon(a, swap, {}) for p, a in zip(hp, args)}
            hb = tu.body(name)
            hdecl = {}
            for n in cfacts.walk(hb):
                if n.get("kind") == "VarDecl":
                    ks = cfacts.kids(n)
                    hdecl[n["id"]] = ks[0] if ks else None
            inner = stores(hb)
            if not inner:
                raise AnalysisError("%s: helper %s has no store to inline" % (fname, name))
            if helper_calls(hb):
                raise AnalysisError("%s: helper %s calls further helpers (not inlined)" % (fname, name))
            for st in inner:
                # helper locals keep their names (loop indices); parameters are substituted
                res.append((call, canon_helper(st, sub, hdecl)))
        return res

    def canon_helper(e, sub, hdecl, depth=0):
        e = cfacts.strip(e)
        k = e.get("kind")
        if k == "DeclRefExpr":
            rid = e["referencedDecl"]["id"]
            if rid in sub:
                return sub[rid]
            if rid in hdecl and hdecl[rid] is not None and depth < max_depth and \
                    cfacts.strip(hdecl[rid]).get("kind") not in ("IntegerLiteral",):
                return canon_helper(hdecl[rid], sub, hdecl, depth + 1)
            return e["referencedDecl"].get("name", "?")
        if k in ("IntegerLiteral", "FloatingLiteral"):
            return str(e.get("value", tu.text_of(e)))
        if k in ("BinaryOperator", "CompoundAssignOperator"):
            l, r = [canon_helper(c, sub, hdecl, depth + 1) for c in cfacts.kids(e)]
            op = e.get("opcode")
            if k == "BinaryOperator" and op in ("+", "*"):
                l, r = sorted((l, r))
            return "(%s %s %s)" % (l, op, r) if k == "BinaryOperator" else "%s %s %s" % (l, op, r)
        if k == "UnaryOperator":
            return "%s(%s)" % (e.get("opcode"), canon_helper(cfacts.kids(e)[0], sub, hdecl, depth + 1))
        if k == "ArraySubscriptExpr":
            b, i = cfacts.kids(e)
            return "%s[%s]" % (canon_helper(b, sub, hdecl, depth + 1), canon_helper(i, sub, hdecl, depth + 1))
        if k == "CallExpr":
            ks = cfacts.kids(e)
            name = (cfacts.strip(ks[0]).get("referencedDecl") or {}).get("name", "?")
            return "%s(%s)" % (name, ", ".join(canon_helper(a, sub, hdecl, depth + 1) for a in ks[1:]))
        return " ".join(tu.text_of(e).split())

    plain = add_effects(False)
    swapped = add_effects(True)
    have = {}
    for node, c in plain:
        have[c] = have.get(c, 0) + 1
    unmatched = []
    for (node, c), (_, img) in zip(plain, swapped):
        effects.append((tu.line_of(node), " ".join(tu.text_of(node).split()), c, img))
        if have.get(img, 0) > 0:
            have[img] -= 1
        else:
            unmatched.append((tu.line_of(node), " ".join(tu.text_of(node).split()), img))
    return {"pairs": pairs, "effects": effects, "unmatched": unmatched}
