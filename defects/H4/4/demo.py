"""C04: MappedDFTKernel (xc_evaluator.py) in POL ("polarised") mode with a spin-unpolarised
input (nspin = 1) returns half of the feature derivative of the ML term.

For nspin = 1 the single channel is duplicated, X1 = (X(x), X(x)), and the model
f(X1_a, X1_b) is evaluated.  d f/d x = (df/dX1_a + df/dX1_b) . dX/dx = 2 df/dX1_a . dX/dx
by the a<->b symmetry of the kernel.  MappedDFTKernel.__call__ keeps only df/dX1_a
(apply_descriptor_grad: dfdX1 = dfdX1[:1]).  Its twin MappedDFTKernel2.__call__ has
    if self.mode == "POL" and X0T.shape[0] == 1: df = 2 * df[:1]
The C spin kernel itself (evaluate_se_kernel_spin) is right: nspin = 2 agrees with FD.
"""
import os
import sys

sys.path.insert(0, os.path.join(os.path.dirname(os.path.abspath(__file__)), "..", "common"))
import hx  # noqa: E402

hx.install()

import numpy as np  # noqa: E402

from ciderpress.dft import baselines as B  # noqa: E402
from ciderpress.dft.transform_data import FeatureList, UMap  # noqa: E402
from ciderpress.dft.xc_evaluator import MappedDFTKernel, MappedXC, SpinRBFEvaluator  # noqa: E402
from ciderpress.models.kernels import DiffConstantKernel, DiffRBF  # noqa: E402

rng = np.random.default_rng(1)
N1, nctrl, n = 3, 6, 5
fl = FeatureList([UMap(i + 1, 0.3) for i in range(N1)])
kern = DiffConstantKernel(1.7) * DiffRBF(length_scale=np.array([0.5, 0.7, 0.9]))
X1ctrl = rng.uniform(0, 1, size=(2, nctrl, N1))
alpha = rng.normal(size=nctrl)
fev = SpinRBFEvaluator(kern, X1ctrl, alpha)
fail = False


def fd(func, X0T, h=1e-6):
    g = np.zeros_like(X0T)
    for s in range(X0T.shape[0]):
        for i in range(X0T.shape[1]):
            Xp = X0T.copy()
            Xp[s, i] += h
            Xm = X0T.copy()
            Xm[s, i] -= h
            g[s, i] = (func(Xp)[0] - func(Xm)[0]) / (2 * h)
    return g


for bname, mul in [("ONE", B.one_xc), ("LDA_X", B.lda_x)]:
    model = MappedXC([MappedDFTKernel(fev, fl, "POL", mul, B.zero_xc)], None)
    for nspin in [2, 1]:
        X0T = rng.uniform(0.3, 2.0, size=(nspin, N1 + 1, n))
        res, dres = model(X0T)
        g = fd(model, X0T)
        err = np.abs(g - dres).max()
        print("baseline %-5s nspin=%d: max|FD - analytic| = %.3e" % (bname, nspin, err))
        if nspin == 1:
            print("   analytic d/dX0T[0, 1:, 0] =", dres[0, 1:, 0])
            print("   FD       d/dX0T[0, 1:, 0] =", g[0, 1:, 0])
            # same physical point written as a polarised input with equal channels
            X2 = np.concatenate([X0T, X0T], axis=0)
            res2, dres2 = model(X2)
            print("   energy nspin=1 vs nspin=2 (equal channels): max diff = %.2e"
                  % np.abs(res - res2).max())
            tot = dres2.sum(0)
            print("   sum over spins of the nspin=2 derivative  =", tot[1:, 0])
            fail |= np.abs(tot - dres[0]).max() > 1e-6
        fail |= err > 1e-6

if fail:
    print("FAIL: POL mode, nspin=1: derivative is not the gradient of the returned energy")
    sys.exit(1)
print("OK")
