"""E-tab: table-chain resolver (DESIGN §1.5) and the small companions it needs.

Three parts, all pure parsing (nothing is imported from the repository, nothing is run):

1.  *Tables.*  Python literal tables (``py_table``), C ``if (v == k) … else if`` ladders
    (``c_if_ladder``), C ``switch`` statements (``c_switch``: from the clang AST, with the
    *values* of the case labels; ``c_switch_text``: from the source text of the function body,
    with the *spelling* of the labels and of the macro invoked in each case, through a small
    tokenizer -- clang's JSON AST keeps only expansion locations for macro-expanded code).
    ``Chain`` records the hops of one key through several tables so that a report can say at
    which table a key went astray.  Equivalent spellings are read alike: ``{..}`` / ``dict(k=v)`` /
    named module constants (``py_lit``); if/else-if ladders and ``switch`` (``c_dispatch_tables``);
    macro, ``enum`` and ``const int`` constants (``load_enums``, ``const_int``); cv/restrict
    qualifiers are dropped from types (``base_type``).

2.  *E-mono for C* (``Ev``): an abstract evaluator of straight-line C (declarations, assignments,
    compound assignments, counted loops entered once, calls to functions of the same translation
    unit) whose abstract value is a polynomial over *atoms* with rational exponents.  Atoms are
    parameters (named by role, i.e. by position, never by the spelling of the parameter), array
    elements, sums that occur under a division / root / power (atomised, in canonical form) and
    opaque library calls.  This is normalisation of monomials, not a CAS: two formulas are never
    proved equal, a formula is only put in canonical form and its factors are read off.
    The same evaluator carries a units-of-measure degree for every atom (affine in the integer
    ``l``), which gives the alpha-degree rule of C02.

3.  ``CoordUse``: syntactic def-use classification "this read of a grid coordinate is an operand
    of a subtraction whose other operand is the same component of an atom coordinate" (C06).
"""
import ast
import re
from fractions import Fraction as Fr

from sa import cfacts
from sa import pyfacts as pf
from sa.core import AnalysisError


# ======================================================================================
# 1. tables
# ======================================================================================
def py_table(tree, rel, name):
    """Literal value of module-level table `name` of `rel` -> (value, ast node).  Names of other
    module-level literal tables are followed (ALLOWED_K_SPECS = ALLOWED_J_SPECS)."""
    mod = pf.Module(tree, rel)
    node = mod.assigns.get(name)
    if node is None:
        raise AnalysisError("table %s vanished from %s" % (name, rel))
    try:
        return py_lit(node, mod.assigns), node
    except pf.NotLiteral as e:
        raise AnalysisError("table %s in %s is no longer a literal (%s)" % (name, rel, e))


def py_lit(node, env=None):
    """pf.literal plus the equivalent spellings dict(k=v, ...), dict([(k, v), ...]), list(...), tuple(...),
    set(...), {**A, ...}, A | B for dicts, and names of other module-level literals."""
    env = env or {}
    if isinstance(node, ast.Name) and node.id in env and isinstance(env[node.id], ast.AST):
        return py_lit(env[node.id], env)
    if isinstance(node, ast.Call) and isinstance(node.func, ast.Name):
        f = node.func.id
        if f == "dict":
            out = {}
            if node.args:
                a = py_lit(node.args[0], env)
                out.update(dict(a) if not isinstance(a, dict) else a)
            for kw in node.keywords:
                if kw.arg is None:
                    out.update(py_lit(kw.value, env))
                else:
                    out[kw.arg] = py_lit(kw.value, env)
            return out
        if f in ("list", "tuple", "set", "frozenset", "sorted") and len(node.args) <= 1 and not node.keywords:
            v = py_lit(node.args[0], env) if node.args else []
            v = list(v.keys()) if isinstance(v, dict) else list(v)
            return {"list": v, "sorted": sorted(v), "tuple": tuple(v), "set": set(v), "frozenset": set(v)}[f]
    if isinstance(node, ast.Dict):
        out = {}
        for k, v in zip(node.keys, node.values):
            if k is None:
                out.update(py_lit(v, env))
            else:
                out[py_lit(k, env)] = py_lit(v, env)
        return out
    if isinstance(node, (ast.List, ast.Tuple)):
        v = []
        for e in node.elts:
            if isinstance(e, ast.Starred):
                v.extend(py_lit(e.value, env))
            else:
                v.append(py_lit(e, env))
        return v if isinstance(node, ast.List) else tuple(v)
    if isinstance(node, ast.BinOp) and isinstance(node.op, ast.BitOr):
        a, b = py_lit(node.left, env), py_lit(node.right, env)
        if isinstance(a, dict) and isinstance(b, dict):
            return {**a, **b}
    if isinstance(node, ast.BinOp) and isinstance(node.op, ast.Add):
        a, b = py_lit(node.left, env), py_lit(node.right, env)
        try:
            return a + b
        except TypeError:
            raise pf.NotLiteral(pf.src(node))
    if isinstance(node, ast.ListComp) and len(node.generators) == 1 and not node.generators[0].ifs \
            and isinstance(node.generators[0].target, ast.Name) and isinstance(node.elt, ast.Name) \
            and node.elt.id == node.generators[0].target.id:
        return list(py_lit(node.generators[0].iter, env))
    return pf.literal(node, env)


def py_table_items(node):
    """[(key value, key node, value node)] of a dict literal node (for per-entry reports)."""
    out = []
    if isinstance(node, ast.Call) and isinstance(node.func, ast.Name) and node.func.id == "dict":
        for kw in node.keywords:
            if kw.arg is not None:
                out.append((kw.arg, kw.value, kw.value))
        return out
    if not isinstance(node, ast.Dict):
        return []
    for k, v in zip(node.keys, node.values):
        if k is None:
            continue
        try:
            out.append((pf.literal(k), k, v))
        except pf.NotLiteral:
            pass
    return out


class Hop:
    def __init__(self, table, file, func, key, value, line, construct):
        self.table, self.file, self.func = table, file, func
        self.key, self.value, self.line, self.construct = key, value, line, construct

    def __repr__(self):
        return "%s[%r]=%r" % (self.table, self.key, self.value)


class Chain:
    """One key followed through several tables."""

    def __init__(self, key):
        self.key = key
        self.hops = []
        self.broken = None  # (table, message) when a table has no entry for the running key

    def hop(self, *a):
        self.hops.append(Hop(*a))
        return self.hops[-1].value

    def text(self):
        return " -> ".join([repr(self.key)] + ["%s:%s" % (h.table, _short(h.value)) for h in self.hops])


def _short(v):
    s = str(v)
    return s if len(s) < 40 else s[:37] + "..."


# -- C source text -------------------------------------------------------------------------
_TOK = re.compile(r"""
    (?P<ws>\s+)
  | (?P<lc>//[^\n]*)
  | (?P<bc>/\*.*?\*/)
  | (?P<pp>^[ \t]*\#[^\n]*(?:\\\n[^\n]*)*)
  | (?P<id>[A-Za-z_]\w*)
  | (?P<num>(?:\d+\.?\d*|\.\d+)(?:[eE][+-]?\d+)?[uUlLfF]*)
  | (?P<str>"(?:\\.|[^"\\])*"|'(?:\\.|[^'\\])*')
  | (?P<op>\#\#|->|\+\+|--|<<=|>>=|<=|>=|==|!=|&&|\|\||[-+*/%&|^]=|<<|>>|.)
""", re.S | re.M | re.X)


def c_tokens(text, base=0):
    """[(kind, text, offset)] without white space, comments and preprocessor lines."""
    out = []
    for m in _TOK.finditer(text):
        k = m.lastgroup
        if k in ("ws", "lc", "bc", "pp"):
            continue
        out.append((k, m.group(0), base + m.start()))
    return out


def func_tokens(tu, fname):
    f = tu.func(fname)
    b = f.get("range", {}).get("begin", {}).get("offset")
    if b is None:
        raise AnalysisError("no source range for %s" % fname)
    txt = tu.text_of(f)
    return c_tokens(txt, b)


def _match(toks, i, open_, close):
    """index of the token closing the bracket opened at toks[i]"""
    depth = 0
    for j in range(i, len(toks)):
        if toks[j][1] == open_:
            depth += 1
        elif toks[j][1] == close:
            depth -= 1
            if depth == 0:
                return j
    raise AnalysisError("unbalanced %s in C source" % open_)


def macro_int(tu, name):
    """integer value of an object-like macro (following other object-like macros)."""
    seen = set()
    cur = name
    while True:
        if re.fullmatch(r"[-+]?\d+", cur.strip()):
            return int(cur)
        m = tu.macros.get(cur.strip())
        if m is None or m[0] is not None or cur in seen:
            return None
        seen.add(cur)
        cur = m[1].strip()
        if cur.startswith("(") and cur.endswith(")"):
            cur = cur[1:-1]


def macro_expand_idents(tu, name, args, depth=0):
    """Identifiers produced by expanding function-like macro `name` with argument spellings
    `args` (token pasting honoured), following nested function-like macros.  -> list of
    (identifier, call-arguments or None) in order of appearance."""
    m = tu.macros.get(name)
    if m is None or m[0] is None:
        return []
    params = [p.strip() for p in m[0].strip()[1:-1].split(",") if p.strip()]
    sub = dict(zip(params, args))
    toks = [t[1] for t in c_tokens(m[1])]
    # substitute and paste
    out = []
    i = 0
    while i < len(toks):
        t = sub.get(toks[i], toks[i])
        while i + 2 < len(toks) and toks[i + 1] == "##":
            t = t + sub.get(toks[i + 2], toks[i + 2])
            i += 2
        out.append(t)
        i += 1
    res = []
    for j, t in enumerate(out):
        if re.fullmatch(r"[A-Za-z_]\w*", t):
            cargs = None
            if j + 1 < len(out) and out[j + 1] == "(":
                depth_ = 0
                cur, cargs = [], []
                for k in range(j + 1, len(out)):
                    if out[k] == "(":
                        depth_ += 1
                        if depth_ == 1:
                            continue
                    elif out[k] == ")":
                        depth_ -= 1
                        if depth_ == 0:
                            cargs.append(" ".join(cur))
                            break
                    elif out[k] == "," and depth_ == 1:
                        cargs.append(" ".join(cur))
                        cur = []
                        continue
                    cur.append(out[k])
            res.append((t, cargs))
            if t in tu.macros and tu.macros[t][0] is not None and cargs is not None and depth < 4:
                res.extend(macro_expand_idents(tu, t, cargs, depth + 1))
    return res


def c_switch_text(tu, fname):
    """Spelling-level view of the switch statements of a function:
    [ {var, cases: [ {labels: [spelling], default: bool, macros: [(name, args)], offset} ]} ]"""
    toks = func_tokens(tu, fname)
    out = []
    i = 0
    while i < len(toks):
        if toks[i][1] == "switch" and i + 1 < len(toks) and toks[i + 1][1] == "(":
            j = _match(toks, i + 1, "(", ")")
            var = " ".join(t[1] for t in toks[i + 2: j])
            if toks[j + 1][1] != "{":
                raise AnalysisError("switch without a compound body in %s" % fname)
            e = _match(toks, j + 1, "{", "}")
            body = toks[j + 2: e]
            cases, cur, depth, k = [], None, 0, 0
            while k < len(body):
                t = body[k]
                if t[1] in "{([":
                    depth += 1
                elif t[1] in "})]":
                    depth -= 1
                if depth == 0 and t[1] in ("case", "default"):
                    c = k + 1
                    while body[c][1] != ":":
                        c += 1
                    lab = " ".join(x[1] for x in body[k + 1: c])
                    if cur is not None and not cur["toks"]:
                        cur["labels"].append(lab if t[1] == "case" else None)
                        cur["default"] |= t[1] == "default"
                    else:
                        cur = {"labels": [lab] if t[1] == "case" else [], "default": t[1] == "default",
                               "toks": [], "offset": t[2]}
                        cases.append(cur)
                    k = c + 1
                    continue
                if cur is not None:
                    cur["toks"].append(t)
                k += 1
            for c in cases:
                ms = []
                tk = c["toks"]
                for q, t in enumerate(tk):
                    if t[0] == "id" and t[1] in tu.macros and tu.macros[t[1]][0] is not None \
                            and q + 1 < len(tk) and tk[q + 1][1] == "(":
                        r = _match(tk, q + 1, "(", ")")
                        args = [a.strip() for a in " ".join(x[1] for x in tk[q + 2: r]).split(",")]
                        ms.append((t[1], args))
                c["macros"] = ms
                c["text"] = " ".join(x[1] for x in tk)
                del c["toks"]
            out.append({"var": var, "cases": cases})
            i = e
        i += 1
    return out


# -- C AST tables ------------------------------------------------------------------------------
def omp_unwrap(n):
    """statement associated with an OMP*Directive (clang nests it in CapturedStmt/CapturedDecl)."""
    while n is not None and n.get("kind", "").startswith("OMP") and n.get("kind", "").endswith("Directive"):
        nxt = None
        for c in cfacts.kids(n):
            if c.get("kind") == "CapturedStmt":
                for d in cfacts.kids(c):
                    if d.get("kind") == "CapturedDecl":
                        for s in cfacts.kids(d):
                            if s.get("kind", "").endswith("Stmt") or s.get("kind", "").endswith("Operator") \
                                    or s.get("kind", "").endswith("Directive") or s.get("kind") == "CallExpr":
                                nxt = s
                                break
                    if nxt is not None:
                        break
            elif c.get("kind", "").endswith("Stmt") and c.get("kind") != "CapturedStmt":
                nxt = c
            if nxt is not None:
                break
        if nxt is None:
            if not any(c.get("kind") in ("CapturedStmt",) or c.get("kind", "").endswith("Stmt") for c in cfacts.kids(n)):
                return {"kind": "NullStmt"}  # stand-alone directive (barrier, flush, taskwait)
            raise AnalysisError("OpenMP directive without an associated statement")
        n = nxt
    return n


def stmts_of(n):
    """child statements of a compound statement (or [n])"""
    n = omp_unwrap(n)
    if n.get("kind") == "CompoundStmt":
        return cfacts.kids(n)
    return [n]


def walk_stmts(n):
    """pre-order walk that looks through OMP directive wrappers exactly once (the captured
    statement is also listed again among the CapturedDecl's trailing declarations)."""
    todo = [n]
    while todo:
        x = todo.pop()
        k = x.get("kind", "")
        if k.startswith("OMP") and k.endswith("Directive"):
            todo.append(omp_unwrap(x))
            continue
        yield x
        todo.extend(reversed(cfacts.kids(x)))


def base_type(t):
    """C type spelling without cv/restrict qualifiers and redundant blanks (`const double *restrict` -> `double *`)"""
    t = re.sub(r"\b(const|volatile|restrict|__restrict|__restrict__)\b", " ", t or "")
    t = re.sub(r"\s+", " ", t).strip()
    t = re.sub(r"\s*\*\s*", " *", t)
    t = re.sub(r"\*\s+\*", "**", t)
    return t.strip()


def ptype(p):
    return base_type(p.get("type", {}).get("qualType", ""))


ENUM_CONSTS = {}  # name -> int, filled by load_enums (enumeration constants are TU-wide names)


def load_enums(tu, tree=None):
    """enumeration constants defined in the translation unit's own text and (with `tree`) in the library's
    headers -> {name: value}; also remembered for const_int / Ev (clang's JSON gives no value for a case
    label spelled with an enumerator)."""
    texts = [tu.text]
    if tree is not None:
        for hdr in tree.glob(cfacts.LIB + "/*/*.h"):
            try:
                texts.append(tree.read(hdr))
            except AnalysisError:
                pass
    out = {}
    for text in texts:
        toks = c_tokens(text)
        i = 0
        while i < len(toks):
            if toks[i][1] == "enum":
                j = i + 1
                if j < len(toks) and toks[j][0] == "id":
                    j += 1
                if j < len(toks) and toks[j][1] == "{":
                    e = _match(toks, j, "{", "}")
                    nxt = 0
                    k = j + 1
                    while k < e:
                        if toks[k][0] != "id":
                            k += 1
                            continue
                        name = toks[k][1]
                        k += 1
                        if k < e and toks[k][1] == "=":
                            k += 1
                            expr = []
                            while k < e and toks[k][1] != ",":
                                expr.append(toks[k][1])
                                k += 1
                            v = _int_expr(expr, out, tu)
                            if v is None:
                                break
                            nxt = v
                        out[name] = nxt
                        nxt += 1
                        while k < e and toks[k][1] != ",":
                            k += 1
                        k += 1
                    i = e
            i += 1
        # file-scope / local `[static] const int NAME = <integer constant expression>;`
        for m in re.finditer(r"\bconst\s+(?:unsigned\s+)?(?:int|long|size_t)\s+(\w+)\s*=\s*([^;{}]+);", text):
            v = _int_expr([t[1] for t in c_tokens(m.group(2))], out, tu)
            if v is not None and m.group(1) not in out:
                out[m.group(1)] = v
    tu._enums = out
    ENUM_CONSTS.update(out)
    return out


def _int_expr(tokens, names, tu):
    """value of a tiny integer constant expression (literals, known enumerators / object-like macros, + - * ( ))"""
    parts = []
    for t in tokens:
        if re.fullmatch(r"\d+[uUlL]*", t):
            parts.append(str(int(re.sub(r"[uUlL]", "", t))))
        elif re.fullmatch(r"0[xX][0-9a-fA-F]+", t):
            parts.append(str(int(t, 16)))
        elif t in names:
            parts.append(str(names[t]))
        elif t in ("+", "-", "*", "(", ")", "<<", "|"):
            parts.append(t)
        else:
            mv = macro_int(tu, t)
            if mv is None:
                return None
            parts.append(str(mv))
    try:
        return int(eval(" ".join(parts), {"__builtins__": {}}, {}))  # digits and + - * ( ) << | only
    except Exception:
        return None


def const_int(n):
    """integer value of a constant expression node, or None"""
    n = cfacts.strip(n)
    k = n.get("kind")
    if k == "ConstantExpr":
        if "value" in n:
            try:
                return int(n["value"])
            except ValueError:
                return None
        kk = cfacts.kids(n)
        return const_int(kk[0]) if kk else None
    if k == "IntegerLiteral":
        return int(n["value"])
    if k == "DeclRefExpr" and n.get("referencedDecl", {}).get("kind") == "EnumConstantDecl":
        return ENUM_CONSTS.get(n["referencedDecl"].get("name"))
    if k == "DeclRefExpr" and n.get("referencedDecl", {}).get("kind") == "VarDecl" \
            and "const" in n["referencedDecl"].get("type", {}).get("qualType", ""):
        return ENUM_CONSTS.get(n["referencedDecl"].get("name"))
    if k == "UnaryOperator" and n.get("opcode") in ("-", "+"):
        v = const_int(cfacts.kids(n)[0])
        return None if v is None else (-v if n["opcode"] == "-" else v)
    if k == "BinaryOperator" and n.get("opcode") in ("+", "-", "*"):
        a, b = [const_int(c) for c in cfacts.kids(n)]
        if a is None or b is None:
            return None
        return a + b if n["opcode"] == "+" else a - b if n["opcode"] == "-" else a * b
    return None


def switch_groups(tu, n, fname="?"):
    """One SwitchStmt node -> {node, var, var_text, cases: [ {values: [int], default: bool,
    stmts: [...], breaks: bool, node} ]}.  `breaks` = the statement group ends in break/return
    (no fall-through into the next group)."""
    ks = cfacts.kids(n)
    var, body = ks[0], ks[-1]
    if body.get("kind") != "CompoundStmt":
        raise AnalysisError("switch body of %s is not a compound statement" % fname)
    cases, cur = [], None
    for st in cfacts.kids(body):
        while st.get("kind") in ("CaseStmt", "DefaultStmt"):
            sub = cfacts.kids(st)
            if cur is None or cur["stmts"]:
                cur = {"values": [], "default": False, "stmts": [], "breaks": False, "node": st}
                cases.append(cur)
            if st["kind"] == "CaseStmt":
                v = const_int(sub[0])
                if v is None:
                    raise AnalysisError("non-constant case label in %s" % fname)
                cur["values"].append(v)
                st = sub[-1] if len(sub) > 1 else {"kind": "NullStmt"}
            else:
                cur["default"] = True
                st = sub[-1] if sub else {"kind": "NullStmt"}
        if cur is None:
            continue
        if st.get("kind") in ("BreakStmt", "ReturnStmt"):
            cur["breaks"] = True
            cur["stmts"].append(st)
        elif st.get("kind") != "NullStmt":
            cur["breaks"] = False
            cur["stmts"].append(st)
    return {"node": n, "var": cfacts.strip(var), "var_text": norm_c(tu.text_of(var)), "cases": cases}


def c_switch(tu, fname):
    """AST view of every switch in `fname` (see switch_groups)."""
    return [switch_groups(tu, n, fname) for n in walk_stmts(tu.body(fname)) if n.get("kind") == "SwitchStmt"]


def norm_c(s):
    return re.sub(r"\s+", "", s)


def _eq_consts(tu, cond):
    """cond = (E == k) [|| (E == k2)]... -> (text of E, [k...]) or None"""
    cond = cfacts.strip(cond)
    if cond.get("kind") == "BinaryOperator" and cond.get("opcode") == "||":
        a, b = [_eq_consts(tu, c) for c in cfacts.kids(cond)]
        if a is None or b is None or a[0] != b[0]:
            return None
        return a[0], a[1] + b[1]
    if cond.get("kind") == "BinaryOperator" and cond.get("opcode") == "==":
        l, r = cfacts.kids(cond)
        v = const_int(r)
        if v is None:
            v = const_int(l)
            l = r
        if v is None:
            return None
        return norm_c(tu.text_of(cfacts.strip(l))), [v]
    return None


def _eq_var_node(cond):
    """the tested expression node E of `E == k [|| E == k2]`"""
    cond = cfacts.strip(cond)
    while cond.get("kind") == "BinaryOperator" and cond.get("opcode") == "||":
        cond = cfacts.strip(cfacts.kids(cond)[0])
    if cond.get("kind") == "BinaryOperator" and cond.get("opcode") == "==":
        l, r = cfacts.kids(cond)
        return cfacts.strip(l) if const_int(r) is not None else cfacts.strip(r)
    return None


def callees_of(tu, fname, depth=2):
    """same-TU functions called (as statements or in expressions) from `fname`, transitively up to `depth`,
    with the call nodes: [(callee name, call node, caller name)]"""
    out, seen, todo = [], {fname}, [(fname, 0)]
    while todo:
        f, d = todo.pop(0)
        body = tu.body(f) if f in tu.funcs else None
        if body is None or d >= depth:
            continue
        for n in walk_stmts(body):
            if n.get("kind") == "CallExpr":
                c = cfacts.strip(cfacts.kids(n)[0])
                nm = c.get("referencedDecl", {}).get("name") if c.get("kind") == "DeclRefExpr" else None
                if nm in tu.funcs and tu.body(nm) is not None:
                    out.append((nm, n, f))
                    if nm not in seen:
                        seen.add(nm)
                        todo.append((nm, d + 1))
    return out


def c_dispatch_tables_deep(tu, fname, depth=2):
    """c_dispatch_tables of `fname` and of the helpers it calls: [(function the table is in, table)]"""
    out = [(fname, t) for t in c_dispatch_tables(tu, fname)]
    done = {fname}
    for nm, _, _ in callees_of(tu, fname, depth):
        if nm not in done:
            done.add(nm)
            out += [(nm, t) for t in c_dispatch_tables(tu, nm)]
    return out


def c_dispatch_tables(tu, fname):
    """if/else-if ladders on `E == k` AND `switch (E)` statements of a function, in one shape:
    [ {var, var_node, arms: [ {values, stmt, node} ], orelse: stmt|None, node, form: 'if'|'switch'} ]
    (a switch group that falls through into the next one is an analysis error for the caller: `falls`)."""
    out = []
    for lad in c_if_ladders(tu, fname):
        lad = dict(lad)
        lad["form"] = "if"
        lad["var_node"] = _eq_var_node(cfacts.kids(lad["arms"][0]["node"])[0])
        lad["falls"] = []
        out.append(lad)
    for sw in c_switch(tu, fname):
        arms, orelse, falls = [], None, []
        for g in sw["cases"]:
            body = [x for x in g["stmts"] if x.get("kind") != "BreakStmt"]
            stmt = {"kind": "CompoundStmt", "inner": body, "range": g["node"].get("range", {})}
            exits = g["breaks"] or any(_is_exit(x) for x in g["stmts"]) or g is sw["cases"][-1]
            if not exits:
                falls.append(g)
            if g["values"]:
                arms.append({"values": list(g["values"]), "stmt": stmt, "node": g["node"]})
            if g["default"]:
                orelse = stmt
        if len(arms) >= 2:
            out.append({"var": sw["var_text"], "var_node": sw["var"], "arms": arms, "orelse": orelse,
                        "node": sw["node"], "form": "switch", "falls": falls})
    return out


def _is_exit(st):
    if st.get("kind") == "ReturnStmt":
        return True
    if st.get("kind") == "CallExpr":
        c = cfacts.strip(cfacts.kids(st)[0])
        return c.get("referencedDecl", {}).get("name") in ("exit", "abort")
    return False


def c_if_ladders(tu, fname):
    """Every `if (E == k [|| E == k2]) S else if (E == …) S … [else S]` chain in `fname` with at
    least two arms -> [ {var, arms: [ {values, stmt, node} ], orelse: stmt|None, node} ]"""
    out = []
    seen = set()
    for n in walk_stmts(tu.body(fname)):
        if n.get("kind") != "IfStmt" or id(n) in seen:
            continue
        arms, var, cur, orelse = [], None, n, None
        while cur is not None and cur.get("kind") == "IfStmt":
            ks = cfacts.kids(cur)
            ec = _eq_consts(tu, ks[0])
            if ec is None or (var is not None and ec[0] != var):
                arms = []
                break
            var = ec[0]
            seen.add(id(cur))
            arms.append({"values": ec[1], "stmt": ks[1], "node": cur})
            if cur.get("hasElse") and len(ks) > 2:
                cur = ks[2]
                if cur.get("kind") != "IfStmt":
                    orelse, cur = cur, None
            else:
                cur = None
        if len(arms) >= 2:
            out.append({"var": var, "arms": arms, "orelse": orelse, "node": n})
    return out


def single_assignment(stmt):
    """the one `lhs = rhs` statement of an arm (possibly in braces) -> (lhs node, rhs node) or None"""
    ss = [s for s in stmts_of(stmt) if s.get("kind") != "NullStmt"]
    if len(ss) != 1:
        return None
    s = ss[0]
    if s.get("kind") == "BinaryOperator" and s.get("opcode") == "=":
        l, r = cfacts.kids(s)
        return l, r
    return None


def func_ref(n):
    """&f or f (function designator) -> name, else None"""
    n = cfacts.strip(n)
    if n.get("kind") == "UnaryOperator" and n.get("opcode") == "&":
        n = cfacts.strip(cfacts.kids(n)[0])
    if n.get("kind") == "DeclRefExpr" and n.get("referencedDecl", {}).get("kind") == "FunctionDecl":
        return n["referencedDecl"]["name"]
    return None


# ======================================================================================
# 2. E-mono for C: polynomials over atoms with rational exponents
# ======================================================================================
def _key(x):
    return repr(x)


def _mono(d):
    return tuple(sorted(((a, e) for a, e in d.items() if e != 0), key=_key))


class Poly:
    """sum of monomials: {mono: Fraction}, mono = sorted tuple of (atom, exponent)."""
    __slots__ = ("t",)

    def __init__(self, t=None):
        self.t = {m: c for m, c in (t or {}).items() if c != 0}

    # constructors
    @staticmethod
    def const(c):
        return Poly({(): Fr(c)})

    @staticmethod
    def atom(a, e=1):
        return Poly({((a, Fr(e)),): Fr(1)})

    # predicates
    def is_const(self):
        return all(m == () for m in self.t)

    def const_value(self):
        return self.t.get((), Fr(0)) if self.is_const() else None

    def single(self):
        return len(self.t) == 1

    def canon(self):
        return tuple(sorted(self.t.items(), key=_key))

    def atoms(self):
        s = set()
        for m in self.t:
            for a, _ in m:
                s.add(a)
        return s

    def __eq__(self, o):
        return isinstance(o, Poly) and self.t == o.t

    def __hash__(self):
        return hash(self.canon())

    # arithmetic
    def __add__(self, o):
        t = dict(self.t)
        for m, c in o.t.items():
            t[m] = t.get(m, 0) + c
        return Poly(t)

    def __neg__(self):
        return Poly({m: -c for m, c in self.t.items()})

    def __sub__(self, o):
        return self + (-o)

    def scale(self, c):
        return Poly({m: v * c for m, v in self.t.items()})

    def mul_raw(self, o):
        t = {}
        for m1, c1 in self.t.items():
            d1 = dict(m1)
            for m2, c2 in o.t.items():
                d = dict(d1)
                for a, e in m2:
                    d[a] = d.get(a, 0) + e
                mm = _mono(d)
                t[mm] = t.get(mm, 0) + c1 * c2
        return Poly(t)

    def text(self):
        if not self.t:
            return "0"
        parts = []
        for m, c in sorted(self.t.items(), key=_key):
            fs = [] if (c == 1 and m) else [str(c)]
            for a, e in m:
                fs.append(atom_text(a) + ("" if e == 1 else "^%s" % e))
            parts.append("*".join(fs))
        return " + ".join(parts)


def atom_text(a):
    k = a[0]
    if k == "sym":
        return a[1]
    if k == "elem":
        return "%s[%s]" % (a[1], Poly(dict(a[2])).text() if a[2] else "0")
    if k == "sum":
        return "(" + Poly(dict(a[1])).text() + ")"
    if k == "pow":
        return "pow(%s,%s)" % (Poly(dict(a[1])).text(), Poly(dict(a[2])).text())
    if k == "fn":
        return "%s(%s)" % (a[1], ",".join(Poly(dict(x)).text() for x in a[2]))
    if k == "num":
        return str(a[1])
    if k == "guard":
        return "[%s]" % Poly(dict(a[1])).text()
    return str(a)


class Ev:
    """Abstract evaluation of straight-line C in one translation unit.

    roles: {param name or index -> role} for the entry function: a pointer parameter with a role
    reads as atoms ('elem', role, index), a scalar parameter as ('sym', role).
    degs:  {role -> degree}; a degree is (c0, c1) meaning c0 + c1*l in the chosen base unit.
    Everything without a declared degree is dimensionless."""

    LIBM_DIMLESS = {"tgamma", "exp", "log", "erf", "erfc", "atan", "lgamma", "floor", "cos", "sin"}

    def __init__(self, tu, degs=None, l_role="l"):
        self.tu = tu
        self.degs = dict(degs or {})
        self.l_role = l_role
        self.mismatches = []  # (text, message)
        self.depth = 0
        self.switch_results = []
        self.exact_roots = False   # square roots of rationals in prime normal form; double literals nearest to
        #                            sqrt(k) read as sqrt(k)
        self.inline_calls = False  # follow call statements into functions of the same TU
        self.expand = False    # distribute products of sums instead of atomising the factors
        self.lenient = False   # skip statements that cannot be interpreted (their targets become unknown)
        self.unroll = False    # execute counted loops with constant bounds iteration by iteration
        self.max_iter = 400
        self.concrete = {}     # field key / variable name -> constant, for unrolling
        self._ladder_nodes = set()
        self.calls = []        # call statements met: {name, args: [Poly|None], conds, node}
        self.skipped = []

    # ---- degrees -------------------------------------------------------------------------
    def deg_atom(self, a):
        k = a[0]
        if k == "sym":
            return self.degs.get(a[1], (Fr(0), Fr(0)))
        if k == "elem":
            return self.degs.get(a[1], (Fr(0), Fr(0)))
        if k == "sum":
            return self.deg_poly(Poly(dict(a[1])), note=False)
        if k == "pow":
            b = self.deg_poly(Poly(dict(a[1])), note=False)
            e = affine_l(Poly(dict(a[2])), self.l_role)
            if b is None or e is None or b[1] != 0:
                return None
            return (b[0] * e[0], b[0] * e[1])
        return (Fr(0), Fr(0))

    def deg_mono(self, m):
        d0 = d1 = Fr(0)
        for a, e in m:
            d = self.deg_atom(a)
            if d is None:
                return None
            d0 += d[0] * e
            d1 += d[1] * e
        return (d0, d1)

    def deg_poly(self, p, note=True, where=""):
        ds = set()
        for m in p.t:
            ds.add(self.deg_mono(m))
        if not ds:
            return (Fr(0), Fr(0))  # literal zero: any degree
        if None in ds:
            return None
        if len(ds) > 1:
            if note:
                self.mismatches.append((where, "terms of a sum have different degrees: %s" % sorted(
                    ("%s%+s*l" % d for d in ds))))
            return None
        return ds.pop()

    # ---- atomisation ---------------------------------------------------------------------
    def atomise(self, p, where=""):
        """a polynomial as a single factor"""
        if p.single():
            return p
        if not p.t:
            return p
        self.deg_poly(p, where=where)  # records an inhomogeneous sum
        return Poly.atom(("sum", p.canon()))

    def mul(self, a, b, where=""):
        if getattr(self, "exact_roots", False):
            return fold_nums(a.mul_raw(b)) if (self.expand or a.single() or b.single()) else \
                fold_nums(self.atomise(a, where).mul_raw(self.atomise(b, where)))
        if getattr(self, "factor_sums", False) and not (a.is_const() or b.is_const()):
            # keep every sum as one factor (for ratios such as (n-1)/(m-1), which must cancel as wholes)
            return self.atomise(a, where).mul_raw(self.atomise(b, where))
        if self.expand or a.is_const() or b.is_const() or a.single() or b.single():
            return a.mul_raw(b)
        return self.atomise(a, where).mul_raw(self.atomise(b, where))

    def inv(self, p, where=""):
        p = self.atomise(p, where)
        if not p.t:
            raise AnalysisError("division by literal zero in %s" % where)
        (m, c), = p.t.items()
        r = Poly({_mono({a: -e for a, e in m}): 1 / c})
        return fold_nums(r) if getattr(self, "exact_roots", False) else r

    def powc(self, p, e, where=""):
        p = self.atomise(p, where)
        if not p.t:
            return p
        (m, c), = p.t.items()
        d = {a: x * e for a, x in m}
        if e.denominator == 1:
            cc = c ** int(e) if e >= 0 else 1 / (c ** int(-e))
            return Poly({_mono(d): cc})
        r = _rat_root(c, e)
        if r is not None:
            return Poly({_mono(d): r})
        if self.exact_roots and c > 0:
            # c**e over the primes of c: a unique normal form in Q(sqrt(2), sqrt(3), ...)
            cc = Fr(1)
            for prime, mult in _factor(c.numerator).items():
                d[("num", Fr(prime))] = d.get(("num", Fr(prime)), 0) + mult * e
            for prime, mult in _factor(c.denominator).items():
                d[("num", Fr(prime))] = d.get(("num", Fr(prime)), 0) - mult * e
            return fold_nums(Poly({_mono(d): cc}))
        d[("num", c)] = d.get(("num", c), 0) + e
        return Poly({_mono(d): Fr(1)})

    # ---- expressions ---------------------------------------------------------------------
    def expr(self, n, env):
        k = n.get("kind")
        if k in ("ImplicitCastExpr", "ParenExpr", "CStyleCastExpr", "ConstantExpr"):
            ks = cfacts.kids(n)
            if k == "CStyleCastExpr" and _bt(n) == "int" and _bt(ks[0]) not in INT_TYPES:
                v = self.expr(ks[0], env)
                x = numeric_value(v)
                if x is not None:
                    return Poly.const(int(x))  # truncation of a number
                return Poly.atom(("fn", "(int)", (v.canon(),)))
            return self.expr(ks[0], env)
        if k == "ImaginaryLiteral":
            return self.mul(self.expr(cfacts.kids(n)[0], env), Poly.atom(IMAG))
        if k == "IntegerLiteral":
            return Poly.const(int(n["value"]))
        if k == "FloatingLiteral":
            if self.exact_roots:
                r = _sqrt_literal(n["value"])
                if r is not None:
                    return self.powc(Poly.const(r), Fr(1, 2))
            return Poly.const(Fr(n["value"]))
        if k == "DeclRefExpr":
            return self.read_var(n, env)
        if k == "UnaryOperator":
            op = n.get("opcode")
            sub = cfacts.kids(n)[0]
            if op == "-":
                return -self.expr(sub, env)
            if op in ("+", "__extension__"):
                return self.expr(sub, env)
            if op in ("!", "~"):
                v = self.expr(sub, env)
                cv = v.const_value()
                if cv is not None and cv.denominator == 1:
                    return Poly.const((0 if cv != 0 else 1) if op == "!" else ~int(cv))
                return Poly.atom(("fn", op, (v.canon(),)))
            if op == "*":
                ptr = self.pointer(sub, env)
                return self.load(ptr, Poly(), env)
            raise AnalysisError("unsupported unary operator %s in %s" % (op, self.where(n)))
        if k == "BinaryOperator":
            op = n.get("opcode")
            a, b = cfacts.kids(n)
            if op in ("+", "-") and _is_ptr(n):
                raise AnalysisError("pointer arithmetic used as a value in %s" % self.where(n))
            if op == "+":
                return self.expr(a, env) + self.expr(b, env)
            if op == "-":
                return self.expr(a, env) - self.expr(b, env)
            if op == "*":
                return self.mul(self.expr(a, env), self.expr(b, env), self.where(n))
            if op == "/":
                x, y = self.expr(a, env), self.expr(b, env)
                if _bt(n) in INT_TYPES:
                    cx, cy = x.const_value(), y.const_value()
                    if cx is not None and cy is not None and cy != 0 and not x.t.keys() - {()}:
                        return Poly.const(int(cx) // int(cy) if cx * cy >= 0 else -(-int(cx) // int(cy)))
                    return Poly.atom(("fn", "idiv", (x.canon(), y.canon())))
                return self.mul(x, self.inv(y, self.where(n)), self.where(n))
            if op == "%":
                x, y = self.expr(a, env), self.expr(b, env)
                cx, cy = x.const_value(), y.const_value()
                if cx is not None and cy is not None and cy != 0 and cx.denominator == 1 and cy.denominator == 1:
                    q = abs(int(cx)) % abs(int(cy))
                    return Poly.const(q if cx >= 0 else -q)
                return Poly.atom(("fn", "imod", (x.canon(), y.canon())))
            if op in ("&", "|", "^", "<<", ">>"):
                x, y = self.expr(a, env), self.expr(b, env)
                cx, cy = x.const_value(), y.const_value()
                if cx is not None and cy is not None and cx.denominator == 1 and cy.denominator == 1 and (
                        op not in ("<<", ">>") or 0 <= cy < 63):
                    ix, iy = int(cx), int(cy)
                    return Poly.const({"&": ix & iy, "|": ix | iy, "^": ix ^ iy, "<<": ix << iy, ">>": ix >> iy}[op])
                return Poly.atom(("fn", op, (x.canon(), y.canon())))
            if op in ("<", ">", "<=", ">=", "==", "!=", "&&", "||"):
                x, y = self.expr(a, env), self.expr(b, env)
                cx, cy = x.const_value(), y.const_value()
                if cx is not None and cy is not None:
                    r = {"<": cx < cy, ">": cx > cy, "<=": cx <= cy, ">=": cx >= cy, "==": cx == cy,
                         "!=": cx != cy, "&&": bool(cx) and bool(cy), "||": bool(cx) or bool(cy)}[op]
                    return Poly.const(1 if r else 0)
                return Poly.atom(("fn", op, (x.canon(), y.canon())))
            raise AnalysisError("unsupported binary operator %s in %s" % (op, self.where(n)))
        if k == "ArraySubscriptExpr":
            base, idx = cfacts.kids(n)
            ptr = self.pointer(base, env)
            return self.load(ptr, self.expr(idx, env), env)
        if k == "CallExpr":
            return self.call(n, env)
        if k == "ConditionalOperator":
            c, a, b = cfacts.kids(n)
            cv, av, bv = self.expr(c, env), self.expr(a, env), self.expr(b, env)
            c0 = cv.const_value()
            if c0 is not None:
                return av if c0 != 0 else bv
            # b + [c]*(a - b): the same normal form as the merge after `if (c) x = a;`
            return bv + self.mul(Poly.atom(("guard", cv.canon())), av - bv)
        if k == "MemberExpr":
            key = self.field_key(n, env)
            if key in env["fields"]:
                v = env["fields"][key]
                if v is None:
                    raise AnalysisError("field %s is not tracked (%s)" % (key, self.where(n)))
                return v
            tk = key.split("@")[0]
            if tk in env.get("fields_by_type", {}):
                return env["fields_by_type"][tk]
            if tk in self.concrete:
                return Poly.const(self.concrete[tk])
            return Poly.atom(("sym", key))
        if k == "UnaryExprOrTypeTraitExpr":
            return Poly.atom(("sym", "sizeof:" + norm_c(self.tu.text_of(n))))
        raise AnalysisError("unsupported expression kind %s in %s" % (k, self.where(n)))

    def field_key(self, n, env=None):
        """member:<struct type>.<field>@<the object>.  `s.f` and `p->f` of the same struct type give the same type
        part; a pointer parameter bound to `&obj` of the caller names the caller's object, so that fields read
        and written through it alias the caller's fields."""
        ks = cfacts.kids(n)
        bt = base_type(_qt(ks[0])).replace("*", "").replace("struct ", "").strip() if ks else "?"
        obj = norm_c(self.tu.text_of(ks[0])) if ks else "?"
        b = cfacts.strip(ks[0]) if ks else {}
        if b.get("kind") == "UnaryOperator" and b.get("opcode") == "*":
            b = cfacts.strip(cfacts.kids(b)[0])
        if b.get("kind") == "DeclRefExpr":
            obj = str(b.get("referencedDecl", {}).get("name"))  # (text_of would run on into `.field`)
        if env is not None and b.get("kind") == "DeclRefExpr":
            bound = env["ptrs"].get(b.get("referencedDecl", {}).get("id"))
            if bound is not None and not bound[1].t:
                # the object is what the pointer points to (the caller's object when the pointer came in as an
                # argument), not the spelling of the pointer variable
                obj = bound[0][4:] if str(bound[0]).startswith("obj:") else str(bound[0])
        return "member:%s.%s@%s" % (bt, n.get("name"), obj)

    def where(self, n):
        return "%s:%s `%s`" % (self.tu.rel, self.tu.line_of(n), re.sub(r"\s+", " ", self.tu.text_of(n))[:80])

    def read_var(self, n, env):
        rd = n.get("referencedDecl", {})
        did = rd.get("id")
        if did in env["vals"]:
            v = env["vals"][did]
            if v is None:
                raise AnalysisError("read of %s whose value is not tracked (%s)" % (rd.get("name"), self.where(n)))
            return v
        if did in env.get("carried", ()) and base_type(_qtd(rd)) in INT_TYPES:
            # an integer carried across iterations (running maximum, counter): opaque, never equal to anything
            return Poly.atom(("sym", "carried:" + str(rd.get("name"))))
        if did in env.get("carried", ()):
            raise AnalysisError("loop-carried scalar %s read before it is assigned in the loop body (%s)" % (
                rd.get("name"), self.where(n)))
        if rd.get("kind") in ("VarDecl", "ParmVarDecl"):
            role = env["roles"].get(did)
            if role is not None:
                return Poly.atom(("sym", role))
            if base_type(_qtd(rd)) in INT_TYPES:
                return Poly.atom(("sym", "int:" + str(rd.get("name"))))
            raise AnalysisError("read of untracked variable %s in %s" % (rd.get("name"), self.where(n)))
        if rd.get("kind") == "EnumConstantDecl":
            if rd.get("name") in ENUM_CONSTS:
                return Poly.const(ENUM_CONSTS[rd.get("name")])
            return Poly.atom(("sym", "enum:" + str(rd.get("name"))))
        raise AnalysisError("unsupported reference %s in %s" % (rd.get("name"), self.where(n)))

    # pointers: (root role, offset poly)
    def pointer(self, n, env):
        n = cfacts.strip(n)
        k = n.get("kind")
        if k == "DeclRefExpr":
            did = n.get("referencedDecl", {}).get("id")
            if did in env["ptrs"]:
                p = env["ptrs"][did]
                if p is None:
                    raise AnalysisError("pointer %s is not tracked (%s)" % (n["referencedDecl"].get("name"), self.where(n)))
                return p
            role = env["roles"].get(did)
            if role is None:
                role = "ptr:" + str(n.get("referencedDecl", {}).get("name"))
            return (role, Poly())
        if k == "BinaryOperator" and n.get("opcode") in ("+", "-"):
            a, b = cfacts.kids(n)
            if _is_ptr(a):
                r, off = self.pointer(a, env)
                d = self.expr(b, env)
                return (r, off + d if n["opcode"] == "+" else off - d)
            if _is_ptr(b) and n["opcode"] == "+":
                r, off = self.pointer(b, env)
                return (r, off + self.expr(a, env))
        if k == "MemberExpr":
            return (self.field_key(n, env), Poly())
        if k == "ArraySubscriptExpr" or k == "CallExpr":
            return ("ptr:" + norm_c(self.tu.text_of(n)), Poly())
        if k == "UnaryOperator" and n.get("opcode") == "&":
            sub = cfacts.strip(cfacts.kids(n)[0])
            if sub.get("kind") == "ArraySubscriptExpr":
                base, idx = cfacts.kids(sub)
                r, off = self.pointer(base, env)
                return (r, off + self.expr(idx, env))
            if sub.get("kind") == "DeclRefExpr" and not _is_ptr(sub):
                return ("obj:" + str(sub.get("referencedDecl", {}).get("name")), Poly())  # address of an object
            if sub.get("kind") == "MemberExpr":
                return (self.field_key(sub, env), Poly())
        raise AnalysisError("unsupported pointer expression in %s" % self.where(n))

    def load(self, ptr, idx, env):
        role, off = ptr
        key = (role, (off + idx).canon())
        if key in env["mem"]:
            return env["mem"][key]
        if role in env.get("elem_values", ()):
            return env["elem_values"][role]  # every element of this input array stands for one given value
        tk = (role.split("@")[0], (off + idx).canon())
        if tk in env.get("mem_by_type", ()):
            return env["mem_by_type"][tk]  # contents of a struct's array filled by another function (set-up)
        if role.split("@")[0] in env.get("zero_roots", ()) and (off + idx).is_const():
            return Poly()  # element of a zero-initialised buffer that has not been written
        return Poly.atom(("elem", role, (off + idx).canon()))

    def call(self, n, env):
        ks = cfacts.kids(n)
        callee = cfacts.strip(ks[0])
        if callee.get("kind") == "UnaryOperator" and callee.get("opcode") == "*":
            callee = cfacts.strip(cfacts.kids(callee)[0])
        name = callee.get("referencedDecl", {}).get("name") if callee.get("kind") == "DeclRefExpr" else None
        args = ks[1:]
        if name in ("pow",) and len(args) == 2:
            x, y = self.expr(args[0], env), self.expr(args[1], env)
            cy = y.const_value()
            if cy is not None:
                return self.powc(x, cy, self.where(n))
            x = self.atomise(x, self.where(n))
            return Poly.atom(("pow", x.canon(), y.canon()))
        if name in ("creal", "cimag") and len(args) == 1:
            re_, im_ = complex_parts(self.expr(args[0], env))
            return re_ if name == "creal" else im_
        if name == "sqrt" and len(args) == 1:
            return self.powc(self.expr(args[0], env), Fr(1, 2), self.where(n))
        if name in ("fabs",) and len(args) == 1:
            return Poly.atom(("fn", name, (self.expr(args[0], env).canon(),)))
        if name in self.LIBM_DIMLESS:
            vals = [self.expr(a, env) for a in args]
            if name == "log" and len(vals) == 1:
                r = log_of_power(vals[0])
                if r is not None:
                    return r
            for v in vals:
                d = self.deg_poly(v, where=self.where(n))
                if d is not None and d != (0, 0):
                    self.mismatches.append((self.where(n), "argument of %s() has degree %s%+s*l, expected a "
                                                           "dimensionless quantity" % (name, d[0], d[1])))
            return Poly.atom(("fn", name, tuple(v.canon() for v in vals)))
        if callee.get("kind") == "DeclRefExpr" and callee.get("referencedDecl", {}).get("kind") in ("VarDecl", "ParmVarDecl"):
            # call through a function pointer: an opaque function of its (scalar) arguments
            return Poly.atom(("fn", "<fptr:%s>" % name, tuple(self.expr(a, env).canon() for a in args)))
        if name in self.tu.funcs:
            vals = []
            for a in args:
                if _is_ptr(a):
                    vals.append(("ptr", self.pointer(a, env)))
                else:
                    vals.append(self.expr(a, env))
            return self.call_tu(name, vals, n, caller=env)
        raise AnalysisError("call of %s cannot be evaluated (%s)" % (name, self.where(n)))

    def call_tu(self, name, argvals, site=None, caller=None, need_value=True):
        """value returned by a function of this TU; scalar arguments are polynomials, pointer arguments
        ("ptr", (root, offset)) alias the caller's memory (stores made by the callee are the caller's)"""
        if self.depth > 12:
            raise AnalysisError("recursion too deep evaluating %s" % name)
        ps = self.tu.params(name)
        if len(ps) != len(argvals):
            raise AnalysisError("call of %s with %d arguments, %d parameters" % (name, len(argvals), len(ps)))
        env = new_env()
        if caller is not None:
            for k in ("mem", "stores", "fields", "fields_by_type", "allocs", "zero_roots"):
                if k in caller:
                    env[k] = caller[k]
            env["conds"] = list(caller["conds"])
        for p, v in zip(ps, argvals):
            if isinstance(v, tuple) and len(v) == 2 and v[0] == "ptr":
                env["ptrs"][p.get("id")] = v[1]
            elif v is not None:
                env["vals"][p.get("id")] = v
        self.depth += 1
        try:
            r = self.block(self.tu.body(name), env)
        finally:
            self.depth -= 1
        if r is None and need_value:
            raise AnalysisError("%s has no return value on its straight-line path" % name)
        return r

    # ---- statements ----------------------------------------------------------------------
    def block(self, n, env):
        """interpret a statement; returns the value of a `return` if one is executed"""
        n = omp_unwrap(n)
        k = n.get("kind")
        if self.lenient and k not in ("CompoundStmt", "ForStmt", "IfStmt", "SwitchStmt"):
            try:
                return self._block(n, env)
            except AnalysisError as e:
                self.skipped.append(str(e))
                for did in _assigned_info(n):
                    env["vals"][did] = None
                return None
        return self._block(n, env)

    def _block(self, n, env):
        k = n.get("kind")
        if k == "CompoundStmt":
            for s in cfacts.kids(n):
                r = self.block(s, env)
                if r is not None:
                    return r
                if s.get("kind") == "BreakStmt":
                    break
            return None
        if k in ("NullStmt", "BreakStmt", "ContinueStmt"):
            return None
        if k == "DeclStmt":
            for d in cfacts.kids(n):
                if d.get("kind") != "VarDecl":
                    continue
                init = [c for c in cfacts.kids(d) if c.get("kind") not in ("FullComment",)]
                t = _qt(d)
                if "*" in t or "[" in t:
                    if init and "[" not in t:
                        try:
                            env["ptrs"][d["id"]] = self.pointer(init[0], env)
                        except AnalysisError:
                            env["ptrs"][d["id"]] = ("local:" + d.get("name", "?"), Poly())
                    else:
                        env["ptrs"][d["id"]] = ("local:" + d.get("name", "?"), Poly())
                elif init:
                    env["vals"][d["id"]] = self.value_or_none(init[0], env)
                else:
                    env["vals"].pop(d["id"], None)
                    env["undef"].add(d["id"])
            return None
        if k == "ReturnStmt":
            ks = cfacts.kids(n)
            return self.expr(ks[0], env) if ks else Poly()
        if k == "BinaryOperator" and n.get("opcode") == "=":
            l, r = cfacts.kids(n)
            self.assign(l, r, env, None)
            return None
        if k == "CompoundAssignOperator":
            l, r = cfacts.kids(n)
            self.assign(l, r, env, n.get("opcode")[:-1])
            return None
        if k == "UnaryOperator" and n.get("opcode") in ("++", "--"):
            sub = cfacts.strip(cfacts.kids(n)[0])
            if sub.get("kind") == "DeclRefExpr":
                did = sub["referencedDecl"]["id"]
                if did in env["ptrs"] and env["ptrs"][did] is not None:
                    r, off = env["ptrs"][did]
                    env["ptrs"][did] = (r, off + Poly.const(1 if n["opcode"] == "++" else -1))
                elif did in env["vals"] and env["vals"][did] is not None:
                    env["vals"][did] = env["vals"][did] + Poly.const(1 if n["opcode"] == "++" else -1)
            return None
        if k == "BinaryOperator" and n.get("opcode") == ",":
            for s in cfacts.kids(n):
                self.block(s, env)
            return None
        if k == "ForStmt":
            return self._for(n, env)
        if k in ("WhileStmt", "DoStmt"):
            ks = cfacts.kids(n)
            body = ks[-1] if k == "WhileStmt" else ks[0]
            info = _assigned_info(body)
            for did in info:
                env["vals"].pop(did, None)
            old = env.get("carried", set())
            env["carried"] = set(old) | set(info)
            r = self.block(body, env)
            env["carried"] = old
            self._after_loop(info, env, set())
            return r
        if k == "IfStmt":
            return self._if(n, env)
        if k == "SwitchStmt":
            sw = switch_groups(self.tu, n)
            res = {"node": n, "var": sw["var"], "var_text": sw["var_text"], "groups": []}
            for g in sw["cases"]:
                e2 = fork_env(env)
                n0 = len(e2["stores"])
                for s in g["stmts"]:
                    if s.get("kind") in ("BreakStmt", "ReturnStmt"):
                        break
                    self.block(s, e2)
                res["groups"].append({"values": g["values"], "default": g["default"], "breaks": g["breaks"],
                                      "stores": e2["stores"][n0:], "mem": e2["mem"], "node": g["node"], "env": e2})
            self.switch_results.append(res)
            # effects seen after the switch: stores of every group (tagged with the selecting condition);
            # scalars / pointers / fields that the groups leave different are unknown
            allv = []
            for g in res["groups"]:
                allv += g["values"]
            for g in res["groups"]:
                if g["values"]:
                    tag = "||".join("%s==%s" % (res["var_text"], v) for v in g["values"])
                else:
                    tag = "!(" + "||".join("%s==%s" % (res["var_text"], v) for v in allv) + ")"
                for st in g["stores"]:
                    st2 = dict(st)
                    st2["conds"] = tuple(env["conds"]) + (tag,) + tuple(st["conds"][len(env["conds"]):])
                    env["stores"].append(st2)
            has_default = any(g["default"] for g in res["groups"])
            envs = [g["env"] for g in res["groups"]] + ([] if has_default else [env])
            for tab in ("vals", "fields", "ptrs"):
                keys = set()
                for e2 in envs:
                    keys |= set(e2[tab])
                base = dict(env[tab])
                for key in keys:
                    vs = [e2[tab].get(key, MISSING) for e2 in envs]
                    if all(v == vs[0] for v in vs):
                        if vs[0] is MISSING:
                            env[tab].pop(key, None)
                        else:
                            env[tab][key] = vs[0]
                    else:
                        env[tab][key] = None
            for g in res["groups"]:
                for key, v in g["mem"].items():
                    if env["mem"].get(key, MISSING) != v:
                        env["mem"][key] = Poly.atom(("sym", "unknown:%s" % (key[0],)))
                g.pop("env", None)
            return None
        if k == "CallExpr":
            callee = cfacts.strip(cfacts.kids(n)[0])
            name = callee.get("referencedDecl", {}).get("name")
            if name in ("printf", "free", "exit", "fprintf"):
                return None
            args = []
            for a in cfacts.kids(n)[1:]:
                try:
                    args.append(None if _is_ptr(a) else self.expr(a, env))
                except AnalysisError:
                    args.append(None)
            self.calls.append({"name": name, "args": args, "conds": tuple(env["conds"]), "node": n})
            if self.inline_calls and name in self.tu.funcs and self.tu.body(name) is not None:
                # one level of helper extraction: the callee's stores through its pointer parameters are
                # made on the caller's arrays
                vals = []
                for a, v in zip(cfacts.kids(n)[1:], args):
                    vals.append(("ptr", self.pointer(a, env)) if _is_ptr(a) else v)
                # (an argument that is not a number or a pointer -- a struct by value -- stays unbound: the callee
                # reads its members as symbols)
                self.call_tu(name, vals, n, caller=env, need_value=False)
            return None
        raise AnalysisError("unsupported statement kind %s (%s)" % (k, self.where(n)))

    # -- loops ---------------------------------------------------------------------------------
    def _canonical_for(self, ks, env):
        """for (i = a; i < n; i++)  ->  (decl id of i, a, n_node, strict) or None"""
        init, cond, inc = ks[0], ks[2], ks[3]
        did = a = None
        if isinstance(init, dict) and init.get("kind") == "BinaryOperator" and init.get("opcode") == "=":
            l, r = cfacts.kids(init)
            l = cfacts.strip(l)
            if l.get("kind") == "DeclRefExpr":
                did, a = l["referencedDecl"]["id"], r
        elif isinstance(init, dict) and init.get("kind") == "DeclStmt":
            vs = [d for d in cfacts.kids(init) if d.get("kind") == "VarDecl"]
            if len(vs) == 1:
                iv = [c for c in cfacts.kids(vs[0]) if c.get("kind") != "FullComment"]
                if iv:
                    did, a = vs[0]["id"], iv[0]
        if did is None or not isinstance(cond, dict) or cond.get("kind") != "BinaryOperator" \
                or cond.get("opcode") not in ("<", "<="):
            return None
        cl, cr = cfacts.kids(cond)
        cl = cfacts.strip(cl)
        if cl.get("kind") != "DeclRefExpr" or cl["referencedDecl"]["id"] != did:
            return None
        if not isinstance(inc, dict) or not inc.get("kind"):
            return None
        incs = cfacts.kids(inc) if (inc.get("kind") == "BinaryOperator" and inc.get("opcode") == ",") else [inc]
        ok = False
        for x in incs:
            if x.get("kind") == "UnaryOperator" and x.get("opcode") == "++":
                t = cfacts.strip(cfacts.kids(x)[0])
                if t.get("kind") == "DeclRefExpr" and t["referencedDecl"]["id"] == did:
                    ok = True
        if not ok:
            return None
        return did, a, cr, cond.get("opcode") == "<", incs

    def _step_of(self, st, env):
        """`c++`, `c--`, `c += K`, `c -= K` on an integer scalar -> (decl id, K poly) or None"""
        st = omp_unwrap(st)
        if st.get("kind") == "UnaryOperator" and st.get("opcode") in ("++", "--"):
            t = cfacts.strip(cfacts.kids(st)[0])
            if t.get("kind") == "DeclRefExpr" and not _is_ptr(t):
                return t["referencedDecl"]["id"], Poly.const(1 if st["opcode"] == "++" else -1)
        if st.get("kind") == "CompoundAssignOperator" and st.get("opcode") in ("+=", "-="):
            l, r = cfacts.kids(st)
            t = cfacts.strip(l)
            if t.get("kind") == "DeclRefExpr" and not _is_ptr(t) and _bt(t) in INT_TYPES:
                try:
                    kv = self.expr(r, env)
                except AnalysisError:
                    return None
                return t["referencedDecl"]["id"], kv if st["opcode"] == "+=" else -kv
        return None

    def _after_loop(self, info, env, keep):
        for did, (name, typ) in info.items():
            if did in keep:
                continue
            if base_type(typ) in INT_TYPES:
                env["vals"][did] = Poly.atom(("sym", "afterloop:%s" % name))
            else:
                env["vals"][did] = None

    def _for(self, n, env):
        ks = n.get("inner") or []
        while len(ks) < 5:
            ks = ks + [{}]
        body = ks[-1]
        init = ks[0] if isinstance(ks[0], dict) and ks[0].get("kind") else None
        inc = ks[3] if isinstance(ks[3], dict) and ks[3].get("kind") else None
        canon = self._canonical_for(ks, env)
        # ---- concrete execution of a loop with constant bounds
        if self.unroll and canon is not None:
            did, a, cr, strict, incs = canon
            try:
                lo = self.expr(a, env).const_value()
                hi = self.expr(cr, env).const_value()
            except AnalysisError:
                lo = hi = None
            if lo is not None and hi is not None:
                i = int(lo)
                last = int(hi) - (1 if strict else 0)
                count = 0
                while i <= last:
                    count += 1
                    if count > self.max_iter:
                        raise AnalysisError("loop bound too large for unrolling (%s)" % self.where(n))
                    env["vals"][did] = Poly.const(i)
                    r = self.block(body, env)
                    if r is not None:
                        return r
                    for x in incs:
                        self.block(x, env)
                    v = env["vals"].get(did)
                    cv = v.const_value() if v is not None else None
                    if cv is None:
                        raise AnalysisError("induction variable modified in the body (%s)" % self.where(n))
                    i = int(cv)
                    last = int(self.expr(cr, env).const_value()) - (1 if strict else 0)
                env["vals"][did] = Poly.const(i)
                return None
        # ---- symbolic: the body is interpreted once, for a generic iteration
        info = _assigned_info(body)
        inc_info = _assigned_info(inc) if inc is not None else {}
        if init is not None:
            self.block(init, env)
            ind = set(_assigned_info(init))
            if init.get("kind") == "DeclStmt":
                ind |= {d["id"] for d in cfacts.kids(init) if d.get("kind") == "VarDecl"}
        else:
            ind = set()
        counters = {}
        if canon is not None:
            did, a, cr, strict, incs = canon
            try:
                a_v = self.expr(a, env)
                n_v = self.expr(cr, env) + (Poly() if strict else Poly.const(1))
            except AnalysisError:
                a_v = n_v = None
            if a_v is not None:
                # top-level unconditional steps of integer scalars assigned nowhere else in the loop
                tops = [omp_unwrap(x) for x in stmts_of(body)] + [x for x in incs]
                cand = {}
                for st in tops:
                    so = self._step_of(st, env)
                    if so is not None and so[0] != did:
                        cand.setdefault(so[0], []).append(so[1])
                counts = _assign_counts(body, inc)
                for c, kl in cand.items():
                    v0 = env["vals"].get(c)
                    if len(kl) == 1 and counts.get(c, 0) == 1 and v0 is not None and \
                            not any(_mentions_sym(kl[0], x) for x in ("int:", "carried:", "afterloop:")):
                        counters[c] = (v0, kl[0], a_v, n_v)
            ind.add(did)
        for d_ in ind | (set(inc_info) - set(counters)):
            env["vals"].pop(d_, None)
            env["index"].add(d_)
        if canon is not None:
            i_sym = None
            for x in walk_stmts(ks[2]):
                if x.get("kind") == "DeclRefExpr" and x["referencedDecl"]["id"] == canon[0]:
                    i_sym = Poly.atom(("sym", "int:" + str(x["referencedDecl"].get("name"))))
                    break
            for c, (v0, kk, a_v, n_v) in counters.items():
                env["vals"][c] = v0 + self.mul(kk, i_sym - a_v)
        carried = set(env.get("carried", ()))
        for d_ in set(info) | set(inc_info):
            if d_ in env["index"] or d_ in counters:
                continue
            env["vals"].pop(d_, None)
            carried.add(d_)
        old = env.get("carried", set())
        env["carried"] = carried - env["index"] - set(counters)
        r = self.block(body, env)
        env["carried"] = old
        self._after_loop({**info, **inc_info}, env, set(counters))
        for c, (v0, kk, a_v, n_v) in counters.items():
            env["vals"][c] = v0 + self.mul(kk, n_v - a_v)
        return r

    # -- branches ------------------------------------------------------------------------------
    def _record_ladder(self, n, env):
        """an if/else-if chain on `E == k` is reported like a switch (groups evaluated on forks)"""
        arms, var, var_node, cur, orelse = [], None, None, n, None
        while cur is not None and cur.get("kind") == "IfStmt":
            ks = cfacts.kids(cur)
            ec = _eq_consts(self.tu, ks[0])
            if ec is None or (var is not None and ec[0] != var):
                return
            var = ec[0]
            var_node = var_node or _eq_var_node(ks[0])
            self._ladder_nodes.add(id(cur))
            arms.append((ec[1], ks[1], cur))
            if cur.get("hasElse") and len(ks) > 2:
                cur = ks[2]
                if cur.get("kind") != "IfStmt":
                    orelse, cur = cur, None
            else:
                cur = None
        if len(arms) < 2 or var_node is None:
            return
        res = {"node": n, "var": var_node, "var_text": var, "groups": [], "form": "if"}
        for vals, stmt, node in arms + ([([], orelse, orelse)] if orelse is not None else []):
            e2 = fork_env(env)
            n0 = len(e2["stores"])
            try:
                self.block(stmt, e2)
            except AnalysisError:
                if not self.lenient:
                    raise
            res["groups"].append({"values": list(vals), "default": not vals, "breaks": True,
                                  "stores": e2["stores"][n0:], "mem": e2["mem"], "node": node})
        self.switch_results.append(res)

    def _if(self, n, env):
        ks = cfacts.kids(n)
        if id(n) not in self._ladder_nodes:
            saved = self.calls, self.skipped
            self.calls, self.skipped = list(self.calls), list(self.skipped)
            self._record_ladder(n, env)
            self.calls, self.skipped = saved
        cond_txt = norm_c(self.tu.text_of(ks[0]))
        try:
            cv = self.expr(ks[0], env)
        except AnalysisError:
            cv = Poly.atom(("sym", "cond:" + cond_txt))
        c0 = cv.const_value()
        has_else = bool(n.get("hasElse")) and len(ks) > 2
        if c0 is not None and self.unroll:
            if c0 != 0:
                return self.block(ks[1], env)
            return self.block(ks[2], env) if has_else else None
        guard = Poly.atom(("guard", cv.canon()))
        e1 = fork_env(env)
        e1["conds"] = env["conds"] + [cond_txt]
        r1 = self.block(ks[1], e1)
        e2 = fork_env(env)
        r2 = None
        if has_else:
            e2["conds"] = env["conds"] + ["!(" + cond_txt + ")"]
            r2 = self.block(ks[2], e2)
        if r1 is not None or r2 is not None:
            if r1 is not None and r2 is not None and r1 == r2:
                return r1
            if r1 is not None and r2 is None and not r1.t and not has_else:
                # `if (c) return;` in a void function: the rest of the body runs under !c
                n0 = len(env["stores"])
                env["stores"].extend(e1["stores"][n0:])
                env["conds"].append("!(" + cond_txt + ")")
                env.setdefault("early_returns", []).append(cond_txt)
                return None
            raise AnalysisError("conditional return (%s)" % self.where(n))
        for tab in ("vals", "fields"):
            before = env[tab]
            for key in set(e1[tab]) | set(e2[tab]) | set(before):
                v1, v2, v0 = e1[tab].get(key, MISSING), e2[tab].get(key, MISSING), before.get(key, MISSING)
                if v1 == v2:
                    new = v1
                elif not has_else and isinstance(v1, Poly) and isinstance(v0, Poly):
                    new = v0 + self.mul(guard, v1 - v0)
                elif has_else and isinstance(v1, Poly) and isinstance(v2, Poly):
                    new = v2 + self.mul(guard, v1 - v2)
                else:
                    new = None
                if new is MISSING:
                    before.pop(key, None)
                else:
                    before[key] = new
        for key in set(e1["ptrs"]) | set(e2["ptrs"]):
            p1, p2 = e1["ptrs"].get(key, MISSING), e2["ptrs"].get(key, MISSING)
            env["ptrs"][key] = p1 if p1 == p2 else None
        for key in set(e1["mem"]) | set(e2["mem"]):
            m1, m2 = e1["mem"].get(key, MISSING), e2["mem"].get(key, MISSING)
            if m1 == m2:
                env["mem"][key] = m1
            else:
                env["mem"][key] = Poly.atom(("sym", "unknown:%s" % (key[0],)))
        n0 = len(env["stores"])
        env["stores"].extend(e1["stores"][n0:])
        env["stores"].extend(e2["stores"][n0:])
        env["index"] |= e1["index"] | e2["index"]
        env["allocs"].update(e1["allocs"])
        env["allocs"].update(e2["allocs"])
        return None

    def value_or_none(self, n, env):
        if _is_ptr(n):
            return None
        return self.expr(n, env)

    def assign(self, l, r, env, op):
        l = cfacts.strip(l)
        if _is_ptr(l):
            if l.get("kind") in ("MemberExpr", "ArraySubscriptExpr"):
                # a pointer stored into an object: remember how a field was allocated, nothing else
                if l.get("kind") == "MemberExpr" and op is None:
                    rr = cfacts.strip(r)
                    callee = cfacts.strip(cfacts.kids(rr)[0]) if rr.get("kind") == "CallExpr" else {}
                    env["allocs"][self.field_key(l, env)] = callee.get("referencedDecl", {}).get("name") or \
                        norm_c(self.tu.text_of(rr))
                    if callee.get("referencedDecl", {}).get("name") == "calloc" and len(cfacts.kids(rr)) >= 2:
                        try:
                            env.setdefault("alloc_counts", {})[self.field_key(l, env)] = self.expr(cfacts.kids(rr)[1], env)
                        except AnalysisError:
                            pass
                return
            if l.get("kind") != "DeclRefExpr":
                raise AnalysisError("store to a pointer lvalue that is not a variable (%s)" % self.where(l))
            did = l["referencedDecl"]["id"]
            if op is None:
                env["ptrs"][did] = self.pointer(r, env)
            elif op in ("+", "-"):
                base = env["ptrs"].get(did)
                if base is None:
                    base = self.pointer(l, env)
                d = self.expr(r, env)
                env["ptrs"][did] = (base[0], base[1] + d if op == "+" else base[1] - d)
            else:
                raise AnalysisError("unsupported pointer update (%s)" % self.where(l))
            return
        rv = self.expr(r, env)
        if op is not None:
            old = self.expr(l, env)
            if op == "+":
                rv = old + rv
            elif op == "-":
                rv = old - rv
            elif op == "*":
                rv = self.mul(old, rv, self.where(l))
            elif op == "/":
                rv = self.mul(old, self.inv(rv, self.where(l)), self.where(l))
            else:
                raise AnalysisError("unsupported compound assignment %s= (%s)" % (op, self.where(l)))
        if l.get("kind") == "DeclRefExpr":
            did = l["referencedDecl"]["id"]
            env["vals"][did] = rv
            env["index"].discard(did)
            if "carried" in env:
                env["carried"] = set(env["carried"]) - {did}
            return
        if l.get("kind") == "ArraySubscriptExpr":
            base, idx = cfacts.kids(l)
            role, off = self.pointer(base, env)
            iv = off + self.expr(idx, env)
            env["mem"][(role, iv.canon())] = rv
            env["stores"].append({"root": role, "index": iv, "value": rv, "node": l,
                                  "conds": tuple(env["conds"])})
            return
        if l.get("kind") == "UnaryOperator" and l.get("opcode") == "*":
            role, off = self.pointer(cfacts.kids(l)[0], env)
            env["mem"][(role, off.canon())] = rv
            env["stores"].append({"root": role, "index": off, "value": rv, "node": l, "conds": tuple(env["conds"])})
            return
        if l.get("kind") == "MemberExpr":
            env["fields"][self.field_key(l, env)] = rv
            return
        raise AnalysisError("unsupported assignment target (%s)" % self.where(l))


IMAG = ("sym", "<I>")
MISSING = object()


def _factor(n):
    out, p = {}, 2
    n = int(n)
    while p * p <= n:
        while n % p == 0:
            out[p] = out.get(p, 0) + 1
            n //= p
        p += 1 if p == 2 else 2
    if n > 1:
        out[n] = out.get(n, 0) + 1
    return out


def fold_nums(p):
    """whole powers of ('num', c) atoms go into the coefficient: sqrt(3)*sqrt(3) = 3"""
    out = {}
    for m, c in p.t.items():
        d = {}
        for a, e in m:
            if a[0] == "num":
                k = e.numerator // e.denominator  # floor
                if k:
                    c = c * (a[1] ** k if k > 0 else 1 / (a[1] ** (-k)))
                e = e - k
            if e != 0:
                d[a] = d.get(a, 0) + e
        mm = _mono(d)
        out[mm] = out.get(mm, 0) + c
    return Poly(out)


def _sqrt_literal(text):
    """a double literal that is the double nearest to sqrt(k), 2 <= k <= 64 -> k"""
    import math
    try:
        v = float(text)
    except ValueError:
        return None
    for k in range(2, 65):
        r = math.sqrt(k)
        if r != int(r) and v == r:
            return Fr(k)
    return None


def numeric_value(p):
    """float value of a polynomial made of numbers and roots of numbers only, else None"""
    tot = 0.0
    for m, c in p.t.items():
        x = float(c)
        for a, e in m:
            if a[0] != "num":
                return None
            x *= float(a[1]) ** float(e)
        tot += x
    return tot


def log_of_power(p):
    """log(b**e) -> e * log(b) when p is exactly one pow(b, e) atom (the only logarithm law applied)"""
    if not p.single():
        return None
    (m, c), = p.t.items()
    if c != 1 or len(m) != 1 or m[0][1] != 1 or m[0][0][0] != "pow":
        return None
    a = m[0][0]
    return Poly(dict(a[2])).mul_raw(Poly.atom(("fn", "log", (a[1],))))


class PyPoly:
    """Python arithmetic expressions -> the same polynomial normal form (for formulas that have a C twin).
    names: {python name or 'self.attr' -> Poly}; unknown self attributes become symbols named by the attribute,
    local names are resolved through their single assignment in `fn`."""

    def __init__(self, fn=None, names=None, factor_sums=False):
        self.fn = fn
        self.names = dict(names or {})
        self.ev = Ev.__new__(Ev)
        self.ev.expand = False
        self.ev.mismatches = []
        self.ev.degs = {}
        self.ev.l_role = "l"
        self.ev.factor_sums = factor_sums
        self.ev.exact_roots = False
        self._depth = 0
        self.module_funcs = {}   # name -> FunctionDef: module-level functions whose return expression is inlined
        self.elementwise = {"gamma", "exp", "erf", "erfc", "log", "abs", "cos", "sin", "tanh", "cosh", "sinh", "arctan"}
        self.matrix_axes = False  # X[:, None] / X[None, :] read as the column / row broadcast of vector X

    def local_def(self, name):
        if self.fn is None:
            return None
        defs = [n.value for n in pf.walk_no_nested(self.fn) if isinstance(n, ast.Assign) and len(n.targets) == 1
                and isinstance(n.targets[0], ast.Name) and n.targets[0].id == name]
        return defs[0] if len(defs) == 1 else None

    def poly(self, e):
        if isinstance(e, ast.Constant) and isinstance(e.value, (int, float)) and not isinstance(e.value, bool):
            return Poly.const(Fr(repr(e.value)) if isinstance(e.value, float) else e.value)
        if isinstance(e, ast.Name):
            if e.id in self.names:
                return self.names[e.id]
            d = self.local_def(e.id)
            if d is not None and self._depth < 6:
                self._depth += 1
                try:
                    return self.poly(d)
                finally:
                    self._depth -= 1
            return Poly.atom(("sym", e.id))
        if isinstance(e, ast.Attribute):
            key = pf.src(e)
            if key in self.names:
                return self.names[key]
            if pf.is_self_attr(e):
                return Poly.atom(("sym", e.attr.lstrip("_")))
            return Poly.atom(("sym", key))
        if isinstance(e, ast.UnaryOp) and isinstance(e.op, (ast.USub, ast.UAdd)):
            v = self.poly(e.operand)
            return -v if isinstance(e.op, ast.USub) else v
        if isinstance(e, ast.BinOp):
            a, b = self.poly(e.left), self.poly(e.right)
            if isinstance(e.op, ast.Add):
                return a + b
            if isinstance(e.op, ast.Sub):
                return a - b
            if isinstance(e.op, ast.Mult):
                return self.ev.mul(a, b)
            if isinstance(e.op, ast.Div):
                return self.ev.mul(a, self.ev.inv(b, pf.src(e)))
            if isinstance(e.op, ast.Pow):
                cb = b.const_value()
                if cb is not None:
                    return self.ev.powc(a, cb, pf.src(e))
                return Poly.atom(("pow", self.ev.atomise(a).canon(), b.canon()))
        if isinstance(e, ast.Call):
            name = (pf.call_name(e) or "").split(".")[-1]
            if name in ("astype", "copy") and isinstance(e.func, ast.Attribute):
                return self.poly(e.func.value)
            if name in ("float", "int", "float64", "asarray", "array", "ascontiguousarray") and len(e.args) == 1:
                return self.poly(e.args[0])
            if name == "sqrt" and len(e.args) == 1:
                return self.ev.powc(self.poly(e.args[0]), Fr(1, 2))
            if name == "log" and len(e.args) == 1:
                v = self.poly(e.args[0])
                return log_of_power(v) or Poly.atom(("fn", "log", (v.canon(),)))
            if name in self.elementwise:
                return Poly.atom(("fn", name, tuple(self.poly(a).canon() for a in e.args)))
            if isinstance(e.func, ast.Name) and e.func.id in self.module_funcs and not e.keywords and self._depth < 6:
                callee = self.module_funcs[e.func.id]
                params = [a.arg for a in callee.args.args]
                rets = [x for x in pf.walk_no_nested(callee) if isinstance(x, ast.Return)]
                if len(params) == len(e.args) and len(rets) == 1 and rets[0].value is not None:
                    sub = PyPoly(callee, dict(zip(params, [self.poly(a) for a in e.args])), self.ev.factor_sums)
                    sub.module_funcs, sub.elementwise, sub.matrix_axes = self.module_funcs, self.elementwise, self.matrix_axes
                    sub._depth = self._depth + 1
                    return sub.poly(rets[0].value)
        if isinstance(e, ast.Subscript) and self.matrix_axes:
            idx = e.slice.elts if isinstance(e.slice, ast.Tuple) else [e.slice]
            full = [isinstance(x, ast.Slice) and x.lower is None and x.upper is None and x.step is None for x in idx]
            none = [isinstance(x, ast.Constant) and x.value is None for x in idx]
            if len(idx) == 2 and ((full[0] and none[1]) or (none[0] and full[1])):
                base = self.poly(e.value)
                if base.single() and next(iter(base.t.values())) == 1 and len(next(iter(base.t))) == 1 \
                        and next(iter(base.t))[0][0][0] == "sym" and next(iter(base.t))[0][1] == 1:
                    nm = next(iter(base.t))[0][0][1]
                    return Poly.atom(("sym", ("COL:" if full[0] else "ROW:") + nm))
        raise AnalysisError("python expression %s is outside the arithmetic fragment" % pf.src(e)[:80])


def _mentions_sym(p, prefix):
    return prefix in p.text()


def _assign_counts(body, inc):
    """decl id -> number of assignment sites (any depth) in a loop body and its increment slot"""
    out = {}
    for root in (body, inc):
        if not isinstance(root, dict) or not root.get("kind"):
            continue
        for x in walk_stmts(root):
            k = x.get("kind")
            tgt = None
            if (k == "BinaryOperator" and x.get("opcode") == "=") or k == "CompoundAssignOperator":
                tgt = cfacts.strip(cfacts.kids(x)[0])
            elif k == "UnaryOperator" and x.get("opcode") in ("++", "--"):
                tgt = cfacts.strip(cfacts.kids(x)[0])
            if tgt is not None and tgt.get("kind") == "DeclRefExpr":
                out[tgt["referencedDecl"]["id"]] = out.get(tgt["referencedDecl"]["id"], 0) + 1
    return out


def _assigned_info(n):
    """decl id -> (name, type) of the non-pointer variables assigned anywhere under n"""
    out = {}
    if not isinstance(n, dict) or not n.get("kind"):
        return out
    for x in walk_stmts(n):
        k = x.get("kind")
        tgt = None
        if (k == "BinaryOperator" and x.get("opcode") == "=") or k == "CompoundAssignOperator":
            tgt = cfacts.strip(cfacts.kids(x)[0])
        elif k == "UnaryOperator" and x.get("opcode") in ("++", "--"):
            tgt = cfacts.strip(cfacts.kids(x)[0])
        if tgt is not None and tgt.get("kind") == "DeclRefExpr" and not _is_ptr(tgt):
            out[tgt["referencedDecl"]["id"]] = (tgt["referencedDecl"].get("name"), _qt(tgt))
    return out


def complex_parts(p):
    """(real part, imaginary part) of a polynomial in the imaginary unit atom"""
    re_, im_ = {}, {}
    for m, c in p.t.items():
        k = Fr(0)
        rest = []
        for a, e in m:
            if a == IMAG:
                k = e
            else:
                if a[0] != "sym" and "<I>" in atom_text(a):
                    raise AnalysisError("imaginary unit inside an atomised factor: complex parts cannot be separated")
                rest.append((a, e))
        if k.denominator != 1:
            raise AnalysisError("fractional power of the imaginary unit")
        k = int(k) % 4
        sign = 1 if k in (0, 1) else -1
        tgt = re_ if k % 2 == 0 else im_
        mm = tuple(rest)
        tgt[mm] = tgt.get(mm, 0) + sign * c
    return Poly(re_), Poly(im_)


def global_const_arrays(tu):
    """file-scope `double NAME[n] = { [-]MACRO|number, ... };` -> {NAME: [Fraction]} (macros resolved through the
    -dM table; values rounded to double the way clang prints floating literals)"""
    out = {}
    for m in re.finditer(r"\bdouble\s+(\w+)\s*\[[^\]]*\]\s*=\s*\{([^}]*)\}", tu.text):
        vals = []
        for el in m.group(2).split(","):
            el = el.strip()
            if not el:
                continue
            sign = 1
            while el[:1] in "+-":
                sign = -sign if el[0] == "-" else sign
                el = el[1:].strip()
            txt = el
            seen = 0
            while txt in tu.macros and tu.macros[txt][0] is None and seen < 5:
                txt = tu.macros[txt][1].strip().strip("()")
                seen += 1
            try:
                vals.append(sign * Fr(repr(float(txt))))
            except ValueError:
                vals = None
                break
        if vals:
            out[m.group(1)] = vals
    return out


def new_env(roles=None):
    return {"vals": {}, "ptrs": {}, "mem": {}, "stores": [], "roles": dict(roles or {}), "index": set(),
            "undef": set(), "conds": [], "carried": set(), "fields": {}, "fields_by_type": {}, "allocs": {}}


def fork_env(env):
    e = {}
    for k, v in env.items():
        e[k] = v.copy() if hasattr(v, "copy") else v
    return e


def _assigned_scalars(n):
    out = set()
    if not isinstance(n, dict) or not n.get("kind"):
        return out
    for x in walk_stmts(n):
        k = x.get("kind")
        tgt = None
        if (k == "BinaryOperator" and x.get("opcode") == "=") or k == "CompoundAssignOperator":
            tgt = cfacts.strip(cfacts.kids(x)[0])
        elif k == "UnaryOperator" and x.get("opcode") in ("++", "--"):
            tgt = cfacts.strip(cfacts.kids(x)[0])
        if tgt is not None and tgt.get("kind") == "DeclRefExpr" and not _is_ptr(tgt):
            out.add(tgt["referencedDecl"]["id"])
    return out


def _qt(n):
    t = n.get("type")
    return t.get("qualType", "") if isinstance(t, dict) else ""


def _qtd(rd):
    return rd.get("type", {}).get("qualType", "")


def _is_ptr(n):
    t = base_type(_qt(n))
    return t.endswith("*") or t.endswith("]")


def _bt(n):
    return base_type(_qt(n))


INT_TYPES = ("int", "long", "size_t", "unsigned int", "unsigned long", "unsigned", "short", "char", "long long",
             "ssize_t", "ptrdiff_t", "int32_t", "int64_t", "uint32_t", "uint64_t")


def _rat_root(c, e):
    """c**e for rational c, e when the result is rational, else None"""
    if c < 0:
        return None
    q = e.denominator
    num = _int_root(c.numerator, q)
    den = _int_root(c.denominator, q)
    if num is None or den is None:
        return None
    base = Fr(num, den)
    p = e.numerator
    return base ** p if p >= 0 else 1 / (base ** (-p))


def _int_root(n, q):
    if n in (0, 1):
        return n
    r = round(n ** (1.0 / q))
    for c in (r - 1, r, r + 1):
        if c >= 0 and c ** q == n:
            return c
    return None


def affine_l(p, l_role="l"):
    """p = e0 + e1*l  ->  (e0, e1); None if p has any other monomial"""
    e0 = e1 = Fr(0)
    lm = ((("sym", l_role), Fr(1)),)
    for m, c in p.t.items():
        if m == ():
            e0 = c
        elif m == lm:
            e1 = c
        else:
            return None
    return (e0, e1)


# ======================================================================================
# 3. coordinate-use classification (C06 translation rule)
# ======================================================================================
class CoordUse:
    """Syntactic def-use classification inside one C function.

    `seeds` maps the decl id of a pointer (parameter or local) to 'G' (grid coordinates) or 'A' (atom
    coordinates).  Local pointers initialised/assigned from `root + offset` inherit the role and the
    offset.  An element read rooted at such a pointer is a *coordinate value* with a Cartesian
    component (see component()).  Scalar locals and constant-indexed elements of local arrays all of
    whose assignments are a bare coordinate value of one component are coordinate values too (pure
    copies).  uses() lists every occurrence of a coordinate value with the way it is consumed."""

    INT_T = ("int", "size_t", "long", "const int", "unsigned int", "unsigned long", "const size_t")

    def __init__(self, tu, fname, seeds):
        self.tu, self.fname = tu, fname
        self.body = tu.body(fname)
        self.role = dict(seeds)
        self.alias = {}  # decl id -> (root decl id, offset Poly)
        self.ev = Ev(tu)
        roles = {}
        self.int_params = set()
        for p in tu.params(fname):
            if _bt(p) in INT_TYPES:
                roles[p["id"]] = "param:" + p.get("name", "?")
                self.int_params.add("param:" + p.get("name", "?"))
        self.env = new_env(roles)
        self.parent = {}
        self.nodes = list(walk_stmts(self.body))
        for n in self.nodes:
            for c in cfacts.kids(n):
                self.parent[id(c)] = n
        self.local_arrays = set()
        for n in self.nodes:
            if n.get("kind") == "VarDecl" and "[" in _qt(n):
                self.local_arrays.add(n.get("id"))
        self._pointers()
        self.copies = {}  # key -> (role, comp): scalar decl id or (array decl id, const)
        self._copies()

    # -- pointers ------------------------------------------------------------------------------
    def _idx(self, n):
        try:
            return self.ev.expr(n, self.env)
        except AnalysisError:
            return Poly.atom(("sym", "opaque:" + norm_c(self.tu.text_of(n))))

    def _root(self, n):
        """pointer expression -> (root decl id, offset Poly) or None"""
        n = cfacts.strip(n)
        if n.get("kind") == "DeclRefExpr":
            did = n["referencedDecl"]["id"]
            off = Poly()
            seen = set()
            while did in self.alias and did not in seen:
                seen.add(did)
                did, o2 = self.alias[did]
                off = off + o2
            return did, off
        if n.get("kind") == "BinaryOperator" and n.get("opcode") in ("+", "-"):
            a, b = cfacts.kids(n)
            if _is_ptr(a):
                r = self._root(a)
                if r is None:
                    return None
                d = self._idx(b)
                return r[0], r[1] + (d if n["opcode"] == "+" else -d)
            if _is_ptr(b) and n["opcode"] == "+":
                r = self._root(b)
                return None if r is None else (r[0], r[1] + self._idx(a))
        return None

    def _pointers(self):
        for _ in range(4):
            changed = False
            for n in self.nodes:
                tgt = src = None
                if n.get("kind") == "VarDecl" and _is_ptr(n) and "[" not in _qt(n):
                    ks = [c for c in cfacts.kids(n) if c.get("kind") != "FullComment"]
                    if ks:
                        tgt, src = n.get("id"), ks[0]
                elif n.get("kind") == "BinaryOperator" and n.get("opcode") == "=" and _is_ptr(n):
                    l, r = cfacts.kids(n)
                    l = cfacts.strip(l)
                    if l.get("kind") == "DeclRefExpr":
                        tgt, src = l["referencedDecl"]["id"], r
                if tgt is None or tgt in self.alias:
                    continue
                r = self._root(src)
                if r is not None and r[0] in self.role and r[0] != tgt:
                    self.alias[tgt] = r
                    self.role[tgt] = self.role[r[0]]
                    changed = True
            if not changed:
                break

    # -- coordinate values --------------------------------------------------------------------
    def component(self, idx):
        """Cartesian component encoded in an element index: 0, 1, 2, or the text of a symbolic selector
        (`coords[3*g + c]` and `atom[c]` both give 'param:c'); None when it cannot be told.
        interleaved xyz (`3*i + c`): what is left besides the stride-3 terms; planar (`c*n + i`, n an integer
        parameter of the function, i a loop index): coefficient of the size parameter(s); an index made of
        constants / parameters only (`[c]`, `[1]`): the index itself."""
        has3 = False
        rest = {}
        psum = Fr(0)
        loop_syms = False
        for m, c in idx.t.items():
            if m == ():
                rest[m] = c
                continue
            is_param = len(m) == 1 and m[0][1] == 1 and m[0][0][0] == "sym" and m[0][0][1] in self.int_params
            if c == 3:
                has3 = True  # stride of an interleaved xyz array (a planar selector is 0, 1 or 2)
                continue
            rest[m] = c
            if is_param:
                psum += c
            else:
                loop_syms = True
        if has3:
            comp = Poly(rest)
        elif loop_syms:
            # planar layout: size parameters select the plane; everything else walks inside the plane
            if any(len(m) == 1 and m[0][0][0] == "sym" and m[0][0][1] in self.int_params and m[0][1] != 1 for m in rest):
                return None
            comp = Poly.const(psum)
        else:
            comp = Poly(rest)
        cv = comp.const_value()
        if cv is not None:
            if cv.denominator != 1 or not (0 <= cv <= 2):
                return None
            return int(cv)
        return comp.text()

    def coord_value(self, n):
        """expression node -> (role, component or None) if it is a coordinate value"""
        n = cfacts.strip(n)
        k = n.get("kind")
        if k == "ArraySubscriptExpr":
            base, idx = cfacts.kids(n)
            b = cfacts.strip(base)
            if b.get("kind") == "DeclRefExpr" and b["referencedDecl"]["id"] in self.local_arrays:
                ci = const_int(idx)
                key = (b["referencedDecl"]["id"], ci)
                if ci is not None and key in self.copies:
                    return self.copies[key]
                return None
            r = self._root(base)
            if r is None or r[0] not in self.role:
                return None
            return self.role[r[0]], self.component(r[1] + self._idx(idx))
        if k == "UnaryOperator" and n.get("opcode") == "*":
            r = self._root(cfacts.kids(n)[0])
            if r is None or r[0] not in self.role:
                return None
            return self.role[r[0]], self.component(r[1])
        if k == "DeclRefExpr" and not _is_ptr(n):
            return self.copies.get(n["referencedDecl"]["id"])
        return None

    def _assignments(self):
        """(target key, rhs node, stmt) for scalar locals and constant elements of local arrays"""
        for n in self.nodes:
            if n.get("kind") == "VarDecl" and not _is_ptr(n):
                ks = [c for c in cfacts.kids(n) if c.get("kind") != "FullComment"]
                if ks:
                    yield n["id"], ks[0], n, None
            elif (n.get("kind") == "BinaryOperator" and n.get("opcode") == "=") or n.get("kind") == "CompoundAssignOperator":
                l, r = cfacts.kids(n)
                l = cfacts.strip(l)
                op = None if n.get("kind") == "BinaryOperator" else n.get("opcode")
                if l.get("kind") == "DeclRefExpr" and not _is_ptr(l):
                    yield l["referencedDecl"]["id"], r, n, op
                elif l.get("kind") == "ArraySubscriptExpr":
                    base, idx = cfacts.kids(l)
                    b = cfacts.strip(base)
                    if b.get("kind") == "DeclRefExpr" and b["referencedDecl"]["id"] in self.local_arrays:
                        ci = const_int(idx)
                        if ci is not None:
                            yield (b["referencedDecl"]["id"], ci), r, n, op

    def _copies(self):
        for _ in range(4):
            by_key = {}
            for key, rhs, st, op in self._assignments():
                by_key.setdefault(key, []).append((rhs, op))
            new = {}
            for key, lst in by_key.items():
                vals = set()
                for rhs, op in lst:
                    if op in ("*=", "/="):
                        continue  # a rescaled coordinate is still a coordinate value
                    cv = self.coord_value(rhs) if op is None else None
                    vals.add(cv)
                if len(vals) == 1 and None not in vals:
                    new[key] = vals.pop()
            if new == self.copies:
                break
            self.copies = new

    def _store_target(self, expr):
        """expr is the entire right-hand side of `T[...] = expr` with T not a local array ->
        source text of T's root pointer, else None"""
        cur = expr
        par = self.parent.get(id(cur))
        while par is not None and par.get("kind") in ("ImplicitCastExpr", "ParenExpr", "CStyleCastExpr"):
            cur, par = par, self.parent.get(id(par))
        if par is None or par.get("kind") != "BinaryOperator" or par.get("opcode") != "=":
            return None
        l, r = cfacts.kids(par)
        if r is not cur:
            return None
        l = cfacts.strip(l)
        if l.get("kind") != "ArraySubscriptExpr":
            return None
        b = cfacts.strip(cfacts.kids(l)[0])
        if b.get("kind") == "DeclRefExpr" and b["referencedDecl"]["id"] in self.local_arrays:
            return None
        r_ = self._root(cfacts.kids(l)[0])
        if r_ is not None:
            return "decl:%s" % r_[0]
        return norm_c(self.tu.text_of(cfacts.kids(l)[0]))

    def _copy_tracked(self, l):
        """the target of a pure copy is followed (scalar / constant element of a local array that is
        a recognised copy) or leaves the function (element of a non-local array)"""
        if l.get("kind") == "DeclRefExpr":
            return l["referencedDecl"]["id"] in self.copies
        if l.get("kind") == "ArraySubscriptExpr":
            base, idx = cfacts.kids(l)
            b = cfacts.strip(base)
            if b.get("kind") == "DeclRefExpr" and b["referencedDecl"]["id"] in self.local_arrays:
                ci = const_int(idx)
                return ci is not None and (b["referencedDecl"]["id"], ci) in self.copies
            return True
        return False

    def uses(self):
        """[ {node, role, comp, kind, other} ] for every rvalue occurrence of a coordinate value.
        kind: 'difference' (operand of `-` whose other operand is a coordinate value: other=(role, comp)),
              'copy' (entire right-hand side of an assignment / initialiser),
              'other' (anything else: parent node in `other`)"""
        out = []
        for n in self.nodes:
            k = n.get("kind")
            if k not in ("ArraySubscriptExpr", "UnaryOperator", "DeclRefExpr"):
                continue
            cv = self.coord_value(n)
            if cv is None:
                continue
            # climb over casts / parens
            cur = n
            par = self.parent.get(id(cur))
            while par is not None and par.get("kind") in ("ImplicitCastExpr", "ParenExpr", "CStyleCastExpr"):
                cur, par = par, self.parent.get(id(par))
            if par is None:
                continue
            pk = par.get("kind")
            # an lvalue (store target) is not a use
            if (pk == "BinaryOperator" and par.get("opcode") == "=") or pk == "CompoundAssignOperator":
                kids_ = cfacts.kids(par)
                if kids_ and kids_[0] is cur:
                    if pk == "CompoundAssignOperator" and par.get("opcode") not in ("*=", "/="):
                        out.append({"node": n, "role": cv[0], "comp": cv[1], "kind": "other", "other": par})
                    continue
                if pk == "BinaryOperator":
                    out.append({"node": n, "role": cv[0], "comp": cv[1], "kind": "copy", "other": par,
                                "tracked": self._copy_tracked(cfacts.strip(kids_[0])),
                                "target": self._store_target(cur)})
                    continue
            if pk == "VarDecl":
                out.append({"node": n, "role": cv[0], "comp": cv[1], "kind": "copy", "other": par,
                            "tracked": par.get("id") in self.copies})
                continue
            if k == "DeclRefExpr" and pk == "ArraySubscriptExpr":
                continue  # a copy used as an index is not a coordinate use (cannot happen for doubles)
            if pk == "BinaryOperator" and par.get("opcode") == "-":
                a, b = cfacts.kids(par)
                other = b if a is cur else a
                ocv = self.coord_value(other)
                if ocv is not None:
                    out.append({"node": n, "role": cv[0], "comp": cv[1], "kind": "difference", "other": ocv,
                                "stmt": par, "target": self._store_target(par)})
                    continue
            out.append({"node": n, "role": cv[0], "comp": cv[1], "kind": "other", "other": par})
        return out


# ======================================================================================
# 4. substitution, differentiation and rational-function comparison on the normal form
# ======================================================================================
def map_atoms(p, f, ev=None):
    """rebuild polynomial p replacing atoms: f(atom) -> Poly | None (None = keep, after mapping nested parts)"""
    ev = ev or _plain_ev()
    out = Poly()
    for m, c in p.t.items():
        term = Poly.const(c)
        for a, e in m:
            r = f(a)
            if r is None:
                r = Poly.atom(_map_nested(a, f, ev))
            if e == 1:
                term = term.mul_raw(r) if (term.single() or r.single()) else ev.mul(term, r)
            else:
                term = term.mul_raw(ev.powc(r, e))
        out = out + term
    return out


def _map_nested(a, f, ev):
    k = a[0]
    if k == "sum":
        inner = map_atoms(Poly(dict(a[1])), f, ev)
        return ("sum", inner.canon())
    if k == "pow":
        return ("pow", ev.atomise(map_atoms(Poly(dict(a[1])), f, ev)).canon(), map_atoms(Poly(dict(a[2])), f, ev).canon())
    if k == "fn":
        return ("fn", a[1], tuple(map_atoms(Poly(dict(x)), f, ev).canon() for x in a[2]))
    if k == "elem":
        return ("elem", a[1], map_atoms(Poly(dict(a[2])), f, ev).canon())
    if k == "guard":
        return ("guard", map_atoms(Poly(dict(a[1])), f, ev).canon())
    return a


def _plain_ev():
    ev = Ev.__new__(Ev)
    ev.expand = False
    ev.exact_roots = False
    ev.factor_sums = False
    ev.mismatches, ev.degs, ev.l_role = [], {}, "l"
    return ev


def depends_on(p, var):
    """does atom `var` occur in p, also inside nested sums / powers / function arguments / element indices"""
    def in_atom(a):
        if a == var:
            return True
        k = a[0]
        if k in ("sum", "guard"):
            return depends_on(Poly(dict(a[1])), var)
        if k == "pow":
            return depends_on(Poly(dict(a[1])), var) or depends_on(Poly(dict(a[2])), var)
        if k == "fn":
            return any(depends_on(Poly(dict(x)), var) for x in a[2])
        if k == "elem":
            return depends_on(Poly(dict(a[2])), var)
        return False
    return any(in_atom(a) for a in p.atoms())


def dlog_mono(m, var, ev):
    """d/dvar log(prod atom^e) = sum e * atom'/atom as a polynomial in atoms (negative powers allowed)"""
    out = Poly()
    for a, e in m:
        out = out + dlog_atom(a, var, ev).scale(e)
    return out


def dlog_atom(a, var, ev):
    """atom'/atom"""
    if a == var:
        return Poly({((a, Fr(-1)),): Fr(1)})
    k = a[0]
    if k in ("sym", "num", "elem"):
        return Poly()
    if k == "sum":
        d = d_poly(Poly(dict(a[1])), var, ev)
        return d.mul_raw(Poly({((a, Fr(-1)),): Fr(1)})) if d.t else Poly()
    if k == "pow":
        base, expo = Poly(dict(a[1])), Poly(dict(a[2]))
        if depends_on(expo, var):
            raise AnalysisError("derivative of a power whose exponent depends on the variable")
        db = d_poly(base, var, ev)
        if not db.t:
            return Poly()
        return expo.mul_raw(db.mul_raw(ev.inv(base)))
    if k == "fn":
        if any(depends_on(Poly(dict(x)), var) for x in a[2]):
            raise AnalysisError("derivative through %s(...) is not supported" % a[1])
        return Poly()
    raise AnalysisError("derivative of atom kind %s" % k)


def d_atom(a, var, ev):
    return Poly.atom(a).mul_raw(dlog_atom(a, var, ev))


def d_poly(p, var, ev):
    """term-by-term derivative of a polynomial in atoms with respect to one atom"""
    out = Poly()
    for m, c in p.t.items():
        dl = dlog_mono(m, var, ev)
        if dl.t:
            out = out + Poly({m: c}).mul_raw(dl)
    return out


def ratfun(p):
    """p (atoms: symbols and nested sums, integer exponents) -> (numerator, denominator), fully expanded polynomials
    in the symbols; raises AnalysisError outside that fragment"""
    num, den = Poly(), Poly.const(1)
    for m, c in p.t.items():
        tn, td = Poly.const(c), Poly.const(1)
        for a, e in m:
            if e.denominator != 1:
                raise AnalysisError("fractional power of %s in a rational function" % atom_text(a))
            if a[0] == "sum":
                an, ad = ratfun(Poly(dict(a[1])))
            elif a[0] in ("sym", "elem"):
                an, ad = Poly.atom(a), Poly.const(1)
            else:
                raise AnalysisError("%s in a rational function" % atom_text(a))
            k = int(e)
            if k < 0:
                an, ad, k = ad, an, -k
            for _ in range(k):
                tn, td = tn.mul_raw(an), td.mul_raw(ad)
        num = num.mul_raw(td) + tn.mul_raw(den)
        den = den.mul_raw(td)
    return num, den


def ratfun_equal(p, q):
    pn, pd = ratfun(p)
    qn, qd = ratfun(q)
    return pn.mul_raw(qd) == qn.mul_raw(pd)


# ======================================================================================
# 5. read-only lookup tables of fixed extent
# ======================================================================================
def const_table_uses(tu, fname):
    """subscripts of file-scope constant arrays of fixed extent inside `fname`:
    [ {table, extent, node, index: int|None, var, bound: ('const', hi) | ('runtime', text) | None} ]
    bound describes the largest value the index can take: for an index that is a loop variable (plus a constant),
    the bound of its canonical `for`; a bound that is itself a loop variable is followed outwards."""
    body = tu.body(fname)
    if body is None:
        return []
    local_ids = {p.get("id") for p in tu.params(fname)}
    loops = {}  # induction decl id -> (lower node, upper node, strict)
    for n in walk_stmts(body):
        if n.get("kind") == "VarDecl":
            local_ids.add(n.get("id"))
        if n.get("kind") == "ForStmt":
            ks = (n.get("inner") or []) + [{}] * 5
            ev = Ev(tu)
            c = ev._canonical_for(ks[:5] if len(n.get("inner") or []) >= 5 else ks, new_env())
            if c is not None:
                loops[c[0]] = (c[1], c[2], c[3])

    def upper(node, depth=0):
        """largest value of an integer expression: ('const', v) | ('runtime', text)"""
        v = const_int(node)
        if v is not None:
            return ("const", v)
        x = cfacts.strip(node)
        if x.get("kind") == "DeclRefExpr" and x["referencedDecl"]["id"] in loops and depth < 4:
            lo, hi, strict = loops[x["referencedDecl"]["id"]]
            u = upper(hi, depth + 1)
            if u[0] == "const":
                return ("const", u[1] - (1 if strict else 0))
            return ("runtime", u[1])
        if x.get("kind") == "BinaryOperator" and x.get("opcode") in ("+", "-"):
            a, b = cfacts.kids(x)
            ua, cb = upper(a, depth + 1), const_int(b)
            if ua[0] == "const" and cb is not None:
                return ("const", ua[1] + cb if x["opcode"] == "+" else ua[1] - cb)
            if cb is not None:
                return ua
        return ("runtime", norm_c(tu.text_of(node)))

    out = []
    for n in walk_stmts(body):
        if n.get("kind") != "ArraySubscriptExpr":
            continue
        base = cfacts.strip(cfacts.kids(n)[0])
        if base.get("kind") != "DeclRefExpr" or base["referencedDecl"].get("kind") != "VarDecl":
            continue
        if base["referencedDecl"]["id"] in local_ids:
            continue
        ty = base["referencedDecl"].get("type", {}).get("qualType", "")
        m = re.search(r"\[(\d+)\]", ty)
        if not m or "const" not in ty:
            continue
        idx = cfacts.kids(n)[1]
        out.append({"table": base["referencedDecl"].get("name"), "extent": int(m.group(1)), "node": n,
                    "index_text": norm_c(tu.text_of(idx)), "bound": upper(idx)})
    return out


def fptr_tables(tu):
    """file-scope arrays initialised with functions of this translation unit:
    `T NAME[..] = { &f, g, [3] = &h, ... };` -> {NAME: {index: function name}} (from the source text; cfacts keeps
    only function definitions)"""
    toks = c_tokens(tu.text)
    out = {}
    i = 0
    while i + 4 < len(toks):
        if toks[i][0] == "id" and toks[i + 1][1] == "[":
            j = _match(toks, i + 1, "[", "]")
            if j + 2 < len(toks) and toks[j + 1][1] == "=" and toks[j + 2][1] == "{":
                e = _match(toks, j + 2, "{", "}")
                body = toks[j + 3: e]
                entries, cur, depth = [], [], 0
                for t in body:
                    if t[1] in "([{":
                        depth += 1
                    elif t[1] in ")]}":
                        depth -= 1
                    if t[1] == "," and depth == 0:
                        entries.append(cur)
                        cur = []
                    else:
                        cur.append(t[1])
                if cur:
                    entries.append(cur)
                table, k, ok = {}, 0, bool(entries)
                for ent in entries:
                    if len(ent) >= 4 and ent[0] == "[" and ent[2] == "]" and ent[3] == "=" and re.fullmatch(r"\d+", ent[1]):
                        k = int(ent[1])
                        ent = ent[4:]
                    ent = [x for x in ent if x != "&"]
                    if len(ent) == 1 and ent[0] in tu.funcs:
                        table[k] = ent[0]
                        k += 1
                    else:
                        ok = False
                        break
                if ok and table:
                    out[toks[i][1]] = table
                i = e
        i += 1
    return out
