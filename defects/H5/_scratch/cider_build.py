"""Helper: compile libmcider from the worktree's C sources (pbc_tools.c, which
needs the FFT wrapper, is left out) and hand it to the real Python wrappers by
patching numpy.ctypeslib.load_library.  Any other CiderPress library
(libxc_utils, libpwutil, ...) is replaced by a MagicMock."""
import os
import subprocess
import sys
import tempfile
from unittest import mock

import numpy as np
import numpy.ctypeslib

def _has_src(p):
    return os.path.isdir(os.path.join(p, "ciderpress", "lib", "mod_cider"))


ROOT = os.environ.get("CIDER_ROOT")
if ROOT is None:
    # 1) a directory on PYTHONPATH / sys.path, 2) a parent of this file
    for cand in os.environ.get("PYTHONPATH", "").split(os.pathsep) + list(sys.path):
        if cand and _has_src(cand):
            ROOT = os.path.abspath(cand)
            break
if ROOT is None:
    p = os.path.dirname(os.path.abspath(__file__))
    while p != "/" and not _has_src(p):
        p = os.path.dirname(p)
    ROOT = p
if not _has_src(ROOT):
    raise RuntimeError("cannot locate the CiderPress source tree; set CIDER_ROOT")
SRC = os.path.join(ROOT, "ciderpress", "lib", "mod_cider")
FILES = [
    "frac_lapl.c", "cider_coefs.c", "cider_grids.c", "spline.c", "sph_harm.c",
    "conv_interpolation.c", "convolutions.c", "fast_sdmx.c", "debug_numint.c",
    "model_utils.c",
]


def build():
    outdir = os.path.join(os.path.dirname(os.path.abspath(__file__)), "_build")
    try:
        os.makedirs(outdir, exist_ok=True)
        if not os.access(outdir, os.W_OK):
            raise OSError
    except OSError:
        outdir = os.path.join(tempfile.gettempdir(), "cider_h5_build_%d" % os.getuid())
        os.makedirs(outdir, exist_ok=True)
    so = os.path.join(outdir, "libmcider.so")
    srcs = [os.path.join(SRC, f) for f in FILES]
    newest = max(os.path.getmtime(s) for s in srcs + [os.path.join(SRC, h) for h in os.listdir(SRC) if h.endswith(".h")])
    if not os.path.exists(so) or os.path.getmtime(so) < newest:
        cmd = ["gcc", "-O2", "-fopenmp", "-shared", "-fPIC", "-o", so] + srcs
        cmd += ["-I" + SRC, "-lopenblas", "-lm"]
        subprocess.check_call(cmd)
    return so


_orig = numpy.ctypeslib.load_library
_so = build()


def _load(libname, loader_path):
    if libname == "libmcider":
        return np.ctypeslib.ctypes.CDLL(_so)
    if "ciderpress" in str(loader_path):
        return mock.MagicMock()
    return _orig(libname, loader_path)


numpy.ctypeslib.load_library = _load
if ROOT not in sys.path:
    sys.path.insert(0, ROOT)
