"""
C14 (anchor ElectronAnalyzer.dump / load): an analyzer that holds the result of
calculate_vxc_on_mo(xcname, orbs=...) cannot be written to disk.

calculate_vxc_on_mo stores {"O": {0: eps, 1: eps}, "U": {0: eps}} -- orbital
dictionaries indexed by int, the format of descriptors.get_descriptors -- in
analyzer._data; ElectronAnalyzer.dump hands that to pyscf's chkfile.dump, and
hdf5 names must be strings, so dump raises TypeError and leaves a truncated
file behind that ElectronAnalyzer.load cannot read either.

Expected: dump succeeds and load returns an analyzer of the same type whose
stored data (and a recomputation on the reloaded analyzer) are identical.
"""
import os
import sys
import tempfile
from unittest.mock import MagicMock

import numpy as np

# the compiled CiderPress libraries are not needed here (only imported)
_orig_load = np.ctypeslib.load_library


def _load(name, path):
    try:
        return _orig_load(name, path)
    except OSError:
        return MagicMock()


np.ctypeslib.load_library = _load

from pyscf import dft, gto  # noqa: E402

from ciderpress.pyscf.analyzers import ElectronAnalyzer  # noqa: E402

nfail = 0


def report(label, ok, detail=""):
    global nfail
    print("%-62s %s %s" % (label, "ok" if ok else "FAIL", detail))
    if not ok:
        nfail += 1


def same(a, b, tol=0):
    if isinstance(a, dict):
        return (
            isinstance(b, dict)
            and sorted(map(repr, a)) == sorted(map(repr, b))
            and all(same(a[k], b[k], tol) for k in a)
        )
    if isinstance(a, (list, tuple)):
        return len(a) == len(b) and all(same(x, y, tol) for x, y in zip(a, b))
    if tol:
        return np.allclose(np.asarray(a), np.asarray(b), rtol=0, atol=tol)
    return np.array_equal(np.asarray(a), np.asarray(b))


tmp = tempfile.mkdtemp()
for label, atom, spin, cls, orbs in (
    ("RKS He", "He 0 0 0", 0, dft.RKS, {"O": [0], "U": [0]}),
    ("UKS Li", "Li 0 0 0", 1, dft.UKS, {"O": [0, 1], "U": [0]}),
    ("UKS Li, per-spin orbs", "Li 0 0 0", 1, dft.UKS, ({"O": [0, 1]}, {"O": [0], "U": [1]})),
):
    mol = gto.M(atom=atom, basis="6-31g", spin=spin, verbose=0)
    ks = cls(mol)
    ks.xc = "PBE"
    ks.grids.level = 0
    ks.kernel()
    an = ElectronAnalyzer.from_calc(ks)
    eig = an.calculate_vxc_on_mo("PBE", orbs=orbs)
    print(label, "ORBXC_PBE =", eig)
    fname = os.path.join(tmp, label.replace(" ", "_").replace(",", "") + ".hdf5")
    try:
        an.dump(fname)
    except Exception as e:
        report(label + ": dump", False, "raised " + repr(e))
        try:
            ElectronAnalyzer.load(fname)
            print("   (the file left behind loads)")
        except Exception as e2:
            print("   the truncated file left behind does not load either:", repr(e2))
        continue
    an2 = ElectronAnalyzer.load(fname)
    report(label + ": same analyzer type", type(an2) is type(an))
    eig2 = an2.get("ORBXC_PBE")
    report(label + ": stored ORBXC_PBE identical after reload", same(eig, eig2), "got %r" % (eig2,))
    report(
        label + ": all stored data identical after reload",
        sorted(an.keys()) == sorted(an2.keys()) and all(same(an.get(k), an2.get(k)) for k in an.keys()),
    )
    an2._data.pop("ORBXC_PBE")
    report(label + ": recomputed on the reloaded analyzer", same(eig, an2.calculate_vxc_on_mo("PBE", orbs=orbs), tol=1e-10))
    # second cycle
    an2.dump(fname)
    an3 = ElectronAnalyzer.load(fname)
    report(label + ": second dump/load cycle", same(eig, an3.get("ORBXC_PBE")))

print("failures:", nfail)
sys.exit(1 if nfail else 0)
