from sdmx_ref import *
from ciderpress.dft.settings import *
from ciderpress.pyscf import sdmx as sdmx_fast, sdmx_slow
np.random.seed(1)
mol = gto.M(atom="H 0 0 0; F 0 0 0.9", basis="def2-svp", spin=0, verbose=0)
ks = dft.RKS(mol); ks.xc='PBE'; ks.grids.level=1; ks.kernel()
dm = ks.make_rdm1()
coords = np.random.normal(size=(12,3))*0.8 + np.array([0,0,0.85])
t, R, rho0, rho1 = sdmx_reference(mol, dm, coords)
ref = H_feats(t, R, rho0, rho1, 1)['0']
for modname, mod in [('fast', sdmx_fast), ('slow', sdmx_slow)]:
    for mode in ['smooth', 'exact']:
        try:
            s = SADMSettings(mode)
            gen = mod.EXXSphGenerator.from_settings_and_mol(s, 1, mol)
            f = gen.get_features(dm, mol, coords)
            print(modname, mode, np.abs(f[0]-ref).max()/np.abs(ref).max(), f[0][:3], ref[:3])
        except Exception as e:
            print(modname, mode, 'EXC', type(e).__name__, e)
    # multiple dms + nspin 2
    s = SDMXGSettings([0,1,2], 2)
    gen = mod.EXXSphGenerator.from_settings_and_mol(s, 2, mol)
    f2 = gen.get_features(np.stack([0.5*dm, 0.3*dm]), mol, coords)
    gen1 = mod.EXXSphGenerator.from_settings_and_mol(s, 1, mol)
    f1 = gen1.get_features(dm, mol, coords)
    print(modname, 'nspin2', np.abs(f2[0]-f1).max(), np.abs(f2[1]-0.36*f1).max())
