import cider_env  # noqa
import numpy as np
from ciderpress.dft.settings import (FeatureSettings, SemilocalSettings, NLDFSettingsVJ,
    NLDFSettingsVI, NLDFSettingsVIJ, NLDFSettingsVK, SDMXSettings, SDMXFullSettings)
from ciderpress.dft.xc_evaluator import MappedXC, MappedDFTKernel, GlobalLinearEvaluator
from ciderpress.dft.transform_data import FeatureList, UMap, LMap, SignedUMap
from ciderpress.dft import baselines


def make_model(slmode="npa", nldf="j", rho_mult="one", sdmx=None, mode="SEP", seed=0, normalize=True):
    level = "MGGA" if slmode in ("nst", "npa") else "GGA"
    sl = SemilocalSettings(slmode)
    if level == "MGGA":
        thetap = [1.0, 0.0, 0.03125]
        fp = [[1.0, 0.0, 0.03125], [2.0, 0.0, 0.0625], [3.0, 0.0, 0.04, 1.0], [0.5, 0.1, 0.02]]
    else:
        thetap = [1.0, 0.03125]
        fp = [[1.0, 0.03125], [2.0, 0.03], [3.0, 0.02, 1.0], [0.5, 0.02]]
    fs = ["se", "se_ar2", "se_erf_rinv", "se_a2r4"]
    i0 = ["se_lapl", "se_ap2r2", "se_apr2", "se", "se_ap", "se_r2"]
    i1 = ["se_rvec", "se_grad"]
    i1d = [(-1, 1), (-1, 0), (1, 0), (0, 0)]
    if nldf is None:
        ns = None
    elif nldf == "j":
        ns = NLDFSettingsVJ(level, thetap, rho_mult, fs, fp)
    elif nldf == "i":
        ns = NLDFSettingsVI(level, thetap, rho_mult, i0, i1, i1d)
    elif nldf == "ij":
        ns = NLDFSettingsVIJ(level, thetap, rho_mult, i0, i1, i1d, fs, fp)
    elif nldf == "k":
        ns = NLDFSettingsVK(level, thetap, rho_mult, [f[: (3 if level == "MGGA" else 2)] for f in fp[:3]], rho_damp="exponential")
    settings = FeatureSettings(sl_settings=sl, nldf_settings=ns, sdmx_settings=sdmx)
    if normalize:
        settings.assign_reasonable_normalizer()
    nfeat = settings.nfeat
    rng = np.random.RandomState(seed)
    maps = []
    for i in range(1, nfeat):
        maps.append(UMap(i, 0.3 + 0.5 * rng.rand()) if i < sl.nfeat else SignedUMap(i, 1.0 + rng.rand()))
    consts = 0.2 * rng.randn(len(maps)) / np.sqrt(len(maps))
    # keep nonlocal (possibly signed) features bounded via small coefficients
    kern = MappedDFTKernel(GlobalLinearEvaluator(consts), FeatureList(maps), mode, baselines.lda_x)
    one = MappedDFTKernel(GlobalLinearEvaluator([0.0]), FeatureList([LMap(0)]), mode, baselines.lda_x)
    return MappedXC([kern], settings)


def make_model2(slmode="npa", nldf="j", mode="SEP", seed=0, mul="GGA_X_PBE", add=None):
    from ciderpress.dft.xc_evaluator2 import MappedXC2, MappedDFTKernel2
    m1 = make_model(slmode, nldf, mode=mode, seed=seed)
    k = m1.kernels[0]
    kern = MappedDFTKernel2(k.fevals, k.feature_list, mode, mul, additive_baseline=add)
    return MappedXC2([kern], m1.settings)
