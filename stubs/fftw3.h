#ifndef STUB_FFTW3_H
#define STUB_FFTW3_H
#include <stddef.h>
typedef double fftw_complex[2];
typedef struct fftw_plan_s *fftw_plan;
#define FFTW_FORWARD (-1)
#define FFTW_BACKWARD (+1)
#define FFTW_ESTIMATE (1U << 6)
#define FFTW_MEASURE (0U)
int fftw_init_threads(void); void fftw_plan_with_nthreads(int);
/* parameter names follow the FFTW manual (4.4.1 Advanced Complex DFTs, 4.4.2 Advanced Real-data DFTs); the
   checks bind roles through them */
fftw_plan fftw_plan_many_dft(int rank, const int *n, int howmany, fftw_complex *in, const int *inembed, int istride,
                             int idist, fftw_complex *out, const int *onembed, int ostride, int odist, int sign,
                             unsigned flags);
fftw_plan fftw_plan_many_dft_r2c(int rank, const int *n, int howmany, double *in, const int *inembed, int istride,
                                 int idist, fftw_complex *out, const int *onembed, int ostride, int odist,
                                 unsigned flags);
fftw_plan fftw_plan_many_dft_c2r(int rank, const int *n, int howmany, fftw_complex *in, const int *inembed, int istride,
                                 int idist, double *out, const int *onembed, int ostride, int odist, unsigned flags);
void fftw_execute(const fftw_plan); void fftw_destroy_plan(fftw_plan);
void *fftw_malloc(size_t); void fftw_free(void*);
double *fftw_alloc_real(size_t); fftw_complex *fftw_alloc_complex(size_t);
#endif
