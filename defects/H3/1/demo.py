"""
C03 demo: with rho_mult="expnt", the version-i l=1 dot-product features built from two
NLDF vectors scale with power 2*2 + u(spec_j) + u(spec_k), but NLDFSettingsVI / VIJ
.get_feat_usps() declare 2 + u(spec_j) + u(spec_k) (the rho_mult power is counted once).
As a consequence the "reasonable" normaliser leaves these features with power 2, not 0.

The features are evaluated with the real PySCF interface (ciderpress.pyscf.descriptors)
and the real C library on a LiH density n and on its uniformly scaled copy
n_lam(r) = lam^3 n(lam r) (basis exponents * lam^2, geometry / lam, same density matrix).
"""
import sys, os
sys.path.insert(0, os.path.dirname(os.path.abspath(__file__)))
from scaling import *  # installs the compiled C libraries, numpy as np
from ciderpress.pyscf.descriptors import get_descriptors
from ciderpress.dft.settings import (
    FeatureSettings, NLDFSettingsVI, NLDFSettingsVIJ, SemilocalSettings,
)

TOL = 0.3  # tolerance on the empirical scaling power (numerical noise is ~0.05)
failures = []

mol, mf = reference_state()
dm = mf.make_rdm1()
pts = default_points()
ana = {}
for lam in [1.0, 1.3, 0.8]:
    ana[lam] = FakeAnalyzer(make_mol(lam), dm, pts / lam, mf.mo_coeff, mf.mo_occ, mf.mo_energy)


def empirical_power(f1, flam, lam):
    return float(np.median(np.log(np.abs(flam / f1)) / np.log(lam)))


def check_raw(name, nldf):
    print("== %s: raw features, declared power (get_feat_usps) vs observed" % name)
    d1 = get_descriptors(ana[1.0], nldf)[0]
    usps = nldf.get_feat_usps()
    for lam in [1.3, 0.8]:
        dl = get_descriptors(ana[lam], nldf)[0]
        for i in range(nldf.nfeat):
            emp = empirical_power(d1[i], dl[i], lam)
            ok = abs(emp - usps[i]) < TOL
            print("  lam=%.1f feat %d: declared u=%g  observed u=%.3f  %s"
                  % (lam, i, usps[i], emp, "ok" if ok else "MISMATCH"))
            if not ok:
                failures.append((name, "raw", i, usps[i], emp))


def check_normalized(name, nldf):
    print("== %s: features after get_reasonable_normalizer (expected power 0)" % name)
    sl = SemilocalSettings("npa")
    fs = FeatureSettings(sl_settings=sl, nldf_settings=nldf)
    try:
        fs.assign_reasonable_normalizer()
    except NotImplementedError:
        print("  no recommended normaliser for this settings object (NotImplementedError) - skipped")
        return
    declared = fs.get_feat_usps(with_normalizers=True)
    feats = {}
    for lam in [1.0, 1.3]:
        x = np.concatenate([get_descriptors(ana[lam], sl), get_descriptors(ana[lam], nldf)], axis=1)
        feats[lam] = fs.normalizers.get_normalized_feature_vector(x)[0]
    for i in range(sl.nfeat, fs.nfeat):
        emp = empirical_power(feats[1.0][i], feats[1.3][i], 1.3)
        ok = abs(emp) < TOL and abs(declared[i]) < 1e-12
        print("  feat %d: declared normalised u=%g  observed u=%.3f  %s"
              % (i, declared[i], emp, "ok" if ok else "NOT SCALE INVARIANT"))
        if not ok:
            failures.append((name, "normalised", i, 0.0, emp))


theta = [1.0, 0.0, 0.03125]
# control: rho_mult="one" (works), then the failing rho_mult="expnt" configurations
check_raw("VI one", NLDFSettingsVI("MGGA", theta, "one", ["se"], ["se_grad", "se_rvec"],
                                   [(0, 0), (0, 1), (1, 1), (-1, 0)]))
check_raw("VI expnt", NLDFSettingsVI("MGGA", theta, "expnt", ["se"], ["se_grad", "se_rvec"],
                                     [(0, 0), (0, 1), (1, 1), (-1, 0), (-1, 1)]))
check_raw("VIJ expnt", NLDFSettingsVIJ("MGGA", theta, "expnt", ["se"], ["se_rvec"], [(0, 0), (-1, 0)],
                                       ["se"], [[2.0, 0.0, 0.0625]]))
check_normalized("VI expnt rvec.rvec", NLDFSettingsVI("MGGA", theta, "expnt", ["se"], ["se_rvec"], [(0, 0)]))
check_normalized("VI expnt grad.rvec", NLDFSettingsVI("MGGA", theta, "expnt", ["se"], ["se_grad", "se_rvec"], [(0, 1)]))
check_normalized("VI one grad.rvec (control)", NLDFSettingsVI("MGGA", theta, "one", ["se_r2"], ["se_grad", "se_rvec"], [(0, 1), (1, 1)]))

print()
if failures:
    print("FAIL: %d feature(s) violate the declared uniform-scaling power:" % len(failures))
    for f in failures:
        print("   %s [%s] feature %d: expected u=%g, observed u=%.3f" % f)
    sys.exit(1)
print("PASS: all declared powers hold and normalised features are scale invariant")
