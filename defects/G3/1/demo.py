"""
C03: "after the recommended normalisation every nonlocal feature has power 0"
for all NLDF i/ij specs and rho_mult.

NLDFSettingsVI.get_reasonable_normalizer (also used by NLDFSettingsVIJ) only
knows the declared powers {0, -2, 2, 5}.  Settings that the constructor accepts
and that the feature generator evaluates with exactly the declared power
(e.g. the dot product of the density gradient with an 'se_rvec' vector, power 3,
grad.grad, power 8, or any 'se_ap'-type spec with rho_mult='expnt', power 4)
make it raise NotImplementedError, so FeatureSettings.assign_reasonable_normalizer
cannot produce the scale-invariant feature vector at all.
"""
import sys
import traceback

import numpy as np

from ciderpress.dft.feat_normalizer import FeatNormalizerList
from ciderpress.dft.settings import (
    ALLOWED_I_SPECS_L0,
    ALLOWED_I_SPECS_L1,
    FeatureSettings,
    NLDFSettingsVI,
    NLDFSettingsVIJ,
    SemilocalSettings,
)

L0 = list(ALLOWED_I_SPECS_L0)
L1 = list(ALLOWED_I_SPECS_L1)  # ['se_grad', 'se_rvec']
DOTS = [(-1, 0), (-1, 1), (0, 0), (0, 1), (1, 1), (-1, -1)]

nfail = 0
ncase = 0
rng = np.random.default_rng(0)
lam = 1.37
for slmode, level in [("nst", "MGGA"), ("npa", "MGGA"), ("ns", "GGA"), ("np", "GGA")]:
    theta = [1.0, 0.0, 0.03125] if level == "MGGA" else [1.0, 0.03125]
    for rho_mult in ["one", "expnt"]:
        for cls in ["i", "ij"]:
            ncase += 1
            if cls == "i":
                nldf = NLDFSettingsVI(level, theta, rho_mult, L0, L1, DOTS)
            else:
                fp = [2.0, 0.0, 0.04] if level == "MGGA" else [2.0, 0.04]
                nldf = NLDFSettingsVIJ(
                    level, theta, rho_mult, L0, L1, DOTS, ["se", "se_ar2"], [fp, fp]
                )
            tag = "version %s, sl_level=%s, slmode=%s, rho_mult=%s" % (
                cls,
                level,
                slmode,
                rho_mult,
            )
            settings = FeatureSettings(
                sl_settings=SemilocalSettings(slmode), nldf_settings=nldf
            )
            raw = settings.get_feat_usps()
            try:
                settings.assign_reasonable_normalizer()
            except NotImplementedError:
                nfail += 1
                print("FAIL (%s): get_reasonable_normalizer raised" % tag)
                print("   declared raw powers of the NLDF block:", nldf.get_feat_usps())
                print("   " + traceback.format_exc().strip().splitlines()[-3].strip())
                continue
            # declared powers after normalisation: nonlocal block must be 0
            usps = settings.get_feat_usps(with_normalizers=True)
            nsl = settings.sl_settings.nfeat
            if not np.allclose(usps[nsl:], 0, atol=1e-12):
                nfail += 1
                print("FAIL (%s): normalised declared powers" % tag, usps[nsl:])
                continue
            # behavioural check: scale a random feature vector with the declared
            # raw powers, normalise, compare
            n = 7
            X = rng.uniform(0.2, 2.0, size=(1, settings.nfeat, n))
            Xs = X * lam ** np.asarray(raw)[None, :, None]
            XN = settings.normalizers.get_normalized_feature_vector(X)
            XsN = settings.normalizers.get_normalized_feature_vector(Xs)
            err = np.max(np.abs(XsN[:, nsl:] / XN[:, nsl:] - 1))
            if err > 1e-10:
                nfail += 1
                print("FAIL (%s): normalised features not invariant, err" % tag, err)
                continue
            # C13: reported normalised UEG = normaliser applied to the UEG vector
            for rho in [0.3, 1.0, 2.5]:
                u = settings.ueg_vector(rho)
                un = settings.ueg_vector(rho, with_normalizers=True)
                ref = settings.normalizers.get_normalized_feature_vector(
                    u[None, :, None]
                )[0, :, 0]
                if not np.allclose(un, ref, rtol=1e-12, atol=1e-14):
                    nfail += 1
                    print("FAIL (%s): UEG mismatch" % tag, un, ref)
            print("ok   (%s)" % tag)

print()
print("expected: a power-0 normaliser for every accepted version i/ij setting")
print("observed: %d of %d settings fail" % (nfail, ncase))
sys.exit(1 if nfail else 0)
