"""C20: FFTWrapper.call silently mis-reads inputs whose memory layout / dtype is
not the one the C side assumes (C-contiguous, complex128 / float64).

The shape check passes, the raw base pointer of the array is handed to
write_fft_input, and the C code reads prod(shape) elements in C order with the
plan's element type.  So a correctly *shaped* array that is a transposed /
strided view (or a real array given to a complex plan) yields the DFT of some
other data instead of the DFT of the input (or an error).

Run:  PYTHONPATH=/tmp/hunt/H8 /venv/bin/python demo.py
"""
import os
import sys

sys.path.insert(0, os.path.join(os.path.dirname(os.path.abspath(__file__)), ".."))
import build_libs  # noqa: E402

build_libs.build_fft()  # builds hunt_out/build/libfft_wrapper.so if missing
import patch_load  # noqa: E402,F401

import numpy as np  # noqa: E402

from ciderpress.lib.fft_plan import FFTWrapper  # noqa: E402

rng = np.random.default_rng(0)
fails = 0


def report(name, ref, fn):
    global fails
    try:
        out = fn()
    except (ValueError, TypeError) as e:
        print(f"[ok ] {name}: input rejected ({type(e).__name__}: {e})")
        return
    err = np.abs(out - ref).max()
    ok = err < 1e-10
    print(
        f"[{'ok ' if ok else 'BAD'}] {name}: max|wrapper - numpy DFT of the same array| = {err:.3e}"
        f" (expected < 1e-10 or a rejection)"
    )
    if not ok:
        fails += 1


dims = [4, 6]
nt = 3

# sanity: C-contiguous input works
w = FFTWrapper(dims, ntransform=nt, fwd=True, r2c=False, inplace=False, batch_first=True)
xc = rng.normal(size=w.input_shape) + 1j * rng.normal(size=w.input_shape)
report("c2c, C-contiguous input (control)", np.fft.fftn(xc, axes=(1, 2)), lambda: w.call(xc))

# 1. Fortran-ordered array with the right shape and dtype
xf = np.asfortranarray(xc)
assert xf.shape == w.input_shape and xf.dtype == np.complex128 and np.array_equal(xf, xc)
report("c2c, same values, Fortran-ordered", np.fft.fftn(xf, axes=(1, 2)), lambda: w.call(xf))

# 2. transposed view with the right shape (typical: user has (dims..., batch) data
#    and moves the batch axis to the front)
base = rng.normal(size=(4, 6, nt)) + 1j * rng.normal(size=(4, 6, nt))
xt = np.moveaxis(base, -1, 0)
assert xt.shape == w.input_shape
report("c2c, np.moveaxis view", np.fft.fftn(xt, axes=(1, 2)), lambda: w.call(xt))

# 3. strided slice with the right shape
big = rng.normal(size=(nt, 4, 12)) + 1j * rng.normal(size=(nt, 4, 12))
xs = big[:, :, ::2]
assert xs.shape == w.input_shape
report("c2c, strided slice", np.fft.fftn(xs, axes=(1, 2)), lambda: w.call(xs))

# 4. r2c plan, real part of a complex array (strided float64 view)
wr = FFTWrapper(dims, ntransform=nt, fwd=True, r2c=True, inplace=True, batch_first=True)
xr = xc.real
assert xr.shape == wr.input_shape and xr.dtype == np.float64
report("r2c in-place, x.real view", np.fft.rfftn(xr, axes=(1, 2)), lambda: wr.call(xr))

# 5. real float64 array given to a complex plan (bytes re-interpreted as complex,
#    and the C side reads twice the size of the buffer)
xreal = np.zeros(tuple(w.input_shape) , dtype=np.float64)
xreal[:] = rng.normal(size=w.input_shape)
pad = np.concatenate([xreal.ravel(), np.zeros(xreal.size)])  # keep the over-read in bounds
xreal_safe = pad[: xreal.size].reshape(xreal.shape)
report(
    "c2c, float64 input",
    np.fft.fftn(xreal_safe, axes=(1, 2)),
    lambda: w.call(xreal_safe),
)

print()
if fails:
    print(f"FAIL: {fails} correctly shaped inputs were transformed incorrectly without any error")
    sys.exit(1)
print("PASS")
