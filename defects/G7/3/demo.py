"""
C09 / C17: rks_grad.get_vxc_full_response (semilocal CIDER model, RKS,
grid_response=True) is the only gradient driver that does not call
ni.initialize_feature_generators(mol, grids, 1).  It therefore uses whatever
SemilocalPlan the last call left on the integrator:

 (a) after a spin-polarised evaluation on the same calculator
     (ni.nr_uks of the closed-shell density), the forces are silently wrong;
 (b) on a calculator whose integrator has not evaluated an energy yet
     (converged orbitals restored from another object / a checkpoint), it
     crashes, while grid_response=False and the UKS drivers work.
"""
import os, sys, traceback
sys.path.insert(0, os.path.dirname(os.path.abspath(__file__)))
import mk  # noqa: loads the C libraries and builds a small synthetic CIDER model
import numpy as np
from pyscf import gto, dft
from ciderpress.pyscf.dft import make_cider_calc

ml = mk.make_model("npa", None)  # semilocal MGGA-level CIDER model


def build(mol):
    ks = dft.RKS(mol); ks.xc = "PBE"; ks.grids.level = 1
    ks = make_cider_calc(ks, ml, xmix=0.5, xkernel="GGA_X_PBE", ckernel="GGA_C_PBE")
    ks.conv_tol = 1e-11
    return ks


mol = gto.M(atom="Li 0 0 0; H 0.3 0.2 2.9", basis="6-31g", unit="Bohr", verbose=0)
ks = build(mol)
ks.kernel()
g_ref = ks.nuc_grad_method().set(grid_response=True).kernel()
h = 1e-3
es = []
for s in (1, -1):
    m2 = gto.M(atom="Li 0 0 %.6f; H 0.3 0.2 2.9" % (s * h), basis="6-31g", unit="Bohr", verbose=0)
    es.append(build(m2).kernel())
fd = (es[0] - es[1]) / (2 * h)
print("reference: analytic dE/dz(Li) = %.8f, finite difference = %.8f" % (g_ref[0, 2], fd))
fail = 0

# (a) same calculator, a spin-resolved evaluation in between
dm = ks.make_rdm1()
ks._numint.nr_uks(mol, ks.grids, ks.xc, np.stack([dm * 0.5, dm * 0.5]))
g_a = ks.nuc_grad_method().set(grid_response=True).kernel()
print("(a) forces after an interleaved nr_uks call on the same calculator")
print("    expected max|g - g_ref| ~ 0, observed %.3e ; dE/dz(Li) = %.8f (FD %.8f)"
      % (np.abs(g_a - g_ref).max(), g_a[0, 2], fd))
if np.abs(g_a - g_ref).max() > 1e-6:
    fail += 1

# (b) converged orbitals on a fresh calculator
ks2 = build(mol)
ks2.build()
ks2.mo_coeff, ks2.mo_occ, ks2.mo_energy = ks.mo_coeff, ks.mo_occ, ks.mo_energy
ks2.e_tot, ks2.converged = ks.e_tot, True
g0 = ks2.nuc_grad_method().set(grid_response=False).kernel()
print("(b) fresh calculator with the converged orbitals: grid_response=False works, dE/dz(Li) = %.8f" % g0[0, 2])
ks3 = build(mol)
ks3.build()
ks3.mo_coeff, ks3.mo_occ, ks3.mo_energy = ks.mo_coeff, ks.mo_occ, ks.mo_energy
ks3.e_tot, ks3.converged = ks.e_tot, True
try:
    g_b = ks3.nuc_grad_method().set(grid_response=True).kernel()
    print("    grid_response=True: max|g - g_ref| = %.3e" % np.abs(g_b - g_ref).max())
    if np.abs(g_b - g_ref).max() > 1e-6:
        fail += 1
except Exception as e:
    traceback.print_exc(limit=2)
    print("    expected the same forces as the reference, observed %r" % (e,))
    fail += 1
sys.exit(1 if fail else 0)
