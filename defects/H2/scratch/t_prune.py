from ref import *
import ref, sys
from ciderpress.pyscf.gen_cider_grid import CiderGrids
from ciderpress.pyscf.nldf_convolutions import PyscfNLDFGenerator
np.random.seed(0)
ni = NumInt()
th=[1.0,0.0,0.03125]; fp=[[2.0,0.0,0.04],[2.0,0.0,0.04,2.0]]
vij = NLDFSettingsVIJ('MGGA', th, 'one', ["se_ap","se_r2"], ["se_grad","se_rvec"], [(0,0),(-1,1)], ["se","se_erf_rinv"], fp)
mol = gto.M(atom="H 0 0 0; F 0 0 0.9", basis="def2-svp", spin=0, verbose=0)
ks = dft.RKS(mol); ks.xc='PBE'; ks.grids.level=1; ks.kernel()
dm = ks.make_rdm1()
grids = CiderGrids(mol, lmax=10); grids.level=2; grids.build(with_non0tab=True)
n0 = grids.weights.size
rho = get_full_rho(ni, mol, dm, grids, 'MGGA')[0]
grids.prune_by_density_(rho[0].copy(), 1e-4)
print('grid size', n0, '->', grids.weights.size, 'padding', grids.grids_indexer.padding, 'idx', grids.grids_indexer.idx_map.size)
rho = get_full_rho(ni, mol, dm, grids, 'MGGA')[0]
sel0 = np.where(rho[0] > 1e-3)[0]
sel = np.random.choice(sel0, 100, replace=False)
coords = grids.coords[sel]
refv = reference(mol, dm, vij, coords)
for itype in ['onsite_direct', 'onsite_spline']:
    gen = PyscfNLDFGenerator.from_mol_and_settings(mol, grids.grids_indexer, 1, vij, interpolator_type=itype)
    gen.interpolator.set_coords(grids.coords)
    f = gen.get_features(rho)
    pred = f[:, sel]
    err = np.abs(pred - refv).max(axis=1)/np.abs(refv).max(axis=1)
    print(itype, ' '.join('%.0e'%x for x in err), 'nan', np.isnan(f).sum())
