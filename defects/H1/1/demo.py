"""
C01 demo: a CIDER model whose DFTKernel uses the "RHO" multiplicative baseline
(ciderpress.dft.baselines.BASELINE_CODES["RHO"] == nsp_rho_basline).

The XC matrix returned by CiderNumInt.nr_rks / nr_uks must be the derivative of
the XC energy it returns.  We compare tr(vmat . dP) with a central finite
difference of excsum along a random symmetric direction dP.

Run:  PYTHONPATH=/tmp/hunt/H1 /venv/bin/python demo.py
"""
import os
import sys

os.environ.setdefault("OMP_NUM_THREADS", "2")
sys.path.insert(0, os.path.join(os.path.dirname(os.path.abspath(__file__)), "..", "common"))
import cider_boot  # noqa: F401  (hands the scratch-built C libraries to ciderpress)
import numpy as np
import scipy.linalg
from pyscf import dft, gto

from ciderpress.dft import baselines
from ciderpress.dft.settings import FeatureSettings, SemilocalSettings
from ciderpress.dft.transform_data import FeatureList, UMap
from ciderpress.dft.xc_evaluator import (
    GlobalLinearEvaluator,
    MappedDFTKernel,
    MappedXC,
)
from ciderpress.pyscf.dft import make_cider_calc

TOL = 1e-5


def psd_dm(mol, unrestricted, seed=1, noise=0.15):
    """non-converged but positive semidefinite density matrix"""
    rng = np.random.RandomState(seed)
    s1e = mol.intor("int1e_ovlp")
    h = mol.intor("int1e_kin") + mol.intor("int1e_nuc")
    nao = mol.nao

    def one(nocc, occ):
        p = rng.normal(size=(nao, nao)) * noise
        e, c = scipy.linalg.eigh(h + p + p.T, s1e)
        return occ * c[:, :nocc].dot(c[:, :nocc].T)

    na, nb = mol.nelec
    if unrestricted:
        return np.stack([one(na, 1.0), one(nb, 1.0)])
    return one(na, 2.0)


def pure_function_check():
    """value/derivative consistency of the baseline itself"""
    rng = np.random.RandomState(0)
    worst = 0
    for nspin in (1, 2):
        X = rng.uniform(0.2, 2.0, (nspin, 3, 20))
        D = rng.normal(size=X.shape)
        e, de = baselines.BASELINE_CODES["RHO"](X.copy())
        h = 1e-6
        fd = (
            baselines.BASELINE_CODES["RHO"](X + h * D)[0]
            - baselines.BASELINE_CODES["RHO"](X - h * D)[0]
        ) / (2 * h)
        an = (de * D).sum(axis=(0, 1))
        err = np.abs(fd - an).max()
        print("  baseline RHO nspin=%d: max|FD - analytic| = %.3e" % (nspin, err))
        worst = max(worst, err)
    return worst


def integrator_check(mode, unrestricted):
    mol = gto.M(
        atom="N 0 0 0; H 0.1 0.9 0.3; H 0.8 -0.5 0.2",
        basis="6-31g",
        spin=1 if unrestricted else 0,
        charge=0 if unrestricted else 1,
        verbose=0,
    )
    settings = FeatureSettings(sl_settings=SemilocalSettings("npa"))
    # transformed descriptors: bounded maps of s^2 and alpha
    flist = FeatureList([UMap(1, 0.4), UMap(2, 0.3)])
    feval = GlobalLinearEvaluator([0.3, -0.2])
    kernel = MappedDFTKernel(
        feval, flist, mode, baselines.BASELINE_CODES["RHO"], baselines.lda_x
    )
    mlxc = MappedXC([kernel], settings)
    ks = dft.UKS(mol) if unrestricted else dft.RKS(mol)
    ks.grids.level = 0
    ks = make_cider_calc(ks, mlxc, xmix=1.0)
    ks.grids.level = 0
    ks.build()
    ks.grids.build(with_non0tab=True)
    ni = ks._numint
    fn = ni.nr_uks if unrestricted else ni.nr_rks
    dm = psd_dm(mol, unrestricted)
    rng = np.random.RandomState(2)
    d = rng.normal(size=dm.shape)
    d = 0.05 * (d + d.swapaxes(-1, -2))
    h = 3e-5
    _, e0, vmat = fn(mol, ks.grids, ks.xc, dm)
    ep = fn(mol, ks.grids, ks.xc, dm + h * d)[1]
    em = fn(mol, ks.grids, ks.xc, dm - h * d)[1]
    fd = (ep - em) / (2 * h)
    an = np.sum(vmat * d)
    print(
        "  mode=%-4s %s: Exc=%.8f  dE(FD)=%.8f  tr(vmat dP)=%.8f  |diff|=%.2e"
        % (mode, "UKS" if unrestricted else "RKS", e0, fd, an, abs(fd - an))
    )
    return abs(fd - an)


if __name__ == "__main__":
    print("Expected: analytic derivative == finite difference (|diff| < %g)" % TOL)
    print("1) the baseline function alone")
    worst = pure_function_check()
    print("2) CiderNumInt.nr_rks / nr_uks with a model using that baseline")
    for mode in ("NPOL", "SEP"):
        for unres in (False, True):
            worst = max(worst, integrator_check(mode, unres))
    if worst > TOL:
        print("FAIL: XC matrix is not the derivative of the XC energy (max err %.3e)" % worst)
        sys.exit(1)
    print("OK")
