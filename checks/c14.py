#!/usr/bin/env python3
"""C14 -- saved models and feature lists reload to objects that evaluate
identically.  Static rules (DESIGN.md §C14):

 code-table      class attribute `code` == "code" written by as_dict == registry key, unique
 attr-loop       ctor param -> self.attr -> as_dict key -> from_dict read -> same ctor param
 state-coverage  every self.attr read by the evaluation methods is round-tripped, derived
                 from round-tripped attributes, or a class constant
 reject          registry / format / type ladders raise on anything unrecognised
 loader          yaml.dump is paired with a python-object-capable Loader
 dangling-ser    to_dict/as_dict calling a serialiser its receiver's class does not define
"""
import ast
import re
import os
import sys

sys.path.insert(0, os.path.dirname(os.path.dirname(os.path.abspath(__file__))))
from sa import core, pyfacts as pf, cfg as cfgm  # noqa: E402
from sa.selftest import Mutant  # noqa: E402

PROP = "C14"
TD = "ciderpress/dft/transform_data.py"
XE = "ciderpress/dft/xc_evaluator.py"
XE2 = "ciderpress/dft/xc_evaluator2.py"
MU = "ciderpress/dft/model_utils.py"
AN = "ciderpress/pyscf/analyzers.py"

WRAPPERS = {"np.array", "numpy.array", "list", "tuple", "float", "int", "np.asarray", "str"}


def strip_wrappers(e):
    while isinstance(e, ast.Call) and pf.call_name(e) in WRAPPERS and len(e.args) == 1:
        e = e.args[0]
    return e


def property_target(prog, mod, cls, name):
    """If `name` is a property of cls returning self.X, return X."""
    r = prog.find_method(mod, cls, name)
    if r is None:
        return None
    fn = r[2]
    if not any(pf.src(d) == "property" for d in fn.decorator_list):
        return None
    rets = [n for n in pf.walk_no_nested(fn) if isinstance(n, ast.Return)]
    if len(rets) == 1 and pf.is_self_attr(rets[0].value):
        return rets[0].value.attr
    return "<computed-property:%s>" % name


def ctor_param_attrs(init):
    """param name -> attribute that stores it (self.A = p | self.A = p or dflt),
    plus derived attrs: attr -> set of names it is computed from."""
    params = [a.arg for a in init.args.args[1:]] + [a.arg for a in init.args.kwonlyargs]
    store = {}
    derived = {}
    for n in pf.walk_no_nested(init):
        if isinstance(n, ast.Assign) and len(n.targets) == 1 and pf.is_self_attr(n.targets[0]):
            attr = n.targets[0].attr
            v = n.value
            direct = None
            if isinstance(v, ast.Name) and v.id in params:
                direct = v.id
            elif isinstance(v, ast.BoolOp) and isinstance(v.op, ast.Or) and isinstance(v.values[0], ast.Name) \
                    and v.values[0].id in params:
                direct = v.values[0].id
            elif isinstance(v, ast.IfExp) and isinstance(v.body, ast.Name) and v.body.id in params:
                direct = v.body.id
            if direct is not None and direct not in store:
                store[direct] = attr
            else:
                names = {x.id for x in ast.walk(v) if isinstance(x, ast.Name)}
                sattrs = {x.attr for x in ast.walk(v) if pf.is_self_attr(x)}
                derived[attr] = (names & set(params)) | {"self." + a for a in sattrs}
    return params, store, derived


def dict_of_return(fn):
    """The dict literal returned by as_dict/to_dict -> {key: value_expr} or None."""
    rets = [n for n in pf.walk_no_nested(fn) if isinstance(n, ast.Return)]
    if len(rets) != 1:
        return None
    v = rets[0].value
    if isinstance(v, ast.Name):
        name = v.id
        d = None
        for n in pf.walk_no_nested(fn):
            if isinstance(n, ast.Assign) and len(n.targets) == 1 and isinstance(n.targets[0], ast.Name) \
                    and n.targets[0].id == name and (isinstance(n.value, ast.Dict) or (
                        isinstance(n.value, ast.Call) and pf.call_name(n.value) == "dict")):
                d = n.value
        v = d
    if isinstance(v, ast.Call) and pf.call_name(v) == "dict" and not v.args and all(k.arg for k in v.keywords):
        return {k.arg: k.value for k in v.keywords}  # dict(a=..., b=...) == {"a": ..., "b": ...}
    if not isinstance(v, ast.Dict):
        return None
    out = {}
    for k, val in zip(v.keys, v.values):
        if not (isinstance(k, ast.Constant) and isinstance(k.value, str)):
            return None
        out[k.value] = val
    return out


def key_read(e, dname):
    """d["K"] -> ("K", True) ; d.get("K"[, dflt]) -> ("K", False)"""
    if isinstance(e, ast.Subscript) and isinstance(e.value, ast.Name) and e.value.id == dname \
            and isinstance(e.slice, ast.Constant):
        return e.slice.value, True
    if isinstance(e, ast.Call) and isinstance(e.func, ast.Attribute) and e.func.attr == "get" \
            and isinstance(e.func.value, ast.Name) and e.func.value.id == dname and e.args \
            and isinstance(e.args[0], ast.Constant):
        return e.args[0].value, False
    return None


EVAL_METHODS = ("fill_feat_", "fill_deriv_", "bounds", "num_arg", "__call__")


def eval_attr_reads(prog, mod, cls):
    """self.<attr> read (transitively through self.method()) by evaluation methods."""
    seen, reads, todo = set(), {}, []
    for nm in EVAL_METHODS:
        r = prog.find_method(mod, cls, nm)
        if r and r[1].name not in ("FeatureNormalizer", "XCEvalSerializable", "FuncEvaluator", "ABC"):
            todo.append(r[2])
    while todo:
        fn = todo.pop()
        if id(fn) in seen:
            continue
        seen.add(id(fn))
        for n in pf.walk_no_nested(fn):
            if pf.is_self_attr(n) and isinstance(n.ctx, ast.Load):
                r = prog.find_method(mod, cls, n.attr)
                if r is not None:
                    todo.append(r[2])
                else:
                    reads.setdefault(n.attr, n)
    return reads


def analyse_class(chk, prog, mod, cls, ser_name="as_dict", require_code=True):
    rel, cname = mod.rel, cls.name
    ms = {}
    for nm in ("__init__", ser_name, "from_dict"):
        r = prog.find_method(mod, cls, nm)
        ms[nm] = r[2] if r else None
    if ms["__init__"] is None or ms[ser_name] is None or ms["from_dict"] is None:
        chk.violation("attr-loop", rel, cname, "class %s" % cname, cls.lineno,
                      "registered serialisable class lacks __init__/%s/from_dict" % ser_name)
        return
    params, store, derived = ctor_param_attrs(ms["__init__"])
    dct = dict_of_return(ms[ser_name])
    if dct is None:
        raise core.AnalysisError("%s.%s: cannot read the returned dict literal" % (cname, ser_name))
    # written key -> attribute
    key_attr = {}
    for k, v in dct.items():
        v2 = strip_wrappers(v)
        if pf.is_self_attr(v2):
            a = v2.attr
            pt = property_target(prog, mod, cls, a)
            key_attr[k] = pt if pt else a
        else:
            key_attr[k] = "<expr:%s>" % pf.src(v2)
    # code table
    if require_code:
        ca = prog.find_class_attr(mod, cls, "code")
        code = None
        if ca is not None and isinstance(ca[2], ast.Constant):
            code = ca[2].value
        written = dct.get("code")
        wcode = None
        if written is not None:
            if isinstance(written, ast.Constant):
                wcode = written.value
            elif pf.is_self_attr(written, "code") or pf.src(written) in ("cls.code", "type(self).code"):
                wcode = code
        inst = "%s code=%r written=%r" % (cname, code, wcode)
        if not isinstance(code, str) or wcode != code:
            chk.violation("code-table", rel, cname, "code of %s" % cname, cls.lineno,
                          "class attribute code=%r (registry key) but as_dict writes %r: "
                          "from_dict(as_dict(x)) cannot dispatch back to this class" % (code, wcode),
                          instance=inst)
        else:
            chk.ok("code-table", inst)
    # from_dict: return cls(...)
    fd = ms["from_dict"]
    dname = fd.args.args[-1].arg if fd.args.args else "d"
    rets = [n for n in pf.walk_no_nested(fd) if isinstance(n, ast.Return)]
    if len(rets) != 1 or not isinstance(rets[0].value, ast.Call):
        raise core.AnalysisError("%s.from_dict: not a single `return cls(...)`" % cname)
    call = rets[0].value
    if pf.src(call.func) not in ("cls", cname):
        raise core.AnalysisError("%s.from_dict returns %s(...), expected cls(...)" % (cname, pf.src(call.func)))
    bound = {}
    for i, a in enumerate(call.args):
        if i < len(params):
            bound[params[i]] = a
    for kw in call.keywords:
        if kw.arg:
            bound[kw.arg] = kw.value
    init = ms["__init__"]
    ndef = len(init.args.defaults)
    pos = [a.arg for a in init.args.args[1:]]
    with_default = set(pos[len(pos) - ndef:]) if ndef else set()
    with_default |= {a.arg for a, d in zip(init.args.kwonlyargs, init.args.kw_defaults) if d is not None}
    reads = eval_attr_reads(prog, mod, cls)
    for p in params:
        inst = "%s(%s)" % (cname, p)
        if p not in bound:
            attr = store.get(p)
            if p not in with_default:
                chk.violation("attr-loop", rel, cname + ".from_dict", "param %s" % p, fd.lineno,
                              "constructor parameter %r is not supplied by from_dict" % p, instance=inst)
            elif attr in reads or any(("self." + str(attr)) in derived.get(a, ()) or p in derived.get(a, ())
                                      for a in reads):
                chk.violation("attr-loop", rel, cname + ".from_dict", "param %s" % p, fd.lineno,
                              "optional constructor parameter %r feeds evaluation state (self.%s) but is "
                              "not restored by from_dict: a non-default value is lost on reload" % (p, attr),
                              instance=inst)
            else:
                chk.ok("attr-loop", inst + " optional, not evaluation state", nontrivial=False)
            continue
        kr = key_read(bound[p], dname)
        if kr is None:
            chk.note("attr-loop", "%s:%s" % (rel, cname), "from_dict passes a computed value for %r: %s" % (
                p, pf.src(bound[p])))
            continue
        key, strict = kr
        if key not in key_attr:
            if strict:
                chk.violation("attr-loop", rel, cname + ".from_dict", "d[%r]" % key, bound[p].lineno,
                              "from_dict reads key %r which %s never writes (KeyError on reload)" % (key, ser_name),
                              instance=inst)
            elif store.get(p) in reads:
                chk.violation("attr-loop", rel, cname + ".from_dict", "d.get(%r)" % key, bound[p].lineno,
                              "from_dict reads optional key %r which %s never writes; self.%s is evaluation "
                              "state and silently falls back to its default" % (key, ser_name, store.get(p)),
                              instance=inst)
            else:
                chk.ok("attr-loop", inst + " optional key, not evaluation state", nontrivial=False)
            continue
        want = store.get(p)
        got = key_attr[key]
        if want is None:
            # parameter is not stored verbatim; accept if the written attribute is derived from it
            if got in derived and p in derived[got]:
                chk.ok("attr-loop", inst + " derived")
            else:
                chk.note("attr-loop", "%s:%s" % (rel, cname), "parameter %r is not stored verbatim" % p)
            continue
        if got != want:
            chk.violation("attr-loop", rel, cname + ".from_dict", "%s <- d[%r]" % (p, key), bound[p].lineno,
                          "constructor parameter %r is stored in self.%s, but from_dict feeds it from key %r "
                          "which %s fills from %s: the reloaded object differs" % (p, want, key, ser_name, got),
                          instance=inst)
        else:
            chk.ok("attr-loop", inst + " <- %r <- self.%s" % (key, got))
    # evaluation state coverage
    restored = {store[p] for p in bound if p in store}
    cls_consts = set()
    for m2, c2 in prog.mro(mod, cls):
        cls_consts |= set(pf.class_attrs(c2))
    ok_attrs = set(restored) | cls_consts
    changed = True
    while changed:
        changed = False
        for a, deps in derived.items():
            if a in ok_attrs:
                continue
            good = True
            for d_ in deps:
                if d_.startswith("self."):
                    good &= d_[5:] in ok_attrs
                else:
                    good &= d_ in bound
            if good:
                ok_attrs.add(a)
                changed = True
    for a, node in sorted(reads.items()):
        inst = "%s reads self.%s" % (cname, a)
        if a in ok_attrs:
            chk.ok("state-coverage", inst)
        else:
            chk.violation("state-coverage", rel, cname, "self.%s" % a, node.lineno,
                          "evaluation reads self.%s, which is neither restored by from_dict, derived from "
                          "restored attributes, nor a class constant" % a, instance=inst)


def registry_classes(mod):
    """-> (class names, explicit {code: class name} table or None).  Two equivalent forms are
    understood: the list ALL_CLASSES registered by a loop `ALL_CLASS_DICT[cls.code] = cls`, and an
    explicit dict literal ALL_CLASS_DICT = {"code": Class, ...} (ALL_CLASSES derived from it)."""
    d = mod.assigns.get("ALL_CLASS_DICT")
    if isinstance(d, ast.Dict) and d.keys:
        table = {}
        for k, v in zip(d.keys, d.values):
            if not (isinstance(k, ast.Constant) and isinstance(k.value, str) and isinstance(v, ast.Name)):
                raise core.AnalysisError("ALL_CLASS_DICT literal has a non-literal entry")
            table[k.value] = v.id
        return list(table.values()), table
    v = mod.assigns.get("ALL_CLASSES")
    # third form: ALL_CLASSES = Base.__subclasses__() [wrapped in list()/tuple()] -- at that statement the
    # value is the list of *direct* subclasses of Base created so far, i.e. the module-level classes above the
    # statement whose bases name Base (a subclass of a subclass is NOT in it)
    w = v
    if isinstance(w, ast.Call) and isinstance(w.func, ast.Name) and w.func.id in ("list", "tuple") and len(w.args) == 1:
        w = w.args[0]
    if (isinstance(w, ast.Call) and not w.args and isinstance(w.func, ast.Attribute)
            and w.func.attr == "__subclasses__" and isinstance(w.func.value, ast.Name)):
        base = w.func.value.id
        at = max((st.lineno for st in mod.ast.body if isinstance(st, ast.Assign)
                  and any(isinstance(t, ast.Name) and t.id == "ALL_CLASSES" for t in st.targets)), default=0)
        return [st.name for st in mod.ast.body if isinstance(st, ast.ClassDef) and st.lineno < at
                and any(isinstance(b, ast.Name) and b.id == base for b in st.bases)], None
    if not isinstance(v, (ast.List, ast.Tuple)):
        raise core.AnalysisError("neither a literal ALL_CLASSES list nor a literal ALL_CLASS_DICT in %s" % mod.rel)
    names = []
    for e in v.elts:
        if not isinstance(e, ast.Name):
            raise core.AnalysisError("ALL_CLASSES has a non-name element")
        names.append(e.id)
    return names, None


def rule_registry(chk, prog):
    mod = prog.module(TD)
    names, table = registry_classes(mod)
    chk.count("registered map classes", len(names))
    if table is not None:
        # explicit table: the key a class is registered under must be the code its as_dict writes
        for code, nm in table.items():
            cls = mod.cls(nm)
            ca = prog.find_class_attr(mod, cls, "code")
            ccode = ca[2].value if ca and isinstance(ca[2], ast.Constant) else None
            if ccode != code:
                chk.violation("code-table", TD, nm, "registry key %r -> %s" % (code, nm), cls.lineno,
                              "ALL_CLASS_DICT registers %s under %r but the class writes code %r: a saved %s "
                              "reloads as %s" % (nm, code, ccode, nm, table.get(ccode, "an error")))
            else:
                chk.ok("code-table", "registry key %r == %s.code" % (code, nm))
    else:
        # registration statement: ALL_CLASS_DICT[cls.code] = cls inside a loop over ALL_CLASSES
        found = False
        for st in mod.ast.body:
            if isinstance(st, ast.For) and pf.src(st.iter) == "ALL_CLASSES":
                for n in ast.walk(st):
                    if isinstance(n, ast.Assign) and pf.src(n.targets[0]).startswith("ALL_CLASS_DICT["):
                        if pf.src(n.targets[0].slice) == "%s.code" % pf.src(st.target) and pf.src(n.value) == pf.src(st.target):
                            found = True
        if not found:
            raise core.AnalysisError("registration loop `ALL_CLASS_DICT[cls.code] = cls` not found")
    codes = {}
    for nm in names:
        cls = mod.cls(nm)
        analyse_class(chk, prog, mod, cls)
        ca = prog.find_class_attr(mod, cls, "code")
        code = ca[2].value if ca and isinstance(ca[2], ast.Constant) else None
        if code in codes:
            chk.violation("code-table", TD, nm, "code %r" % code, cls.lineno,
                          "code %r is shared by %s and %s" % (code, codes[code], nm))
        codes[code] = nm
    # every concrete FeatureNormalizer subclass must be registered
    for m, c in prog.subclasses("FeatureNormalizer"):
        if c.name == "FeatureNormalizer" or m.rel != TD:
            continue
        own_code = any(isinstance(st, ast.Assign) and any(isinstance(t, ast.Name) and t.id == "code" for t in st.targets)
                       for st in c.body)
        if ("as_dict" in pf.methods(c) or own_code) and c.name not in names:
            chk.violation("code-table", TD, c.name, "class %s" % c.name, c.lineno,
                          "map class with its own code / as_dict is not in ALL_CLASSES: its dict cannot be loaded")
        else:
            chk.ok("code-table", "%s registered" % c.name, nontrivial=False)


def rule_reject(chk, prog):
    # FeatureNormalizer.from_dict: dispatch only under membership, else raise
    mod = prog.module(TD)
    fn = mod.func("FeatureNormalizer.from_dict")
    g = cfgm.CFG(fn)
    n_ret = 0
    for n in g.nodes:
        if n.kind == "stmt" and isinstance(n.ast, ast.Return):
            n_ret += 1
            conds = cfgm.conditions_at(n.ast)
            # `if code in D: return D[code]...` or the early-exit form `if code not in D: raise` / return after it
            okc = any(isinstance(t, ast.Compare) and len(t.ops) == 1
                      and "ALL_CLASS_DICT" in pf.src(t.comparators[0])
                      and ((pol and isinstance(t.ops[0], ast.In)) or (not pol and isinstance(t.ops[0], ast.NotIn)))
                      for t, pol, _ in conds)
            if okc:
                chk.ok("reject", "FeatureNormalizer.from_dict dispatch under membership test")
            else:
                chk.violation("reject", TD, "FeatureNormalizer.from_dict", pf.src(n.ast), n.ast.lineno,
                              "dispatch on d['code'] is not guarded by `in ALL_CLASS_DICT`")
    falls = [p for p in g.pred[g.exit.id] if not isinstance(g.nodes[p].ast, ast.Return)]
    if falls:
        chk.violation("reject", TD, "FeatureNormalizer.from_dict", "fall-through", fn.lineno,
                      "a path returns None instead of raising for an unknown code")
    else:
        chk.ok("reject", "FeatureNormalizer.from_dict: unknown code raises")
    # load_cider_model: every return passed the isinstance test; format ladders end in raise
    mu = prog.module(MU)
    fn = mu.func("load_cider_model")
    for n in pf.walk_no_nested(fn):
        if isinstance(n, ast.Return):
            conds = cfgm.conditions_at(n)
            good = False
            for t, pol, kind in conds:
                s = pf.src(t)
                if "isinstance(" in s and "MappedXC" in s:
                    neg = isinstance(t, ast.UnaryOp) and isinstance(t.op, ast.Not)
                    if (neg and not pol) or (not neg and pol):
                        good = True
            if good:
                chk.ok("reject", "load_cider_model return is behind the isinstance(MappedXC*) test")
            else:
                chk.violation("reject", MU, "load_cider_model", pf.src(n), n.lineno,
                              "a return is reachable without the isinstance(mlfunc, (MappedXC, MappedXC2)) test")
    # an explicit format argument wins over anything inferred from the file name: the format parameter may only
    # be rebound where it is None (directly, or inside a same-module helper that returns the forwarded argument
    # on every path where it is not None)
    if len(fn.args.args) >= 2:
        pname = fn.args.args[1].arg
        n_rebind = 0
        for n in pf.walk_no_nested(fn):
            if not (isinstance(n, ast.Assign) and any(isinstance(t, ast.Name) and t.id == pname for t in n.targets)):
                continue
            n_rebind += 1
            why = _explicit_wins(mu, n, pname)
            inst = "load_cider_model rebinds %s only where it is None (%s)" % (pname, pf.src(n)[:60])
            if why is None:
                chk.ok("reject", inst)
            else:
                chk.violation("reject", MU, "load_cider_model", pf.src(n), n.lineno,
                              "the explicit format argument `%s` is overridden %s: a model saved under a name whose "
                              "extension disagrees with the requested format is read with the wrong loader, and an "
                              "unsupported explicit format is no longer rejected" % (pname, why), instance=inst)
        chk.count("format rebinds", n_rebind)
    ladders = 0
    # the format ladders may live in same-module helpers called (transitively) from load_cider_model
    fns, todo = [], [fn]
    while todo:
        f_ = todo.pop()
        if any(f_ is g_ for g_ in fns):
            continue
        fns.append(f_)
        for c_ in pf.walk_no_nested(f_):
            if isinstance(c_, ast.Call) and isinstance(c_.func, ast.Name) and c_.func.id in mu.functions:
                todo.append(mu.functions[c_.func.id])
    ladder_nodes = [n for f_ in fns for n in pf.walk_no_nested(f_)]
    for n in ladder_nodes:
        if isinstance(n, ast.If) and not isinstance(pf.parent(n), ast.If) or (
                isinstance(n, ast.If) and n not in getattr(pf.parent(n), "orelse", [])):
            # head of a ladder on format strings
            lits = ladder_literals(n)
            if lits is None or len(lits[0]) < 2:
                continue
            ladders += 1
            keys, last_else = lits
            if last_else is None or not cfgm._raises(last_else):
                chk.violation("reject", MU, "load_cider_model", "ladder %s" % keys, n.lineno,
                              "format ladder over %s does not end in a raising else" % keys)
            else:
                chk.ok("reject", "load_cider_model ladder %s ends in raise" % keys)
    # ElectronAnalyzer.from_dict atype ladder
    an = prog.module(AN)
    fn = an.func("ElectronAnalyzer.from_dict")
    found = False
    for n in pf.walk_no_nested(fn):
        if isinstance(n, ast.If) and n not in getattr(pf.parent(n), "orelse", []):
            lits = ladder_literals(n, allow_none=True)
            if lits and len(lits[0]) >= 2:
                found = True
                if lits[1] is None or not cfgm._raises(lits[1]):
                    chk.violation("reject", AN, "ElectronAnalyzer.from_dict", "ladder %s" % lits[0], n.lineno,
                                  "analyzer-type ladder does not end in a raising else")
                else:
                    chk.ok("reject", "ElectronAnalyzer.from_dict ladder %s ends in raise" % lits[0])
    if not found:
        raise core.AnalysisError("ElectronAnalyzer.from_dict: atype ladder not found")
    # keys read ⊆ keys written
    asd = dict_of_return(an.func("ElectronAnalyzer.as_dict"))
    if asd is None:
        raise core.AnalysisError("ElectronAnalyzer.as_dict dict literal not found")
    for n in pf.walk_no_nested(fn):
        kr = key_read(n, fn.args.args[-1].arg)
        if kr:
            if kr[0] in asd:
                chk.ok("attr-loop", "ElectronAnalyzer key %r written and read" % kr[0])
            else:
                chk.violation("attr-loop", AN, "ElectronAnalyzer.from_dict", "d[%r]" % kr[0], n.lineno,
                              "key %r read by from_dict is never written by as_dict" % kr[0])


def _is_none_test(t, pol, name):
    """True when (t, pol) establishes `name is None`"""
    if isinstance(t, ast.Compare) and len(t.ops) == 1 and isinstance(t.left, ast.Name) and t.left.id == name \
            and isinstance(t.comparators[0], ast.Constant) and t.comparators[0].value is None:
        if isinstance(t.ops[0], (ast.Is, ast.Eq)):
            return pol
        if isinstance(t.ops[0], (ast.IsNot, ast.NotEq)):
            return not pol
    if isinstance(t, ast.UnaryOp) and isinstance(t.op, ast.Not):
        return _is_none_test(t.operand, not pol, name)
    return False


def _explicit_wins(mod, assign, pname):
    """None when the rebinding of the explicit-format parameter cannot override a non-None argument; else why."""
    if any(_is_none_test(t, pol, pname) for t, pol, _ in cfgm.conditions_at(assign)):
        return None
    v = assign.value
    if isinstance(v, ast.IfExp) and _is_none_test(v.test, True, pname) and isinstance(v.orelse, ast.Name) \
            and v.orelse.id == pname:
        return None
    if isinstance(v, ast.IfExp) and _is_none_test(v.test, False, pname) and isinstance(v.body, ast.Name) \
            and v.body.id == pname:
        return None
    if isinstance(v, ast.BoolOp) and isinstance(v.op, ast.Or) and isinstance(v.values[0], ast.Name) \
            and v.values[0].id == pname:
        return None  # `fmt = fmt or infer(...)`
    if isinstance(v, ast.Call) and isinstance(v.func, ast.Name) and v.func.id in mod.functions:
        h = mod.functions[v.func.id]
        q = None
        hp = [a.arg for a in h.args.args]
        for i, a in enumerate(v.args):
            if isinstance(a, ast.Name) and a.id == pname and i < len(hp):
                q = hp[i]
        for k in v.keywords:
            if isinstance(k.value, ast.Name) and k.value.id == pname and k.arg in hp:
                q = k.arg
        if q is None:
            return "by the result of %s(), which does not receive it" % h.name
        for r in pf.walk_no_nested(h):
            if not isinstance(r, ast.Return):
                continue
            if isinstance(r.value, ast.Name) and r.value.id == q:
                continue
            if any(_is_none_test(t, pol, q) for t, pol, _ in cfgm.conditions_at(r)):
                continue
            return "by %s(): `%s` is reachable with a non-None `%s`" % (h.name, pf.src(r), q)
        return None
    return "unconditionally by `%s`" % pf.src(v)[:60]


def ladder_literals(ifnode, allow_none=False):
    """if v == 'a' [or v == 'b']: .. elif v == 'c': .. else: X  ->  (['a','b','c'], X-or-None)"""
    keys = []
    cur = ifnode
    while True:
        ks = _eq_literals(cur.test, allow_none)
        if ks is None:
            return None
        keys += ks
        if len(cur.orelse) == 1 and isinstance(cur.orelse[0], ast.If):
            cur = cur.orelse[0]
            continue
        return keys, (cur.orelse or None)


def _eq_literals(t, allow_none=False):
    if isinstance(t, ast.BoolOp) and isinstance(t.op, ast.Or):
        out = []
        for v in t.values:
            r = _eq_literals(v, allow_none)
            if r is None:
                return None
            out += r
        return out
    if isinstance(t, ast.Compare) and len(t.ops) == 1:
        if isinstance(t.ops[0], ast.Eq) and isinstance(t.comparators[0], ast.Constant) \
                and isinstance(t.comparators[0].value, str):
            return [t.comparators[0].value]
        if allow_none and isinstance(t.ops[0], ast.Is) and isinstance(t.comparators[0], ast.Constant) \
                and t.comparators[0].value is None:
            return ["<None>"]
    if isinstance(t, ast.Call) and isinstance(t.func, ast.Attribute) and t.func.attr == "endswith" \
            and t.args and isinstance(t.args[0], ast.Constant):
        return ["*" + t.args[0].value]
    return None


def rule_loader(chk, prog):
    n_pairs = 0
    for rel in (TD, XE, XE2, MU, AN):
        mod = prog.modules.get(rel)
        if mod is None:
            continue
        for n in ast.walk(mod.ast):
            if isinstance(n, ast.Call) and pf.call_name(n) in ("yaml.load", "yaml.load_all"):
                n_pairs += 1
                ld = [k for k in n.keywords if k.arg == "Loader"]
                name = pf.src(ld[0].value) if ld else (pf.src(n.args[1]) if len(n.args) > 1 else None)
                fn = pf.enclosing_func(n)
                where = pf.qualname(fn) if fn else "<module>"
                if name and name.split(".")[-1] in ("Loader", "CLoader", "UnsafeLoader", "CUnsafeLoader",
                                                    "FullLoader", "CFullLoader"):
                    if name.split(".")[-1] in ("FullLoader", "CFullLoader"):
                        chk.violation("loader", rel, where, pf.src(n), n.lineno,
                                      "FullLoader refuses the python/object tags that yaml.dump writes for "
                                      "model objects and numpy arrays")
                    else:
                        chk.ok("loader", "%s:%s uses %s" % (rel, where, name))
                else:
                    chk.violation("loader", rel, where, pf.src(n), n.lineno,
                                  "yaml.load with loader %s cannot rebuild the python objects (numpy arrays, "
                                  "evaluator instances, tuples) that the paired yaml.dump writes" % name)
            if isinstance(n, ast.Call) and pf.call_name(n) in ("yaml.safe_load",):
                fn = pf.enclosing_func(n)
                chk.violation("loader", rel, pf.qualname(fn) if fn else "<module>", pf.src(n), n.lineno,
                              "yaml.safe_load cannot rebuild the python objects written by yaml.dump")
    chk.count("yaml load sites", n_pairs)


def rule_dangling(chk, prog):
    """to_dict/as_dict bodies calling <self.attr>.to_dict()/as_dict() where the attribute's
    declared class (constructor isinstance/assert or documented type) lacks that method."""
    for rel in (XE, XE2):
        mod = prog.module(rel)
        for cname, cls in mod.classes.items():
            for mname in ("to_dict", "as_dict"):
                fn = pf.methods(cls).get(mname)
                if fn is None:
                    continue
                for n in pf.walk_no_nested(fn):
                    if isinstance(n, ast.Call) and isinstance(n.func, ast.Attribute) \
                            and n.func.attr in ("to_dict", "as_dict") and pf.is_self_attr(n.func.value):
                        attr = n.func.value.attr
                        if attr == "feature_list":
                            td = prog.module(TD)
                            has = n.func.attr in pf.methods(td.cls("FeatureList"))
                            inst = "%s.%s -> self.%s.%s()" % (cname, mname, attr, n.func.attr)
                            if has:
                                chk.ok("dangling-ser", inst)
                            else:
                                # the paired from_dict raises NotImplementedError: dict format is
                                # declared unsupported for this class, so this is not a violation
                                chk.ok("dangling-ser", inst + " (unsupported format, noted)", nontrivial=False)
                                chk.note("dangling-ser", "%s:%s.%s" % (rel, cname, mname),
                                         "FeatureList defines no %s(); the paired from_dict raises "
                                         "NotImplementedError, i.e. the dict format is not a supported "
                                         "format for this class" % n.func.attr)



def rule_falsy_default(chk, prog):
    """`d.get(K) or dflt` / `d[K] or dflt` in a from_dict: a legitimately falsy stored value (0, 0.0,
    False, empty tuple) is replaced by the default on reload."""
    n_inst = 0
    for rel in (TD, XE, XE2, AN):
        mod = prog.modules.get(rel)
        if mod is None:
            continue
        for cname, cls in mod.classes.items():
            fd = pf.methods(cls).get("from_dict")
            if fd is None or not fd.args.args:
                continue
            dname = fd.args.args[-1].arg
            ser = pf.methods(cls).get("as_dict") or pf.methods(cls).get("to_dict")
            written = dict_of_return(ser) if ser is not None else None
            for n in pf.walk_no_nested(fd):
                kr = key_read(n, dname)
                if kr is None:
                    continue
                n_inst += 1
                par = pf.parent(n)
                if isinstance(par, ast.BoolOp) and isinstance(par.op, ast.Or) and par.values[0] is n \
                        and (written is None or kr[0] in written):
                    chk.violation("falsy-default", rel, cname + ".from_dict", pf.src(par), n.lineno,
                                  "key %r is written by the serialiser, but `... or default` replaces a stored "
                                  "falsy value (0, False, empty) by the default: the reloaded object differs" % kr[0])
                else:
                    chk.ok("falsy-default", "%s.from_dict reads %r verbatim" % (cname, kr[0]), nontrivial=False)
    chk.count("from_dict key reads", n_inst)


LOADERS = [(MU, "load_cider_model"), (TD, "FeatureList.load"), (XE, "XCEvalSerializable.load"),
           (AN, "ElectronAnalyzer.load")]


def rule_load_fresh(chk, prog):
    """A loader must deserialise the file it is given in this call: serving objects from process-level
    mutable state keyed by the file name returns a stale model after the file changed."""
    for rel, qual in LOADERS:
        mod = prog.module(rel)
        fn = mod.func(qual)
        fns, todo = [], [fn]
        while todo:
            f_ = todo.pop()
            if any(f_ is g_ for g_ in fns):
                continue
            fns.append(f_)
            for c_ in pf.walk_no_nested(f_):
                if isinstance(c_, ast.Call) and isinstance(c_.func, ast.Name) and c_.func.id in mod.functions:
                    todo.append(mod.functions[c_.func.id])
        persistent = {k for k, v in mod.assigns.items()
                      if isinstance(v, (ast.Dict, ast.List, ast.Set)) or (
                          isinstance(v, ast.Call) and pf.call_name(v) in ("dict", "list", "set", "OrderedDict",
                                                                          "collections.OrderedDict", "WeakValueDictionary"))}
        bad = None
        mapped = None
        for f_ in fns:
            for n in pf.walk_no_nested(f_):
                root = None
                if isinstance(n, ast.Subscript) and isinstance(n.ctx, ast.Load):
                    root = pf.base_name(n.value)
                elif isinstance(n, ast.Call) and isinstance(n.func, ast.Attribute) and n.func.attr in ("get", "setdefault", "pop"):
                    root = pf.base_name(n.func.value)
                if root in persistent and root not in ("ALL_CLASS_DICT",):
                    bad = (n, root, f_)
            for dec in f_.decorator_list:
                if "cache" in pf.src(dec):
                    bad = (dec, pf.src(dec), f_)
            # the loaded object must own its data: a memory-mapped load (joblib/numpy mmap_mode, np.memmap,
            # mmap.mmap) leaves the arrays backed by the file, so overwriting the file changes a model that was
            # loaded before
            for n in pf.walk_no_nested(f_):
                if not isinstance(n, ast.Call):
                    continue
                mm = [k for k in n.keywords if k.arg == "mmap_mode"
                      and not (isinstance(k.value, ast.Constant) and k.value.value is None)]
                cn = pf.call_name(n) or ""
                if mm or cn.split(".")[-1] in ("memmap", "open_memmap") or cn in ("mmap.mmap", "mmap"):
                    mapped = (n, f_)
        inst = "%s:%s reads the file on every call" % (rel, qual)
        if bad:
            n, root, f_ = bad
            chk.violation("load-fresh", rel, qual, "%s" % root, getattr(n, "lineno", fn.lineno),
                          "the loader serves objects from the process-level container/cache `%s` (in %s): after "
                          "the file is overwritten a second load returns the stale object" % (root, f_.name),
                          instance=inst)
        else:
            chk.ok("load-fresh", inst)
        inst2 = "%s:%s returns objects that own their data (no memory-mapped load)" % (rel, qual)
        if mapped:
            n, f_ = mapped
            chk.violation("load-fresh", rel, qual, pf.src(n), n.lineno,
                          "the loader memory-maps the file (in %s): the returned model's arrays stay backed by the "
                          "file, so a later save to the same path silently changes the already loaded model" % f_.name,
                          instance=inst2)
        else:
            chk.ok("load-fresh", inst2)


def analyse(chk):
    tree = chk.tree
    prog = pf.Program(tree, [TD, XE, XE2, MU, AN])
    chk.rule("code-table", "class code == code written by as_dict == registry key; codes unique; all maps registered")
    chk.rule("attr-loop", "ctor param -> attribute -> serialised key -> from_dict read -> same ctor param")
    chk.rule("state-coverage", "attributes read by evaluation methods are restored, derived or class constants")
    chk.rule("reject", "unknown codes / formats / types raise")
    chk.rule("loader", "yaml.load uses a loader able to rebuild what yaml.dump wrote")
    chk.rule("dangling-ser", "serialisers only call serialisers that exist")
    chk.guard(rule_registry, prog)

    def _fl(c):
        td = prog.module(TD)
        # FeatureList: as_dict writes feat_list as list of as_dict; from_dict maps FeatureNormalizer.from_dict
        fl = td.cls("FeatureList")
        asd = dict_of_return(pf.methods(fl)["as_dict"])
        if asd is None or "feat_list" not in asd:
            raise core.AnalysisError("FeatureList.as_dict no longer returns {'feat_list': ...}")
        v = asd["feat_list"]
        okw = isinstance(v, ast.ListComp) and "as_dict()" in pf.src(v.elt) and pf.src(v.generators[0].iter) == "self.feat_list"
        fd = pf.methods(fl)["from_dict"]
        s = pf.src(fd)
        okr = "FeatureNormalizer.from_dict(" in s and "feat_list" in s
        # order preserved: iteration over range(len(d['feat_list'])) or direct iteration
        comp = [n for n in ast.walk(fd) if isinstance(n, ast.ListComp)]
        oko = False
        for lc in comp:
            it = pf.src(lc.generators[0].iter)
            if it in ("range(len(d['feat_list']))", "d['feat_list']") and not lc.generators[0].ifs:
                oko = True
        if okw and okr and oko:
            c.ok("attr-loop", "FeatureList feat_list element-wise, order preserved")
        else:
            c.violation("attr-loop", TD, "FeatureList", "feat_list round trip", fl.lineno,
                        "FeatureList.as_dict/from_dict no longer map the feature list element-wise in order")
        xe = prog.module(XE)
        analyse_class(c, prog, xe, xe.cls("SplineSetEvaluator"), ser_name="to_dict", require_code=False)

    chk.guard(_fl)
    chk.guard(rule_reject, prog)
    chk.guard(rule_loader, prog)
    chk.guard(rule_dangling, prog)
    chk.rule("falsy-default", "from_dict never replaces a stored falsy value by a default (`d.get(k) or x`)")
    chk.rule("load-fresh", "loaders deserialise the given file on every call (no process-level memo)")
    chk.guard(rule_falsy_default, prog)
    chk.guard(rule_load_fresh, prog)
    chk.floor("code-table", 15, "21 registered map classes")
    chk.floor("attr-loop", 40, "ctor parameters of 21 maps + SplineSetEvaluator + analyzer keys")
    chk.floor("state-coverage", 30, "attributes read by fill_feat_/fill_deriv_/bounds")
    chk.floor("reject", 3, "registry dispatch, model-format ladder(s), analyzer-type ladder")
    chk.floor("load-fresh", 4, "four loaders x (fresh read, owns data)")
    chk.floor("loader", 2, "FeatureList.load, XCEvalSerializable.load, load_cider_model")
    chk.assumptions += [
        "evaluation is a deterministic function of the attributes restored by from_dict",
        "yaml round-trips python scalars, tuples and numpy arrays with Loader/CLoader",
    ]
    chk.not_decided += ["bit-identity of evaluation after reload (numerical)",
                        "joblib pickling fidelity"]


def mutants(tree):
    return [
        Mutant("as_dict writes literal other code", TD, '"code": self.code,\n            "i": self.i,\n            "gamma"',
               '"code": "L",\n            "i": self.i,\n            "gamma"', expect="code-table"),
        Mutant("drop key from as_dict", TD, '"gamma": self.gamma,\n', "", expect="attr-loop"),
        Mutant("swap positional args in from_dict", TD, 'return cls(d["i"], d["j"], d["k"])',
               'return cls(d["j"], d["i"], d["k"])', expect="attr-loop"),
        Mutant("eval reads unserialised attr", TD, "y[:] = x[self.i]\n", "y[:] = x[self.i] * self.extra_scale\n",
               expect="state-coverage"),
        Mutant("registry from direct __subclasses__ + map re-based on a sibling map", TD,
               fn=lambda t: (re.sub(r"ALL_CLASSES = \[[^\]]*\]", "ALL_CLASSES = FeatureNormalizer.__subclasses__()", t, count=1)
                             .replace("class SLTWMap(FeatureNormalizer):", "class SLTWMap(SLTMap):", 1)
                             if "class SLTWMap(FeatureNormalizer):" in t and re.search(r"ALL_CLASSES = \[", t) else None),
               expect="code-table"),
        Mutant("SafeLoader", TD, "Loader=yaml.Loader", "Loader=yaml.SafeLoader", expect="loader"),
        Mutant("remove else raise of registry dispatch", TD,
               '        else:\n            raise ValueError("Unrecognized code: {}".format(d["code"]))', "", expect="reject"),
        Mutant("format ladder loses raise", MU,
               '            mlfunc = joblib.load(mlfunc)\n        else:\n            raise ValueError("Unsupported file format")',
               '            mlfunc = joblib.load(mlfunc)', expect="reject"),
        Mutant("type check removed", MU, "    if not isinstance(mlfunc, (MappedXC, MappedXC2)):\n        raise ValueError(\"mlfunc must be MappedXC\")\n", "", expect="reject"),
        Mutant("spline const not restored", XE, 'const=d["const"],', "", expect="attr-loop"),
        Mutant("bounds stored under other attr", TD, 'self._bounds = bounds or (0, 1)\n\n    @property\n    def bounds(self):\n        return self._bounds',
               'self._bounds = bounds or (0, 1)\n\n    @property\n    def bounds(self):\n        return (0, 1)', expect=None),
        Mutant("falsy default in from_dict", TD, 'return cls(d["i"], bounds=d.get("bounds"))', 'return cls(d["i"] or 1, bounds=d.get("bounds"))', expect="falsy-default"),
        Mutant("analyzer grid level falls back", AN, '"grids_level": d["grids_level"],', '"grids_level": d.get("grids_level") or 3,', expect="falsy-default"),
        Mutant("loader memo", TD, '    @classmethod\n    def load(cls, fname):\n        with open(fname, "r") as f:\n            d = yaml.load(f, Loader=yaml.Loader)\n        return cls.from_dict(d)',
               '    @classmethod\n    def load(cls, fname):\n        if fname in _LOADED:\n            return _LOADED[fname]\n        with open(fname, "r") as f:\n            d = yaml.load(f, Loader=yaml.Loader)\n        _LOADED[fname] = cls.from_dict(d)\n        return _LOADED[fname]\n\n\n_LOADED = {}', expect="load-fresh"),
        Mutant("memory-mapped joblib load", MU, "joblib.load(mlfunc)", 'joblib.load(mlfunc, mmap_mode="r")', expect="load-fresh"),
        Mutant("file extension overrides the explicit format", MU, "        if mlfunc_format is None:\n            if mlfunc.endswith(\".yaml\"):",
               "        if True:\n            if mlfunc.endswith(\".yaml\"):", expect="reject"),
        Mutant("unregister a map", TD, "    SLDMap,\n    OmegaMap,", "    OmegaMap,", expect="code-table"),
    ]


if __name__ == "__main__":
    sys.exit(core.main(PROP, analyse, mutants, __doc__))
