"""Build the C libraries needed by the demos into hunt_out/build (untracked, *.so is
git-ignored).  Sources are the unmodified files of the worktree.

libfft_wrapper.so : ciderpress/lib/fft_wrapper/cider_fft.c compiled against
    hunt_out/shim (a slow reference implementation of the few FFTW3 entry points
    that cider_fft.c uses, because FFTW is not installed in this sandbox).
libmcider.so : all of ciderpress/lib/mod_cider/*.c listed in its CMakeLists.txt,
    linked against the system OpenBLAS/LAPACK and the library above.
"""
import os
import subprocess

HERE = os.path.dirname(os.path.abspath(__file__))
ROOT = os.path.dirname(HERE)
BUILD = os.path.join(HERE, "build")
SHIM = os.path.join(HERE, "shim")
FFTDIR = os.path.join(ROOT, "ciderpress/lib/fft_wrapper")
MODDIR = os.path.join(ROOT, "ciderpress/lib/mod_cider")
os.makedirs(BUILD, exist_ok=True)


def _uptodate(target, srcs):
    if not os.path.exists(target):
        return False
    t = os.path.getmtime(target)
    return all(os.path.getmtime(s) <= t for s in srcs)


def build_fft():
    out = os.path.join(BUILD, "libfft_wrapper.so")
    srcs = [os.path.join(FFTDIR, "cider_fft.c"), os.path.join(SHIM, "fftw_shim.c")]
    deps = srcs + [os.path.join(FFTDIR, "cider_fft.h"), os.path.join(SHIM, "fftw3.h")]
    if not _uptodate(out, deps):
        cmd = ["gcc", "-O2", "-fopenmp", "-shared", "-fPIC", "-I" + SHIM, "-I" + FFTDIR]
        subprocess.check_call(cmd + srcs + ["-o", out, "-lm"])
    return out


def build_mcider():
    build_fft()
    out = os.path.join(BUILD, "libmcider.so")
    names = ["frac_lapl.c", "cider_coefs.c", "cider_grids.c", "spline.c", "sph_harm.c",
             "conv_interpolation.c", "convolutions.c", "fast_sdmx.c", "pbc_tools.c",
             "debug_numint.c", "model_utils.c"]
    srcs = [os.path.join(MODDIR, n) for n in names]
    deps = srcs + [os.path.join(MODDIR, h) for h in os.listdir(MODDIR) if h.endswith(".h")]
    if not _uptodate(out, deps):
        cmd = ["gcc", "-O2", "-w", "-fopenmp", "-shared", "-fPIC", "-I" + SHIM, "-I" + MODDIR,
               "-I" + FFTDIR] + srcs + ["-o", out, "-L" + BUILD, "-lfft_wrapper",
               "-Wl,-rpath," + BUILD, "-lopenblas", "-llapack", "-lm"]
        subprocess.check_call(cmd)
    return out
