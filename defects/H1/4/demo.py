"""
C01 demo: a GGA-level CIDER model ("np"/"ns" semilocal features) of the MappedXC2
kind (libxc baselines), restricted and unrestricted.

make_cider_calc accepts MappedXC and MappedXC2 models and GGA-level models are a
supported family ("Only GGA-level XC functionals can be used with GGA-level CIDER
functionals"), so CiderNumInt.nr_rks / nr_uks must return (nelec, excsum, vmat) with
vmat = d excsum / dP.  The equivalent MappedXC model (native baselines) works.

Run:  PYTHONPATH=/tmp/hunt/H1 /venv/bin/python demo.py
"""
import os
import sys
import traceback

sys.path.insert(0, os.path.join(os.path.dirname(os.path.abspath(__file__)), "..", "common"))
from demo_util import build_ks, default_mol, fd_vs_vmat, psd_dm  # noqa: E402

from ciderpress.dft import baselines  # noqa: E402
from ciderpress.dft.settings import FeatureSettings, SemilocalSettings  # noqa: E402
from ciderpress.dft.transform_data import FeatureList, UMap  # noqa: E402
from ciderpress.dft.xc_evaluator import (  # noqa: E402
    GlobalLinearEvaluator,
    MappedDFTKernel,
    MappedXC,
)
from ciderpress.dft.xc_evaluator2 import MappedDFTKernel2, MappedXC2  # noqa: E402

TOL = 1e-5


def run(v2, slmode, unrestricted):
    mol = default_mol(unrestricted)
    settings = FeatureSettings(sl_settings=SemilocalSettings(slmode))
    flist = FeatureList([UMap(1, 0.4)])
    feval = GlobalLinearEvaluator([0.3])
    if v2:
        kernel = MappedDFTKernel2(feval, flist, "SEP", "GGA_X_PBE", None)
        mlxc = MappedXC2([kernel], settings)
    else:
        kernel = MappedDFTKernel(feval, flist, "SEP", baselines.gga_x_pbe, baselines.zero_xc)
        mlxc = MappedXC([kernel], settings)
    ks = build_ks(mol, mlxc, unrestricted, xmix=0.25, xkernel="GGA_X_PBE", ckernel="GGA_C_PBE")
    dm = psd_dm(mol, unrestricted)
    return fd_vs_vmat(ks, dm)


if __name__ == "__main__":
    bad = False
    for slmode in ("np", "ns"):
        for unres in (False, True):
            name = "%s %s" % (slmode, "UKS" if unres else "RKS")
            e_ref, fd_ref, an_ref = run(False, slmode, unres)
            print("%s MappedXC  (GGA_X_PBE native baseline): Exc=%.8f dE(FD)=%.8f tr(vmat dP)=%.8f" % (name, e_ref, fd_ref, an_ref))
            try:
                e0, fd, an = run(True, slmode, unres)
            except Exception:
                print("%s MappedXC2 (GGA_X_PBE libxc baseline) : expected the same numbers, observed exception:" % name)
                print("    " + traceback.format_exc().strip().splitlines()[-1])
                bad = True
                continue
            print("%s MappedXC2 (GGA_X_PBE libxc baseline) : Exc=%.8f dE(FD)=%.8f tr(vmat dP)=%.8f" % (name, e0, fd, an))
            # the native PBE baseline reads s^2 from feature 1, i.e. only "np" is comparable
            if abs(fd - an) > TOL or (slmode == "np" and abs(e0 - e_ref) > 1e-6):
                bad = True
    if bad:
        print("FAIL")
        sys.exit(1)
    print("OK")
