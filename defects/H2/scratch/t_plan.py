import sys
sys.path.insert(0, '/tmp/hunt/H2/hunt_out/common')
import shim
import numpy as np
from scipy.special import erf
from ciderpress.dft.plans import NLDFGaussianPlan, NLDFSplinePlan
from ciderpress.dft.settings import *
np.random.seed(0)
th=[1.0,0.0,0.03125]; fp=[[2.0,0.0,0.04],[1.0,0.01,0.03],[0.5,0.0,0.02],[2.0,0.0,0.04,2.0]]
specs = ["se","se_ar2","se_a2r4","se_erf_rinv"]
vj = NLDFSettingsVJ('MGGA', th, 'one', specs, fp)
ng = 50
rho = np.exp(np.random.uniform(-6, 3, ng))
sigma = rho**(8/3)*np.random.uniform(0, 5, ng)
tau = 0.3*(3*np.pi**2)**(2/3)*rho**(5/3)*np.random.uniform(0.2,2,ng) + sigma/(8*rho)
rho_tuple = (rho, sigma, tau)
r = np.linspace(0, 6, 400)
def target(spec, a, c=None):
    k = np.exp(-a[:,None]*r**2)
    if spec=='se_ar2': k = k*a[:,None]*r**2
    if spec=='se_a2r4': k = k*(a[:,None]*r**2)**2
    if spec=='se_erf_rinv':
        x = np.sqrt(c*a[:,None])*r + 1e-16
        k = k*erf(x)/x*np.sqrt(np.pi)/2
    return k
for cls, kw in [(NLDFGaussianPlan, {}), (NLDFSplinePlan, {}), (NLDFSplinePlan, {'spline_size': 160}), (NLDFSplinePlan, {'spline_size': 37})]:
  for af in ['etb', 'zexp']:
    for order in ['gq', 'qg']:
        for proc_inds in [None, np.arange(0, 30, 2)]:
            plan = cls(vj, 1, 0.004, 1.5, 30, coef_order=order, alpha_formula=af, proc_inds=proc_inds, **kw)
            errs = []
            for i in range(-1, 4):
                arg, darg = plan.get_interpolation_arguments(rho_tuple, i=i)
                a = plan.eval_feat_exp(rho_tuple, i=i)[0]
                p, dp = plan.get_interpolation_coefficients(arg, i=i)
                if proc_inds is not None:
                    # embed local into full
                    full = plan.zero_coefs(ng, local=False)
                    if order == 'gq': full[:, proc_inds] = p
                    else: full[proc_inds] = p
                    # non-local coefficients for comparison
                    pfull, _ = plan._get_interpolation_coefficients(arg, i=i, local=False)
                    sel = pfull[:, proc_inds] if order=='gq' else pfull[proc_inds]
                    errs.append(np.abs(sel - p).max()/np.abs(pfull).max())
                    continue
                c = plan.get_transformed_interpolation_terms(p, i=i, fwd=True, inplace=False)
                if order == 'gq': c = c.T
                f = np.einsum('qg,q,qr->gr', c, plan.alpha_norms, np.exp(-plan.alphas[:,None]*r**2))
                if cls is NLDFSplinePlan and af=='zexp':
                    pass
                spec = 'se' if i==-1 else specs[i]
                t = target(spec, a, 2.0)
                # weight by r^2 (3-d) error
                errs.append(np.sqrt((((f-t)**2)*r**2).sum(axis=1)/((t**2)*r**2).sum(axis=1)).max())
            print(cls.__name__, kw, af, order, 'local' if proc_inds is not None else 'full', ' '.join('%.1e'%e for e in errs))
