#!/usr/bin/env python3
"""C17 -- analytic nuclear gradients.  Static rules (DESIGN.md §C17):

 unsupported-raise  for each of the 8 gradient entry points (get_vxc, get_vxc_nldf, get_vxc_full_response,
                    get_vxc_nldf_full_response x RKS/UKS) every path from the entry to each eval_xc_cider
                    call goes through an `if <SDMX present>: raise NotImplementedError` guard and an
                    `if <NLOF present>: raise NotImplementedError` guard (across the local generator);
                    the RKS and UKS siblings are compared
 dispatch-total     _CiderKS.nuc_grad_method returns a Gradients object or raises on every path; the classes
                    it returns exist and bind get_veff; _CiderDF / Gradients aliases point at it
 grad-half          the weighted potential passed to _gga_grad_sum_ / _tau_grad_dot_ has its density row
                    (and tau row) halved exactly once on the way
 grad-arglist-slots lcao_interpolation.py: a ctypes argument list whose slots a loop re-points with loop-dependent values
                    is not passed to a call after that loop (it would carry the last iteration's tables)
 grad-xyz-slots     conv_interpolation.c (clang AST): in every routine the members of a declared x / y / z triple (ix,
                    iy, iz; dx, dy, dz; ...) are all used, integer slot indices equally often, and a 3-element
                    component table lists three distinct members
 grad-spin-mirror   uks_grad.py: every statement that addresses exactly one spin channel through a literal spin slot
                    (dms[1], vmat[0], wv[1, 4], spin=1 ...) occurs as often as its mirror image under the exchange
                    of the spin-tagged locals (…a <-> …b, alpha <-> beta) and of the slot 0 <-> 1
 grad-batch-index   batch-index discipline (C09 rule 1) on the 8 gradient functions
"""
import ast
import os
import sys

sys.path.insert(0, os.path.dirname(os.path.dirname(os.path.abspath(__file__))))
from sa import core, pyfacts as pf, cfg as cfgm, batch, ksrules as ks  # noqa: E402
from sa import unroll  # noqa: E402
from sa.selftest import Mutant  # noqa: E402

PROP = "C17"
RKSG = "ciderpress/pyscf/rks_grad.py"
UKSG = "ciderpress/pyscf/uks_grad.py"
DFT = "ciderpress/pyscf/dft.py"
GRADS = ["get_vxc", "get_vxc_nldf", "get_vxc_full_response", "get_vxc_nldf_full_response"]
UNSUPPORTED = ["sdmx", "nlof"]


def rule_unsupported(chk):
    have = {}
    fns = {}
    for name in GRADS:
        for rel in (RKSG, UKSG):
            fn = fns[(rel, name)] = ks.locate(chk.tree, rel, name)[1]
            calls = ks.calls_named(fn, "eval_xc_cider")
            if not calls:
                raise core.AnalysisError("%s:%s no longer calls eval_xc_cider" % (rel, name))
            chk.count("eval_xc_cider call sites in gradient functions", len(calls))
            for fam in UNSUPPORTED:
                bad = None
                for c in calls:
                    ok, wit = ks.guard_passes(fn, c, fam)
                    if not ok:
                        bad = (c, wit)
                        break
                have[(name, rel, fam)] = bad is None
        for fam in UNSUPPORTED:
            for rel, sib in ((RKSG, UKSG), (UKSG, RKSG)):
                inst = "%s:%s raises for %s before eval_xc_cider" % (rel, name, fam.upper())
                if have[(name, rel, fam)]:
                    chk.ok("unsupported-raise", inst)
                else:
                    fn = fns[(rel, name)]
                    chk.violation(
                        "unsupported-raise", rel, name, "%s guard before eval_xc_cider" % fam.upper(), fn.lineno,
                        "a path from the entry of %s to its eval_xc_cider call passes no `if <%s features present>: "
                        "raise NotImplementedError` guard, so a model with %s features gets numbers (without the %s "
                        "contribution to the force) instead of NotImplementedError; the %s sibling %s such a guard" % (
                            name, fam.upper(), fam.upper(), fam.upper(), "UKS" if sib == UKSG else "RKS",
                            "has" if have[(name, sib, fam)] else "also lacks"), instance=inst)


def rule_dispatch(chk):
    mod = pf.Module(chk.tree, DFT)
    fn = ks.locate(chk.tree, DFT, "_CiderKS.nuc_grad_method")[1]
    g = cfgm.CFG(fn)
    fq = "_CiderKS.nuc_grad_method"
    falls = [p for p in g.pred[g.exit.id] if not isinstance(g.nodes[p].ast, ast.Return)]
    inst = "%s:%s every path returns or raises" % (DFT, fq)
    if falls:
        n = g.nodes[falls[0]]
        chk.violation("dispatch-total", DFT, fq, "fall-through after %s" % batch.head_text(n.ast)[:60],
                      getattr(n.ast, "lineno", fn.lineno),
                      "a path falls off the end of nuc_grad_method (returns None) when the object is neither an RKS "
                      "nor a UKS instance: `ks.nuc_grad_method().kernel()` then fails with AttributeError on None "
                      "instead of NotImplementedError", instance=inst)
    else:
        chk.ok("dispatch-total", inst)
    rets = [n.ast for n in g.nodes if n.kind == "stmt" and isinstance(n.ast, ast.Return)]
    if not rets:
        raise core.AnalysisError("%s: no return statement" % fq)
    # import aliases of the gradient modules (function-local or module-level)
    imported = {}
    for n in list(pf.walk_no_nested(fn)) + list(mod.ast.body):
        if isinstance(n, ast.ImportFrom) and n.module == "ciderpress.pyscf":
            for a in n.names:
                imported[a.asname or a.name] = "ciderpress/pyscf/%s.py" % a.name
    for r in rets:
        inst = "%s:%s %s" % (DFT, fq, pf.src(r))
        v = r.value
        if v is None or (isinstance(v, ast.Constant) and v.value is None):
            chk.violation("dispatch-total", DFT, fq, pf.src(r), r.lineno, "returns None instead of a Gradients object",
                          instance=inst)
            continue
        if not (isinstance(v, ast.Call) and isinstance(v.func, ast.Attribute) and isinstance(v.func.value, ast.Name)
                and v.func.value.id in imported):
            # e.g. a class picked from a table or by a conditional expression: totality is still decided above,
            # the flavour of this return is not
            chk.ok("dispatch-total", inst + " (flavour not decided)", nontrivial=False)
            chk.note("dispatch-total", "%s:%s" % (DFT, fq), "return `%s` is not of the form <grad module>.<Class>(self); "
                     "its DF / spin flavour is not checked" % pf.src(v)[:80])
            continue
        rel = imported[v.func.value.id]
        gm = pf.Module(chk.tree, rel)
        cls = gm.classes.get(v.func.attr)
        # the right flavour for the branch: DF classes under has_df, RKS module under isinstance(.., RKS)
        conds = [(pf.src(t), p) for t, p, _k in cfgm.conditions_at(r)]
        want_df = ("has_df", True) in conds
        flav = "rks" if any("dft.rks.RKS" in t and p for t, p in conds) else (
            "uks" if any("dft.uks.UKS" in t and p for t, p in conds) else None)
        problems = []
        if cls is None:
            problems.append("class %s does not exist in %s" % (v.func.attr, rel))
        else:
            if not any(isinstance(st, ast.Assign) and pf.src(st.targets[0]) == "get_veff" and pf.src(st.value) == "get_veff"
                       for st in cls.body):
                problems.append("%s.%s does not bind the CIDER get_veff" % (rel, v.func.attr))
            if want_df != v.func.attr.startswith("DF"):
                problems.append("density-fitting flavour mismatch (has_df=%s, class %s)" % (want_df, v.func.attr))
        if flav is None or not rel.endswith("%s_grad.py" % flav):
            problems.append("spin flavour mismatch (branch %s, module %s)" % (flav, rel))
        if problems:
            chk.violation("dispatch-total", DFT, fq, pf.src(r), r.lineno, "; ".join(problems), instance=inst)
        else:
            chk.ok("dispatch-total", inst)
    # aliases
    ks_cls = mod.cls("_CiderKS")
    ok_alias = any(isinstance(st, ast.Assign) and pf.src(st.targets[0]) == "Gradients"
                   and pf.src(st.value) == "nuc_grad_method" for st in ks_cls.body)
    df_cls = mod.cls("_CiderDF")
    ok_df = any(isinstance(st, ast.Assign) and pf.src(st.targets[0]) == "nuc_grad_method"
                and pf.src(st.value) == "_CiderKS.nuc_grad_method" for st in df_cls.body)
    for ok, what in ((ok_alias, "_CiderKS.Gradients = nuc_grad_method"),
                     (ok_df, "_CiderDF.nuc_grad_method = _CiderKS.nuc_grad_method")):
        if ok:
            chk.ok("dispatch-total", "%s:%s" % (DFT, what), nontrivial=False)
        else:
            chk.violation("dispatch-total", DFT, "_CiderKS", what, ks_cls.lineno,
                          "the alias `%s` is gone: PySCF's own (non-CIDER) gradient class would be used" % what)


def _module_resolver(tree, rel):
    """resolve calls of private module-level functions (also imported from another repo module)"""
    def resolve(call):
        f = call.func
        if isinstance(f, ast.Name) and f.id.startswith("_"):
            try:
                return ks.locate(tree, rel, f.id)[1], list(call.args)
            except core.AnalysisError:
                return None
        return None
    return resolve


def _raises_nie(stmts):
    return any(isinstance(x, ast.Raise) and x.exc is not None and "NotImplementedError" in pf.src(x.exc)
               for st in stmts for x in ast.walk(st))


def rule_response_guards(chk):
    """get_vxc_nldf_full_response (RKS and UKS) refuses what it cannot differentiate: (i) interpolators without a per-atom
    grid layout -- every read of `.grid_loc_atom` comes after an unconditional `if not hasattr(<obj>, "grid_loc_atom"):
    raise NotImplementedError`; (ii) response weights that are not the weights of the energy grid (ghost atoms) -- in
    the loop over grids_response_cc, a guard that compares the loop's weights with grids_indexer.all_weights and raises
    NotImplementedError comes before the first use of the weight derivatives."""
    from sa import hinline
    name = "get_vxc_nldf_full_response"
    for rel in (RKSG, UKSG):
        fn0 = ks.locate(chk.tree, rel, name)[1]
        fn = hinline.inline_helpers(fn0, _module_resolver(chk.tree, rel), 2)
        # (i)
        reads = [x for x in pf.walk_no_nested(fn) if isinstance(x, ast.Attribute) and x.attr == "grid_loc_atom"
                 and isinstance(x.ctx, ast.Load)]
        inst = "%s:%s refuses interpolators without grid_loc_atom before reading it" % (rel, name)
        if not reads:
            chk.ok("unsupported-raise", inst + " (not read: not decided)", nontrivial=False)
        else:
            first = min(reads, key=lambda x: x.lineno)
            guard = None
            for st in fn.body:
                if st.lineno >= first.lineno and any(x is first for x in ast.walk(st)):
                    break
                if isinstance(st, ast.If) and "grid_loc_atom" in pf.src(st.test) and (
                        "hasattr(" in pf.src(st.test) or "getattr(" in pf.src(st.test)):
                    if _raises_nie(st.body) or _raises_nie(st.orelse):
                        guard = st
            if guard is not None:
                chk.ok("unsupported-raise", inst)
            else:
                chk.violation("unsupported-raise", rel, name, "grid_loc_atom guard before %s" % pf.src(first), first.lineno,
                              "`%s` is read without a preceding `if not hasattr(<interpolator>, \"grid_loc_atom\"): raise "
                              "NotImplementedError`: an interpolator without a per-atom grid layout (interpolator_type="
                              "\"train_gen\") fails with AttributeError / gives no defined force instead of "
                              "NotImplementedError" % pf.src(first), instance=inst)
        # (ii)
        loops = [x for x in pf.walk_no_nested(fn) if isinstance(x, ast.For) and "grids_response_cc" in pf.src(x.iter)]
        if not loops:
            raise core.AnalysisError("%s:%s has no loop over grids_response_cc" % (rel, name))
        for lp in loops:
            inst = "%s:%s response weights are checked against the energy grid before they are used" % (rel, name)
            tnames = [x.id for x in ast.walk(lp.target) if isinstance(x, ast.Name)]
            if len(tnames) < 3:
                raise core.AnalysisError("%s:%s loop target %s is not (.., weight, weight1)" % (rel, name, pf.src(lp.target)))
            w, w1 = tnames[-2], tnames[-1]
            defs = {}
            guard_at = None
            use_at = None
            for i, st in enumerate(lp.body):
                if guard_at is None and isinstance(st, ast.If) and (_raises_nie(st.body) or _raises_nie(st.orelse)):
                    names, text, todo = set(), pf.src(st.test), list(ks._names(st.test))
                    while todo:
                        nm = todo.pop()
                        if nm in names:
                            continue
                        names.add(nm)
                        for v in defs.get(nm, ()):
                            text += " " + pf.src(v)
                            todo.extend(ks._names(v))
                    if w in names and "all_weights" in text:
                        guard_at = i
                if use_at is None and w1 in {x.id for x in ast.walk(st) if isinstance(x, ast.Name) and isinstance(x.ctx, ast.Load)}:
                    use_at = i
                if isinstance(st, ast.Assign) and len(st.targets) == 1 and isinstance(st.targets[0], ast.Name):
                    defs.setdefault(st.targets[0].id, []).append(st.value)
            if guard_at is not None and (use_at is None or guard_at < use_at):
                chk.ok("unsupported-raise", inst)
            else:
                chk.violation("unsupported-raise", rel, name, "response-weight guard in loop over grids_response_cc", lp.lineno,
                              "the loop over grids_response_cc uses the weight derivatives `%s` %s a guard that compares "
                              "`%s` with grids.grids_indexer.all_weights and raises NotImplementedError: with ghost atoms "
                              "PySCF's response weights belong to another partition than the energy grid and the force "
                              "is silently wrong" % (w1, "before" if guard_at is not None else "without", w), instance=inst)


def _root_name(e):
    while isinstance(e, (ast.Subscript, ast.Attribute)):
        e = e.value
    return e.id if isinstance(e, ast.Name) else None


def rule_response_scratch(chk):
    """In the full-response drivers the force on atom A is `einsum(vtmp, dm)`, with vtmp the per-atom scratch that is then
    added to vmat: every term of vmat must go through the scratch.  Inside the loop over grids_response_cc the returned
    matrix may only appear as `vmat[(k)] += <scratch>`, and every scratch added to it also feeds `excsum[...] +=`."""
    n = 0
    for rel in (RKSG, UKSG):
        for name in ("get_vxc_full_response", "get_vxc_nldf_full_response"):
            fn = ks.locate(chk.tree, rel, name)[1]
            loops = [x for x in pf.walk_no_nested(fn) if isinstance(x, ast.For) and "grids_response_cc" in pf.src(x.iter)]
            rets = [x for x in pf.walk_no_nested(fn) if isinstance(x, ast.Return) and isinstance(x.value, ast.Tuple)
                    and len(x.value.elts) == 2]
            if not loops or not rets:
                raise core.AnalysisError("%s:%s: loop over grids_response_cc / `return excsum, -vmat` not found" % (rel, name))
            mats = {nm for r in rets for nm in ks._names(r.value.elts[1])}
            accs = {nm for r in rets for nm in ks._names(r.value.elts[0])}
            for lp in loops:
                for M in sorted(mats):
                    inst = "%s:%s %s only receives the per-atom scratch inside the response loop" % (rel, name, M)
                    bad, scratch, undecided = None, {}, None
                    for x in ast.walk(lp):
                        if not (isinstance(x, ast.Name) and x.id == M):
                            continue
                        st = x
                        while not isinstance(st, ast.stmt):
                            st = pf.parent(st)
                        tgt = st.target if isinstance(st, ast.AugAssign) else None
                        if tgt is not None and isinstance(st.op, ast.Add) and _root_name(tgt) == M \
                                and isinstance(st.value, ast.Name) and any(y is x for y in ast.walk(tgt)):
                            scratch[st.value.id] = st
                        elif isinstance(st, ast.Expr) and isinstance(st.value, ast.Call) and \
                                any(any(y is x for y in ast.walk(a_)) for a_ in st.value.args):
                            bad = bad or st
                        elif isinstance(st, (ast.AugAssign, ast.Assign)) and any(
                                y is x for t in ([st.target] if isinstance(st, ast.AugAssign) else st.targets) for y in ast.walk(t)):
                            bad = bad or st
                        else:
                            undecided = undecided or st
                    if bad is not None:
                        chk.violation("grad-response-scratch", rel, name, "%s written by %s" % (M, batch.head_text(bad)[:60]),
                                      bad.lineno,
                                      "inside the per-atom loop `%s` adds a term straight into %s instead of into the per-atom "
                                      "scratch (%s): the term is missing from `%s[atm_id] += einsum(scratch, dm)`, i.e. from the "
                                      "force on the atom that owns the grid block (the sibling terms and the other full-response "
                                      "drivers all go through the scratch)" % (
                                          pf.src(bad)[:80], M, ", ".join(sorted(scratch)) or "vtmp", sorted(accs)[0] if accs else "excsum"),
                                      instance=inst)
                        n += 1
                        continue
                    if undecided is not None or not scratch:
                        raise core.AnalysisError("%s:%s: use of %s in `%s` is not a form the analysis reads" % (
                            rel, name, M, pf.src(undecided)[:70] if undecided is not None else "<none>"))
                    missing = [sname for sname in scratch if not any(
                        isinstance(y, ast.AugAssign) and _root_name(y.target) in accs and sname in ks._names(y.value)
                        for y in ast.walk(lp))]
                    n += 1
                    if missing:
                        st = scratch[missing[0]]
                        chk.violation("grad-response-scratch", rel, name, "%s not contracted into the force" % missing[0], st.lineno,
                                      "`%s` adds %s to the matrix, but no `%s[...] += ...%s...` contracts it with the density "
                                      "matrix in the same loop" % (pf.src(st), missing[0], sorted(accs)[0] if accs else "excsum",
                                                                   missing[0]), instance=inst)
                    else:
                        chk.ok("grad-response-scratch", inst)
    if n == 0:
        raise core.AnalysisError("grad-response-scratch: nothing matched")


def _veff_signature(tree, rel):
    """get_veff of one driver module: for grid_response on / off, which of the two returned quantities (the matrix =
    first argument of lib.tag_array, the grid-response energy term = its exc1_grid keyword) receive a `+=` under
    `mf.do_nlc()`.  Helpers (private module functions) are inlined; `g = ks_grad.grid_response` aliases are resolved."""
    from sa import hinline
    fn0 = ks.locate(tree, rel, "get_veff")[1]
    fn = hinline.inline_helpers(fn0, _module_resolver(tree, rel), 2)
    alias = {}
    for st in pf.walk_no_nested(fn):
        if isinstance(st, ast.Assign) and len(st.targets) == 1 and isinstance(st.targets[0], ast.Name):
            alias.setdefault(st.targets[0].id, []).append(st.value)

    def res(e):
        if isinstance(e, ast.Name) and len(alias.get(e.id, ())) == 1 and not isinstance(alias[e.id][0], ast.Call):
            return alias[e.id][0]
        return e

    def ev(t, gr):
        t = res(t)
        if isinstance(t, ast.UnaryOp) and isinstance(t.op, ast.Not):
            v = ev(t.operand, gr)
            return None if v is None else (not v)
        if isinstance(t, ast.BoolOp):
            vs = [ev(v, gr) for v in t.values]
            if isinstance(t.op, ast.And):
                return False if False in vs else (True if all(v is True for v in vs) else None)
            return True if True in vs else (False if all(v is False for v in vs) else None)
        if isinstance(t, (ast.Attribute, ast.Name)) and pf.src(t).split(".")[-1] == "grid_response":
            return gr
        return None

    def under_nlc(t, pol):
        t = res(t)
        if isinstance(t, ast.UnaryOp) and isinstance(t.op, ast.Not):
            return under_nlc(t.operand, not pol)
        if isinstance(t, ast.BoolOp) and isinstance(t.op, ast.And) and pol:
            return any(under_nlc(v, True) for v in t.values)
        return pol and isinstance(t, ast.Call) and pf.call_name(t).split(".")[-1] == "do_nlc"

    roles = {}
    for c in pf.walk_no_nested(fn):
        if isinstance(c, ast.Call) and pf.call_name(c).split(".")[-1] == "tag_array" and c.args:
            if isinstance(c.args[0], ast.Name):
                roles[c.args[0].id] = "matrix"
            for kw in c.keywords:
                if kw.arg == "exc1_grid" and isinstance(kw.value, ast.Name):
                    roles[kw.value.id] = "energy"
    if set(roles.values()) != {"matrix", "energy"}:
        raise core.AnalysisError("%s:get_veff: `lib.tag_array(<matrix>, exc1_grid=<energy>)` not found" % rel)
    if not any("grid_response" in pf.src(x) for x in pf.walk_no_nested(fn) if isinstance(x, ast.Attribute)):
        raise core.AnalysisError("%s:get_veff no longer reads grid_response" % rel)
    sig = {}
    n_acc = 0
    for st in pf.walk_no_nested(fn):
        if not (isinstance(st, ast.AugAssign) and isinstance(st.op, ast.Add) and _root_name(st.target) in roles):
            continue
        conds = [(t, p) for t, p, _k in cfgm.conditions_at(st)]
        if not any(under_nlc(t, p) for t, p in conds):
            continue
        n_acc += 1
        for gr in (True, False):
            if all(ev(t, gr) in (None, p) for t, p in conds):
                sig.setdefault((gr, roles[_root_name(st.target)]), st)
    if n_acc == 0:
        raise core.AnalysisError("%s:get_veff: no `<matrix or energy> += <nlc term>` under `if mf.do_nlc():` was recognised" % rel)
    return fn0, sig


def rule_veff_sibling(chk):
    """The RKS and UKS get_veff drivers add the same VV10 (nlc) terms to the same returned quantities in the same
    grid_response case: the nlc matrix into the returned matrix, and -- with grid response -- the nlc weight/coordinate
    response into the exc1_grid term.  The VV10 part is spin-summed, so the two drivers cannot legitimately differ."""
    sigs = {rel: _veff_signature(chk.tree, rel) for rel in (RKSG, UKSG)}
    for gr in (True, False):
        for role in ("matrix", "energy"):
            have = {rel: sigs[rel][1].get((gr, role)) for rel in (RKSG, UKSG)}
            inst = "get_veff RKS/UKS agree on adding the nlc term to the returned %s when grid_response is %s" % (role, gr)
            if (have[RKSG] is None) == (have[UKSG] is None):
                chk.ok("grad-veff-sibling", inst, nontrivial=have[RKSG] is not None)
                continue
            lack, has = (RKSG, UKSG) if have[RKSG] is None else (UKSG, RKSG)
            chk.violation("grad-veff-sibling", lack, "get_veff", "nlc term added to the %s with grid_response=%s" % (role, gr),
                          sigs[lack][0].lineno,
                          "with grid_response=%s and mf.do_nlc() true, %s:get_veff adds the nlc (VV10) term to the returned %s "
                          "(`%s`) but %s:get_veff has no such accumulation on that path: the %s driver drops the VV10 %s, so its "
                          "force is not the derivative of the energy / does not sum to zero over atoms" % (
                              gr, has, "matrix" if role == "matrix" else "grid-response energy term (exc1_grid)",
                              pf.src(have[has]), lack, "RKS" if lack == RKSG else "UKS",
                              "matrix contribution" if role == "matrix" else "weight/coordinate response"), instance=inst)


def rule_half(chk):
    ks.half_rule(chk, "grad-half", chk.tree, [(RKSG, n) for n in GRADS] + [(UKSG, n) for n in GRADS])


# ----------------------------------------------------------------------------
def _pyscf_dft_hierarchy():
    """class name -> set of ancestor names, from the *source* of the installed pyscf.dft package (ast only; pyscf is
    never imported)"""
    import glob
    cands = glob.glob("/venv/lib/python*/site-packages/pyscf/dft") + [
        os.path.join(p_, "pyscf", "dft") for p_ in sys.path if p_ and os.path.isdir(os.path.join(p_, "pyscf", "dft"))]
    if not cands:
        raise core.AnalysisError("the installed pyscf source (pyscf/dft/*.py) was not found: the class hierarchy of the "
                                 "Kohn-Sham classes cannot be read")
    bases = {}
    for fpath in sorted(glob.glob(os.path.join(cands[0], "*.py"))):
        try:
            with open(fpath, encoding="utf-8") as fh:
                mod = ast.parse(fh.read())
        except (OSError, SyntaxError):
            continue
        for n in mod.body:
            if isinstance(n, ast.ClassDef):
                bases.setdefault(n.name, set()).update(pf.src(b).split(".")[-1] for b in n.bases)
    anc = {}

    def ancestors(c, seen=()):
        if c in anc:
            return anc[c]
        out = set()
        for b in bases.get(c, ()):
            if b not in seen:
                out.add(b)
                out |= ancestors(b, seen + (c,))
        anc[c] = out
        return out
    return {c: ancestors(c) for c in bases}


def rule_dispatch_classes(chk):
    """each isinstance test of the dispatch accepts only classes the gradient module of its branch is written for:
    <flavour>_grad serves <FLAVOUR> and its subclasses (pyscf hierarchy read from source); a base class shared with
    unsupported flavours (KohnShamDFT, SCF, object) makes the final raise unreachable for them"""
    fn = ks.locate(chk.tree, DFT, "_CiderKS.nuc_grad_method")[1]
    fq = "_CiderKS.nuc_grad_method"
    hier = _pyscf_dft_hierarchy()
    n = 0
    for st in pf.walk_no_nested(fn):
        if not isinstance(st, ast.If):
            continue
        tests = [c for c in ast.walk(st.test) if isinstance(c, ast.Call) and pf.call_name(c) == "isinstance" and len(c.args) == 2]
        if not tests:
            continue
        flav = set()
        for b in st.body:
            for x in ast.walk(b):
                names = []
                if isinstance(x, ast.ImportFrom):
                    names = [a.name for a in x.names]
                elif isinstance(x, ast.Name):
                    names = [x.id]
                for nm in names:
                    if nm.endswith("_grad") and len(nm) > 5:
                        flav.add(nm[:-5])
        if len(flav) != 1:
            continue  # not a branch that picks one gradient module
        want = sorted(flav)[0].upper()
        for t in tests:
            cl = t.args[1].elts if isinstance(t.args[1], ast.Tuple) else [t.args[1]]
            for c in cl:
                cname = pf.src(c).split(".")[-1]
                n += 1
                inst = "%s:%s branch %s_grad accepts %s" % (DFT, fq, want.lower(), cname)
                if cname not in hier:
                    chk.ok("dispatch-total", inst + " (class not found in pyscf/dft: not decided)", nontrivial=False)
                    chk.note("dispatch-total", "%s:%s" % (DFT, fq), "class %s is not defined in pyscf/dft/*.py" % pf.src(c))
                elif cname == want or want in hier[cname]:
                    chk.ok("dispatch-total", inst)
                else:
                    others = sorted(k for k, a in hier.items() if cname in a and k != want and want not in a
                                    and "KohnShamDFT" in a)[:6]
                    chk.violation("dispatch-total", DFT, fq, "isinstance(self, %s) -> %s_grad" % (pf.src(c), want.lower()),
                                  t.lineno,
                                  "the branch that returns the %s gradient classes accepts `%s`, which is not %s or a subclass "
                                  "of it in pyscf's class hierarchy; %s is a base class of %s, so those objects get %s "
                                  "gradients and the final `raise NotImplementedError` is unreachable for them" % (
                                      want, pf.src(c), want, cname, ", ".join(others) or "other Kohn-Sham classes", want),
                                  instance=inst)
    if n == 0:
        chk.ok("dispatch-total", "%s:%s dispatch does not use isinstance branches per gradient module (not decided)" % (DFT, fq),
               nontrivial=False)


LCAO_INTERP = "ciderpress/dft/lcao_interpolation.py"


def rule_arglist_slots(chk):
    """A ctypes argument list `args = [...]` whose slots a loop re-points (`args[k] = f(loop variable)`) must not be
    passed to a call after that loop without the slots being set again: the call would use the tables of the last
    iteration (the value routine's sibling calls come before the loop)."""
    mod = chk.tree.py(LCAO_INTERP)
    n_lists = 0
    for fn in ast.walk(mod):
        if not isinstance(fn, ast.FunctionDef):
            continue
        lists = {n.targets[0].id for n in pf.walk_no_nested(fn) if isinstance(n, ast.Assign) and len(n.targets) == 1
                 and isinstance(n.targets[0], ast.Name) and isinstance(n.value, ast.List)}
        used = {c.args[i].value.id for c in pf.walk_no_nested(fn) if isinstance(c, ast.Call)
                for i in range(len(c.args)) if isinstance(c.args[i], ast.Starred) and isinstance(c.args[i].value, ast.Name)}
        lists &= used
        for L in sorted(lists):
            n_lists += 1
            bad = None
            for lp in pf.walk_no_nested(fn):
                if not isinstance(lp, (ast.For, ast.While)):
                    continue
                lvars = {x.id for x in ast.walk(lp.target) if isinstance(x, ast.Name)} if isinstance(lp, ast.For) else set()
                changed = True
                while changed:  # names computed from the loop variable inside the loop
                    changed = False
                    for a_ in ast.walk(lp):
                        if isinstance(a_, ast.Assign) and len(a_.targets) == 1 and isinstance(a_.targets[0], ast.Name) \
                                and a_.targets[0].id not in lvars and ks._names(a_.value) & lvars:
                            lvars.add(a_.targets[0].id)
                            changed = True
                slots = {}
                for a_ in ast.walk(lp):
                    if isinstance(a_, ast.Assign) and len(a_.targets) == 1 and isinstance(a_.targets[0], ast.Subscript) \
                            and isinstance(a_.targets[0].value, ast.Name) and a_.targets[0].value.id == L \
                            and ks._names(a_.value) & lvars:
                        slots[pf.src(a_.targets[0].slice)] = a_
                if not slots:
                    continue
                par = pf.parent(lp)
                blk = next((b for b in (getattr(par, "body", None), getattr(par, "orelse", None), getattr(par, "finalbody", None))
                            if isinstance(b, list) and any(x is lp for x in b)), None)
                if blk is None:
                    continue
                after = blk[[i for i, x in enumerate(blk) if x is lp][0] + 1:]
                reset = set()
                for st in after:
                    for x in ast.walk(st):
                        if isinstance(x, ast.Assign) and len(x.targets) == 1:
                            t = x.targets[0]
                            if isinstance(t, ast.Name) and t.id == L:
                                reset |= set(slots)
                            if isinstance(t, ast.Subscript) and isinstance(t.value, ast.Name) and t.value.id == L:
                                reset.add(pf.src(t.slice))
                        if isinstance(x, ast.Call) and any(isinstance(a_, ast.Starred) and isinstance(a_.value, ast.Name)
                                                          and a_.value.id == L for a_ in x.args):
                            stale = sorted(set(slots) - reset)
                            if stale and bad is None:
                                bad = (x, lp, stale, slots)
            inst = "%s:%s argument list %s is not used after a loop that re-points its slots" % (LCAO_INTERP, pf.qualname(fn), L)
            if bad is None:
                chk.ok("grad-arglist-slots", inst)
            else:
                call, lp, stale, slots = bad
                chk.violation("grad-arglist-slots", LCAO_INTERP, pf.qualname(fn), "%s after the loop over %s" % (
                    pf.src(call)[:60], pf.src(lp.target) if isinstance(lp, ast.For) else "while"), call.lineno,
                    "`%s` is evaluated after the loop `%s`, which re-points %s[%s] per iteration (e.g. `%s`): the call uses "
                    "the tables left by the LAST iteration instead of the ones the list was built with" % (
                        pf.src(call)[:60], batch.head_text(lp)[:60], L, "], %s[" % L if False else ", ".join(stale),
                        pf.src(slots[stale[0]])[:80]), instance=inst)
    chk.count("ctypes argument lists passed with *args in lcao_interpolation.py", n_lists)


CONV_C = "mod_cider/conv_interpolation.c"


def _xyz_triples(names):
    """(nx, ny, nz): declared names that differ only by one x / y / z letter at the same position"""
    names = set(names)
    out = []
    for n in sorted(names):
        for i, ch in enumerate(n):
            if ch == "x":
                y, z = n[:i] + "y" + n[i + 1:], n[:i] + "z" + n[i + 1:]
                if y in names and z in names:
                    out.append((n, y, z))
    return out


def rule_xyz_slots(chk):
    """C routines of conv_interpolation.c (the l=1 / gradient terms): the Cartesian component slots come in
    x / y / z triples (ix, iy, iz; dx, dy, dz; auxox_l, ...).  Every member of a declared triple is used; integer
    slot indices are used equally often; a 3-element component table lists three distinct members."""
    from sa import cfacts
    tu = cfacts.TU(chk.tree, CONV_C)
    rel = cfacts.LIB + "/" + CONV_C
    n_tr = 0
    for fname, f in sorted(tu.funcs.items()):
        decls = {}
        for n in cfacts.walk(f):
            if n.get("kind") in ("ParmVarDecl", "VarDecl") and n.get("name"):
                decls[n["name"]] = (n.get("type") or {}).get("qualType", "")
        refs = {}
        tables = []
        for n in cfacts.walk(f):
            if n.get("kind") == "DeclRefExpr":
                nm = (n.get("referencedDecl") or {}).get("name")
                refs[nm] = refs.get(nm, 0) + 1
            if n.get("kind") == "InitListExpr":
                el = [(cfacts.strip(k).get("referencedDecl") or {}).get("name") for k in cfacts.kids(n)
                      if k.get("kind") != "ImplicitValueInitExpr"]
                tables.append((el, n))
        triples = _xyz_triples(decls)
        members = {m: t for t in triples for m in t}
        for t in triples:
            n_tr += 1
            cnt = [refs.get(x, 0) for x in t]
            inst = "%s:%s component triple %s used %s" % (rel, fname, "/".join(t), cnt)
            is_int = all(decls[x].replace("const ", "").strip() in ("int", "size_t", "long", "unsigned int") for x in t)
            if min(cnt) == 0 and max(cnt) > 0:
                miss = [x for x, c in zip(t, cnt) if c == 0]
                chk.violation("grad-xyz-slots", rel, fname, "component triple %s" % "/".join(t), tu.line_of(f),
                              "the Cartesian component slot(s) %s of the triple (%s) are never used in %s while the "
                              "others are (%s): one component is computed from another component's slot" % (
                                  ", ".join(miss), ", ".join(t), fname, dict(zip(t, cnt))), instance=inst)
            elif is_int and len(set(cnt)) != 1:
                chk.violation("grad-xyz-slots", rel, fname, "component triple %s" % "/".join(t), tu.line_of(f),
                              "the integer component slots (%s) are used %s times: the x / y / z blocks of %s are "
                              "not treated alike" % (", ".join(t), dict(zip(t, cnt)), fname), instance=inst)
            else:
                chk.ok("grad-xyz-slots", inst)
        for el, node in tables:
            if len(el) == 3 and all(e in members for e in el):
                inst = "%s:%s component table {%s}" % (rel, fname, ", ".join(el))
                t = members[el[0]]
                if sorted(el) != sorted(t):
                    chk.violation("grad-xyz-slots", rel, fname, "table {%s}" % ", ".join(el), tu.line_of(node),
                                  "the component table {%s} does not list the three distinct slots (%s): a component is "
                                  "duplicated and another is missing" % (", ".join(el), ", ".join(t)), instance=inst)
                else:
                    chk.ok("grad-xyz-slots", inst)
    chk.count("x/y/z component triples in conv_interpolation.c", n_tr)


def rule_spin_mirror(chk):
    ks.spin_mirror_rule(chk, "grad-spin-mirror", chk.tree, UKSG, GRADS + ["get_veff"])


def rule_batch(chk):
    for rel in (RKSG, UKSG):
        for name in GRADS:
            rel2, fn = ks.locate(chk.tree, rel, name)
            bf = batch.BatchFunction(fn, rel2)
            batch.report(chk, "grad-batch-index", bf)


def _analyse_own(chk):
    # spin loops (`for s in range(2)`, comprehensions over the two spins) are analysed as their two iterations
    orig_tree = chk.tree
    chk.tree = unroll.view(orig_tree)
    try:
        _analyse_rules(chk)
    finally:
        chk.tree = orig_tree


def _analyse_rules(chk):
    chk.rule("unsupported-raise", "SDMX / NLOF models raise NotImplementedError before any eval_xc_cider call")
    chk.rule("dispatch-total", "nuc_grad_method returns a matching Gradients class or raises on every path")
    chk.rule("grad-half", "density / tau rows of the weighted potential halved exactly once before the contraction")
    chk.rule("grad-response-scratch", "full-response drivers add every vmat term through the per-atom scratch that feeds excsum")
    chk.rule("grad-arglist-slots", "a *args list is not used after a loop that re-points its slots per iteration")
    chk.rule("grad-xyz-slots", "conv_interpolation.c: every member of an x/y/z slot triple is used (index slots equally often); tables list 3 distinct slots")
    chk.rule("grad-spin-mirror", "uks_grad: a statement addressing one literal spin slot has its alpha<->beta mirror image")
    chk.rule("grad-batch-index", "batch-index discipline on the gradient functions")
    chk.guard(rule_unsupported)
    chk.guard(rule_dispatch)
    chk.guard(rule_half)
    chk.guard(rule_batch)
    chk.guard(rule_spin_mirror)
    chk.guard(rule_xyz_slots)
    chk.guard(rule_dispatch_classes)
    chk.guard(rule_response_guards)
    chk.guard(rule_response_scratch)
    chk.rule("grad-veff-sibling", "RKS and UKS get_veff add the same nlc (VV10) terms to the matrix / exc1_grid term per grid_response case")
    chk.guard(rule_veff_sibling)
    chk.floor("grad-veff-sibling", 2, "nlc matrix term (both cases) + nlc grid-response energy term, compared between the two drivers")
    chk.floor("grad-response-scratch", 2, "4 full-response drivers")
    chk.guard(rule_arglist_slots)
    chk.floor("grad-arglist-slots", 1, "ctypes argument lists of the interpolator")
    chk.floor("grad-xyz-slots", 8, "x/y/z component triples of the l=1 / gradient routines")
    chk.floor("grad-spin-mirror", 6, "statements addressing one spin slot in the four UKS gradient functions")
    chk.floor("unsupported-raise", 8, "8 entry points x {SDMX, NLOF}")
    chk.floor("dispatch-total", 3, "1 totality + 4 returns + aliases")
    chk.floor("grad-half", 12, "gga/tau contraction sites of the 8 functions")
    chk.floor("grad-batch-index", 16, "batch-axis indexes in the 8 functions")
    chk.assumptions += ["feature presence is tested with the idioms X.has_<family> / [not] X.<family>_settings.is_empty",
                        "loops around a guard or a halving run at least once"]
    chk.not_decided += ["equality of the forces with finite differences of the energy", "the translational sum rule",
                        "correctness of grad_mode in the generator/interpolator and of the C gradient kernels"]


def analyse(chk):
    _analyse_own(chk)
    chk.guard(lambda c_: core.include_findings(c_, 'C09', files=['ciderpress/dft/lcao_nldf_generator.py', 'ciderpress/dft/lcao_interpolation.py', 'ciderpress/dft/plans.py', 'ciderpress/pyscf/dft.py', 'ciderpress/pyscf/numint.py'], rules=['cache-alias', 'reinit'],
                                               why='the grid-response term is computed from per-spin cached convolutions; a cache entry aliasing a reusable buffer gives wrong UKS forces; stale generators after a geometry change give wrong forces at displaced geometries'))
    chk.guard(lambda c_: core.include_findings(c_, 'C10', files=['ciderpress/lib/mod_cider/conv_interpolation.c'], rules=None,
                                               why='a data race in the gradient-term kernels makes forces schedule dependent'))
    chk.guard(lambda c_: core.include_findings(c_, 'C05', files=['ciderpress/dft/lcao_nldf_generator.py', 'ciderpress/dft/lcao_interpolation.py'],
                                               rules=['py-reverse', 'py-select', 'py-branch'],
                                               why='the gradient drivers contract the force from the wv that get_potential returns: a backward convolution that is not the '
                                                   'mirror image of the forward one (a step guarded differently in the two directions) returns a wv that is not dE/drho'))


def mutants(tree):
    return [
        Mutant("remove SDMX guard (uks get_vxc)", UKSG,
               '    if not ni.settings.sdmx_settings.is_empty:\n        raise NotImplementedError("SDMX forces")\n', "",
               count=1, expect="unsupported-raise"),
        Mutant("remove NLOF guard (uks get_vxc_full_response)", UKSG,
               '    if not ni.settings.nlof_settings.is_empty:\n        raise NotImplementedError("NLOF forces")\n', "",
               count=3, expect="unsupported-raise"),
        Mutant("remove SDMX guard in generator (rks get_vxc)", RKSG,
               "        if ni.has_sdmx:\n            raise NotImplementedError\n        else:\n            extra_ao = 0\n",
               "        extra_ao = 0\n", expect="unsupported-raise"),
        Mutant("guard moved after eval_xc_cider (rks get_vxc_nldf)", RKSG,
               "    if ni.has_sdmx:\n        raise NotImplementedError\n    if par_atom:\n        raise NotImplementedError\n    else:\n        nldf_feat = []\n",
               "    if par_atom:\n        raise NotImplementedError\n    else:\n        nldf_feat = []\n",
               fn=_move_guard_after, expect="unsupported-raise"),
        Mutant("guard inverted (rks full response)", RKSG,
               "    if not ni.settings.sdmx_settings.is_empty:\n        raise NotImplementedError\n    if not ni.settings.nlof_settings.is_empty:\n        raise NotImplementedError\n    xctype",
               "    if ni.settings.sdmx_settings.is_empty:\n        raise NotImplementedError\n    if not ni.settings.nlof_settings.is_empty:\n        raise NotImplementedError\n    xctype",
               expect="unsupported-raise"),
        Mutant("guard raises another exception", UKSG, 'raise NotImplementedError("SDMX forces")',
               'raise ValueError("SDMX forces")', count=2, expect="unsupported-raise"),
        Mutant("dispatch returns wrong flavour", DFT, "                return uks_grad.DFGradients(self)",
               "                return uks_grad.Gradients(self)", expect="dispatch-total"),
        Mutant("dispatch returns rks class for UKS", DFT, "                return uks_grad.Gradients(self)",
               "                return rks_grad.Gradients(self)", expect="dispatch-total"),
        Mutant("Gradients alias dropped", DFT, "    Gradients = nuc_grad_method\n", "", expect="dispatch-total"),
        Mutant("CIDER get_veff not bound", UKSG, "class DFGradients(uks_grad_df.Gradients):\n\n    get_veff = get_veff",
               "class DFGradients(uks_grad_df.Gradients):\n\n    pass", expect="dispatch-total"),
        Mutant("halving removed (rks get_vxc)", RKSG, "    for idm, ao, mask, wv in block_loop(ao_deriv):\n        wv[0] *= 0.5\n",
               "    for idm, ao, mask, wv in block_loop(ao_deriv):\n", expect="grad-half"),
        Mutant("tau halved twice (uks full response)", UKSG,
               "        if xctype == \"MGGA\":\n            wv[:, 4] *= 0.5\n\n        vtmp = np.zeros((3, nao, nao))",
               "        if xctype == \"MGGA\":\n            wv[:, 4] *= 0.5\n            wv[:, 4] *= 0.5\n\n        vtmp = np.zeros((3, nao, nao))",
               expect="grad-half"),
        Mutant("halving of the wrong spin array (uks get_vxc_nldf)", UKSG, "        wvb[0] *= 0.5\n", "        wva[0] *= 0.5\n",
               expect="grad-half"),
        Mutant("beta grid response contracted with the alpha density matrix (nldf)", UKSG,
               'excsum[atm_id] += np.einsum("xij,ji->x", vtmp, dms[1]) * 2', 'excsum[atm_id] += np.einsum("xij,ji->x", vtmp, dms[0]) * 2',
               count=2, expect="grad-spin-mirror"),
        Mutant("beta matrix accumulated into the alpha slot", UKSG, "        vmat[1] += vtmp\n", "        vmat[0] += vtmp\n",
               expect="grad-spin-mirror"),
        Mutant("beta tau term uses the alpha potential", UKSG, "rks_grad._tau_grad_dot_(vmat[1], mol, ao, wv[1, 4], mask, ao_loc, True)",
               "rks_grad._tau_grad_dot_(vmat[1], mol, ao, wv[0, 4], mask, ao_loc, True)", expect="grad-spin-mirror"),
        Mutant("beta features from the alpha density", UKSG, "ni.nldfgen.get_features(rhob_full, spin=1)",
               "ni.nldfgen.get_features(rhoa_full, spin=1)", expect="grad-spin-mirror"),
        Mutant("z force term taken from the y slot (C)", "ciderpress/lib/mod_cider/conv_interpolation.c",
               "fac = f0_q[ig] * f1_q[iz];", "fac = f0_q[ig] * f1_q[iy];", expect="grad-xyz-slots"),
        Mutant("l=1 backward term reads the x slot twice (C)", "ciderpress/lib/mod_cider/conv_interpolation.c",
               "f_q[ig] += dz * f_q[iz];", "f_q[ig] += dz * f_q[ix];", count=2, expect="grad-xyz-slots"),
        Mutant("RKS grid response accepts interpolators without a per-atom layout", RKSG,
               '    if not hasattr(ni.nldfgen.interpolator, "grid_loc_atom"):', '    if False:', count=1,
               expect="unsupported-raise"),
        Mutant("UKS grid response no longer checks the response weights", UKSG,
               "        _check_response_weights(grids, weight, ip0, ip1)\n", "", expect="unsupported-raise"),
        Mutant("response weights compared with themselves", RKSG,
               "    ref = grids.grids_indexer.all_weights[ip0:ip1]\n", "    ref = weight\n", expect="unsupported-raise"),
        Mutant("UKS tau response term bypasses the per-atom scratch", UKSG,
               "            rks_grad._tau_grad_dot_(vtmp, mol, ao, wv[1, 4], mask, ao_loc, True)\n        vmat[1] += vtmp\n",
               "        vmat[1] += vtmp\n        if xctype == \"MGGA\":\n            rks_grad._tau_grad_dot_(vmat[1], mol, ao, wv[1, 4], mask, ao_loc, True)\n",
               count=1, expect="grad-response-scratch"),
        Mutant("UKS get_veff drops the VV10 grid response", UKSG, "            exc += enlc\n            vxc += vnlc\n",
               "            vxc += vnlc\n", count=1, expect="grad-veff-sibling"),
        Mutant("RKS get_veff adds the VV10 matrix only with grid response", RKSG,
               "                verbose=ks_grad.verbose,\n            )\n            vxc += vnlc\n    t0 = logger.timer",
               "                verbose=ks_grad.verbose,\n            )\n    t0 = logger.timer", count=1, expect="grad-veff-sibling"),
        Mutant("RKS branch accepts every Kohn-Sham class", DFT, "if isinstance(self, dft.rks.RKS):",
               "if isinstance(self, dft.rks.KohnShamDFT) and not isinstance(self, dft.uks.UKS):", expect="dispatch-total"),
        Mutant("l=1 gradient block moved behind the derivative-table loop", LCAO_INTERP, "", "", fn=_l1_block_after_loop,
               expect="grad-arglist-slots"),
        Mutant("stale batch index in gradient", RKSG, "        _gga_grad_sum_(vmat[idm], mol, ao, wv, mask, ao_loc)",
               "        _gga_grad_sum_(vmat[i], mol, ao, wv, mask, ao_loc)", expect="grad-batch-index"),
    ]


def _l1_block_after_loop(text):
    a = "                if self._n1 > 0:\n                    ftmp_gq[:] = 0\n                    fn(*args)\n                    self._call_l1_fill_grad(excsum, ftmp_gq, f_gq, a)\n"
    b = "                    self._contract_grad_terms(excsum, ftmp, a, v)\n"
    if a not in text or b not in text:
        return None
    return text.replace(a, "", 1).replace(b, b + a, 1)


def _move_guard_after(text):
    g = "    if ni.has_sdmx:\n        raise NotImplementedError\n    if par_atom:\n        raise NotImplementedError\n    else:\n        nldf_feat = []\n"
    i = text.find(g)
    if i < 0:
        return None
    j = text.find("    for idm, ip0, ip1, ao, mask, weight, coords in block_loop(ao_deriv):\n        rho = np.ascontiguousarray(", i)
    if j < 0:
        return None
    new = text[:i] + "    if par_atom:\n        raise NotImplementedError\n    else:\n        nldf_feat = []\n" + \
        text[i + len(g):j] + "    if ni.has_sdmx:\n        raise NotImplementedError\n" + text[j:]
    return new


if __name__ == "__main__":
    sys.exit(core.main(PROP, analyse, mutants, __doc__))
