"""Sign-domain abstract interpretation of small numeric Python functions
(C08 rule 3: guarded denominators).

Abstract value of an array-valued expression:
    sign  'P' every element > 0 | 'Z' every element >= 0 | 'U' unknown
    dep   the value depends on a density-like input
    cl    a clamp construct occurs on its definition chain
          (np.maximum(.., c>0), masked store of a positive cutoff, `+ eps`)
Tuples of values are tuples of abstract values.  The interpreter is
flow-sensitive over statements (if: join of both arms; loops: iterate to a
fixed point), interprocedural through a caller-supplied resolver (memoised on
argument values), and records every *division* and every *power whose
exponent may be negative* it meets, together with the abstract value of the
denominator.  A site evaluated in several contexts keeps its worst verdict.

Nothing is executed; constants are folded with Python arithmetic on literals,
np.pi and module/class-level numeric constants only.
"""
import ast
import math

from sa import pyfacts as pf

P, Z, U = "P", "Z", "U"


NOTAINT = frozenset()
UNKNOWN_ROOT = "?"


class AV:
    """zr: for a value of sign Z, the set of *root* expressions r (texts such as 'X0T[1]')
    with  value == 0  <=>  some r == 0  (names, sqrt, products, positive powers of roots);
    None when the zero set is not of that form.
    taint: roots on whose zero set the value may be non-finite (a division / negative power /
    log whose operand vanishes there); UNKNOWN_ROOT when the zero set of the operand is unknown."""
    __slots__ = ("sign", "dep", "cl", "zr", "taint")

    def __init__(self, sign=U, dep=False, cl=False, zr=None, taint=NOTAINT):
        self.sign, self.dep, self.cl, self.zr, self.taint = sign, dep, cl, zr, taint

    def key(self):
        return (self.sign, self.dep, self.cl, self.zr, self.taint)

    def but(self, **kw):
        d = {"sign": self.sign, "dep": self.dep, "cl": self.cl, "zr": self.zr, "taint": self.taint}
        d.update(kw)
        return AV(**d)

    def __repr__(self):
        return "%s%s%s" % ({"P": ">0", "Z": ">=0", "U": "?"}[self.sign], "ρ" if self.dep else "", "c" if self.cl else "")


class Mask:
    """value of `name < cutoff`"""
    __slots__ = ("name", "right_src", "right", "dep", "covers")

    def __init__(self, name, right_src, right, dep, covers=None):
        self.name, self.right_src, self.right, self.dep = name, right_src, right, dep
        # roots r such that the mask is True wherever r == 0 (left >= 0 compared with a positive bound)
        self.covers = covers

    def key(self):
        return ("mask", self.name, self.right_src, self.covers)


def key_of(v):
    if isinstance(v, tuple):
        return tuple(key_of(x) for x in v)
    return v.key()


def flat(v):
    if isinstance(v, tuple):
        out = AV(P)
        first = True
        for x in v:
            out = flat(x) if first else join(out, flat(x))
            first = False
        return out if not first else AV(U)
    if isinstance(v, Mask):
        return AV(U, v.dep, False)
    return v


def join_sign(a, b):
    if a == b:
        return a
    if {a, b} == {P, Z}:
        return Z
    return U


def join(a, b):
    if isinstance(a, tuple) and isinstance(b, tuple) and len(a) == len(b):
        return tuple(join(x, y) for x, y in zip(a, b))
    if isinstance(a, Mask) and isinstance(b, Mask) and a.key() == b.key():
        return a
    a, b = flat(a), flat(b)
    return AV(join_sign(a.sign, b.sign), a.dep or b.dep, a.cl or b.cl,
              a.zr if a.zr == b.zr and a.sign == b.sign else None, a.taint | b.taint)


def sign_of_number(x):
    if isinstance(x, complex) or x != x:
        return U
    return P if x > 0 else (Z if x == 0 else U)


PRESERVE_CALLS = {"np.asarray", "np.array", "np.ascontiguousarray", "np.asfortranarray", "np.squeeze",
                  "np.atleast_1d", "np.atleast_2d", "np.copy", "np.stack", "np.concatenate", "np.sum", "np.mean",
                  "np.cumsum", "np.transpose", "np.broadcast_to", "np.expand_dims", "float", "np.float64",
                  "np.hstack", "np.vstack", "np.append", "np.clip_nonneg"}
PRESERVE_METHODS = {"copy", "item", "sum", "mean", "reshape", "astype", "ravel", "flatten", "transpose", "squeeze",
                    "max", "min", "view", "tolist", "cumsum", "swapaxes"}
FRESH_Z = {"np.zeros", "np.zeros_like", "np.empty", "np.empty_like"}


def fold_const(e, lookup):
    """Value of an expression made of numeric literals, np.pi and names/attributes that
    `lookup(text)` maps to numbers; None otherwise."""
    try:
        return _fold(e, lookup)
    except Exception:
        return None


def _fold(e, lookup):
    if isinstance(e, ast.Constant):
        if isinstance(e.value, (int, float)) and not isinstance(e.value, bool):
            return e.value
        return None
    if isinstance(e, ast.UnaryOp) and isinstance(e.op, (ast.USub, ast.UAdd)):
        v = _fold(e.operand, lookup)
        return None if v is None else (-v if isinstance(e.op, ast.USub) else v)
    if isinstance(e, ast.BinOp):
        a, b = _fold(e.left, lookup), _fold(e.right, lookup)
        if a is None or b is None:
            return None
        if isinstance(e.op, ast.Add):
            return a + b
        if isinstance(e.op, ast.Sub):
            return a - b
        if isinstance(e.op, ast.Mult):
            return a * b
        if isinstance(e.op, ast.Div):
            return a / b
        if isinstance(e.op, ast.Pow):
            return a ** b
        return None
    if isinstance(e, (ast.Name, ast.Attribute)):
        s = pf.src(e)
        if s in ("np.pi", "numpy.pi", "math.pi"):
            return math.pi
        return lookup(s)
    return None


class Site:
    def __init__(self, func, node, kind, den_src):
        self.func = func
        self.node = node
        self.kind = kind  # 'div' | 'pow'
        self.den_src = den_src
        self.den = None  # joined AV of the denominator over all contexts
        self.contexts = 0
        self.guarded_where = False
        self.symbolic_exp = False  # a power whose exponent is not a constant (may or may not be negative)
        self.where_no_out = False  # np.divide/np.power(..., where=m) without out=: masked-out entries are uninitialised


class Interp:
    """resolver(call_node, func_node, interp) -> list of (callee FunctionDef, owner info, bound-args dict
    name -> value) or None for unknown callees.  consts(name_or_attr_text, func_node) -> number or None.
    assume(func_node, param_name) -> AV/tuple or None.  attr_assume(text) -> AV or None."""

    def __init__(self, resolver, consts, assume, attr_assume, qualname=pf.qualname):
        self.resolver = resolver
        self.consts = consts
        self.assume = assume
        self.attr_assume = attr_assume
        self.qualname = qualname
        self.sites = {}
        self.memo = {}
        self.stack = []
        self.unknown_calls = {}
        self.exp_sign = P    # abstract sign of np.exp(..): P mathematically; Z when underflow to 0.0 matters
        self.sinks = {}      # id(node) -> dict(func, node, what, taint) outputs: returns / stores into parameters
        self.cleansed = {}   # id(func) -> {root: override statement} roots some masked override removed

    # -- constant folding -------------------------------------------------
    def fold(self, e, fn):
        return fold_const(e, lambda text: self.consts(text, fn))

    # -- function analysis --------------------------------------------------
    def call_function(self, fn, args):
        """args: dict param -> value.  Returns the joined abstract return value."""
        k = (id(fn), tuple(sorted((a, key_of(v)) for a, v in args.items())))
        if k in self.memo:
            return self.memo[k]
        if any(f is fn for f in self.stack) or len(self.stack) > 12:
            return AV(U, any(flat(v).dep for v in args.values()), False)
        self.memo[k] = AV(U, True, False)
        env = {}
        for p in [x.arg for x in fn.args.posonlyargs + fn.args.args + fn.args.kwonlyargs]:
            if p in args:
                env[p] = args[p]
            else:
                a = self.assume(fn, p)
                env[p] = a if a is not None else AV(U, False, False)
        self.stack.append(fn)
        fr = Frame(self, fn, env)
        try:
            fr.block(fn.body)
        finally:
            self.stack.pop()
        ret = fr.ret if fr.ret is not None else AV(U, False, False)
        self.memo[k] = ret
        return ret

    def record(self, fn, node, kind, den_node, den_val, guarded=False, symbolic=False):
        k = id(node)
        s = self.sites.get(k)
        if s is None:
            s = self.sites[k] = Site(fn, node, kind, pf.src(den_node))
        v = flat(den_val)
        if s.den is None:
            s.den = AV(v.sign, v.dep, v.cl)
        else:  # worst verdict over contexts: a clamp must be present in every context
            s.den = AV(join_sign(s.den.sign, v.sign), s.den.dep or v.dep, s.den.cl and v.cl)
        s.contexts += 1
        s.guarded_where = s.guarded_where or guarded
        s.symbolic_exp = s.symbolic_exp or symbolic

    def sink(self, fn, node, what, val):
        t = frozenset()
        for x in (val if isinstance(val, tuple) else (val,)):
            t |= flat(x).taint
        d = self.sinks.get(id(node))
        if d is None:
            self.sinks[id(node)] = {"func": fn, "node": node, "what": what, "taint": t}
        else:
            d["taint"] = d["taint"] | t


class Frame:
    def __init__(self, interp, fn, env):
        self.I = interp
        self.fn = fn
        self.env = env
        self.ret = None
        self.dead = False
        a = fn.args
        self._params = {x.arg for x in a.posonlyargs + a.args + a.kwonlyargs}
        self._rebound = set()

    # -- statements ---------------------------------------------------------
    def block(self, stmts):
        for st in stmts:
            if self.dead:
                return
            self.stmt(st)

    def _fork(self):
        f = Frame(self.I, self.fn, dict(self.env))
        f.ret = self.ret
        f._rebound = self._rebound  # shared: a rebinding on any path makes the name a local
        return f

    def _merge(self, a, b):
        """state after an if with arms a, b"""
        for f in (a, b):
            if f.ret is not None:
                self.ret = f.ret if self.ret is None else join(self.ret, f.ret)
        live = [f for f in (a, b) if not f.dead]
        if not live:
            self.dead = True
            return
        if len(live) == 1:
            self.env = live[0].env
            return
        env = {}
        for k in set(a.env) | set(b.env):
            if k in a.env and k in b.env:
                env[k] = join(a.env[k], b.env[k])
            else:
                v = a.env.get(k, b.env.get(k))
                env[k] = v  # bound on one path only: keep (possibly-undefined is another rule)
        self.env = env

    def stmt(self, st):
        if isinstance(st, ast.Return):
            v = self.expr(st.value) if st.value is not None else AV(U)
            if st.value is not None:
                self.I.sink(self.fn, st, "returned value `%s`" % pf.src(st.value)[:60], v)
            self.ret = v if self.ret is None else join(self.ret, v)
            self.dead = True
        elif isinstance(st, ast.Raise):
            self.dead = True
        elif isinstance(st, ast.Assign):
            v = self.expr(st.value)
            for t in st.targets:
                self._param_sink(st, t, v)
                self.assign(t, v, st.value)
        elif isinstance(st, ast.AnnAssign):
            if st.value is not None:
                self.assign(st.target, self.expr(st.value), st.value)
        elif isinstance(st, ast.AugAssign):
            cur = self.expr(_load(st.target))
            rhs = self.expr(st.value)
            v = self.binop(st.op, cur, rhs, st.target, st.value, st)
            self._param_sink(st, st.target, rhs if isinstance(st.op, (ast.Add, ast.Sub)) else v)
            if isinstance(st.target, ast.Name):
                self.env[st.target.id] = v
                self._drop_masks(st.target.id)
            else:
                self.store_sub(st.target, v, None, whole=_full_slice(st.target))
        elif isinstance(st, ast.If):
            self.expr(st.test)
            a, b = self._fork(), self._fork()
            a.block(st.body)
            b.block(st.orelse)
            self._merge(a, b)
        elif isinstance(st, (ast.For, ast.While)):
            if isinstance(st, ast.For):
                it = flat(self.expr(st.iter))
                self.assign(st.target, AV(U, it.dep, False), None)
            for _ in range(4):
                before = {k: key_of(v) for k, v in self.env.items()}
                body = self._fork()
                if isinstance(st, ast.While):
                    body.expr(st.test)
                body.block(st.body)
                if body.ret is not None:
                    self.ret = body.ret if self.ret is None else join(self.ret, body.ret)
                if not body.dead:
                    for k in set(self.env) | set(body.env):
                        if k in self.env and k in body.env:
                            self.env[k] = join(self.env[k], body.env[k])
                        elif k in body.env:
                            self.env[k] = body.env[k]
                if {k: key_of(v) for k, v in self.env.items()} == before:
                    break
            if st.orelse:
                self.block(st.orelse)
        elif isinstance(st, ast.With):
            for it in st.items:
                v = self.expr(it.context_expr)
                if it.optional_vars is not None:
                    self.assign(it.optional_vars, AV(U, flat(v).dep, False), None)
            self.block(st.body)
        elif isinstance(st, ast.Try):
            a = self._fork()
            a.block(st.body)
            a.block(st.orelse)
            arms = [a]
            for h in st.handlers:
                b = self._fork()
                b.block(h.body)
                arms.append(b)
            cur = arms[0]
            for nxt in arms[1:]:
                tmp = Frame(self.I, self.fn, {})
                tmp.ret = self.ret
                tmp._merge(cur, nxt)
                cur = tmp
            self.env, self.ret, self.dead = cur.env, cur.ret if cur.ret is not None else self.ret, cur.dead
            self.block(st.finalbody)
        elif isinstance(st, ast.Expr):
            self.expr(st.value)
        elif isinstance(st, ast.Assert):
            self.expr(st.test)
        # pass/import/def/global/...: nothing

    def _param_sink(self, st, t, v):
        """a store through a parameter (output argument): e[:] += ..., dedx[k] += ..., out[m] = ..."""
        if isinstance(t, ast.Subscript):
            root = pf.base_name(t)
            if root in self._params and root not in self._rebound:
                self.I.sink(self.fn, st, "store into the output parameter `%s`" % pf.src(t)[:40], v)

    def _drop_masks(self, name):
        for k, v in list(self.env.items()):
            if isinstance(v, Mask) and v.name == name:
                self.env[k] = Mask(None, v.right_src, v.right, v.dep, v.covers)

    def assign(self, t, v, value_node):
        if isinstance(t, ast.Name):
            keep = False
            if value_node is not None:
                # rho = rho.copy() / np.asarray(rho) keep the masks built on rho
                inner = value_node
                if isinstance(inner, ast.Call):
                    if isinstance(inner.func, ast.Attribute) and inner.func.attr in ("copy", "astype") \
                            and pf.src(inner.func.value) == t.id:
                        keep = True
                    elif pf.call_name(inner) in PRESERVE_CALLS and inner.args and pf.src(inner.args[0]) == t.id:
                        keep = True
            if not keep:
                self._drop_masks(t.id)
            if t.id in self._params:
                self._rebound.add(t.id)
            self.env[t.id] = v
        elif isinstance(t, (ast.Tuple, ast.List)):
            if isinstance(v, tuple) and len(v) == len(t.elts):
                for e, x in zip(t.elts, v):
                    self.assign(e, x, None)
            else:
                for e in t.elts:
                    self.assign(e, flat(v) if not isinstance(v, tuple) else flat(v), None)
        elif isinstance(t, ast.Subscript):
            self.store_sub(t, v, value_node, whole=_full_slice(t))
        elif isinstance(t, ast.Starred):
            self.assign(t.value, v, None)
        # attribute stores: not tracked

    def _mask_of_index(self, idx):
        elts = idx.elts if isinstance(idx, ast.Tuple) else [idx]
        for x in elts:
            if isinstance(x, ast.Name) and isinstance(self.env.get(x.id), Mask):
                return self.env[x.id]
            if isinstance(x, (ast.Compare, ast.Subscript)) and not isinstance(x, ast.Slice):
                mv = self.expr(x)
                if isinstance(mv, Mask):
                    return mv
        return None

    def _cleanse(self, old, nv, m, t):
        """taint of a value after `old[m] = nv`"""
        if m is not None and m.covers:
            removed = old.taint & m.covers
            if removed:
                d = self.I.cleansed.setdefault(id(self.fn), {})
                for r in removed:
                    d.setdefault(r, t)
            return (old.taint - m.covers) | nv.taint
        return old.taint | nv.taint

    def store_sub(self, t, v, value_node, whole):
        root = pf.base_name(t)
        m = None
        cur = t
        while isinstance(cur, ast.Subscript) and m is None:
            m = self._mask_of_index(cur.slice)
            cur = cur.value
        if root is None or not isinstance(t.value, ast.Name):
            # nested store like res[0][cond] = 0: weak update of the root
            if root is not None and root in self.env:
                self.env[root] = self._weak(self.env[root], v, t, m)
            return
        old = self.env.get(root, AV(U))
        # masked store of a positive cutoff:  X[X < c] = c  or  m = X < c ; X[m] = c
        if m is not None and m.name == root and value_node is not None \
                and pf.src(value_node) == m.right_src and flat(v).sign == P:
            o = flat(old)
            self.env[root] = AV(P, o.dep, True, None, self._cleanse(o, flat(v), m, t))
            return
        if whole:
            nv = flat(v)
            self.env[root] = AV(nv.sign, nv.dep, nv.cl, nv.zr, nv.taint)
            return
        self.env[root] = self._weak(old, v, t, m)

    def _weak(self, old, v, t, m=None):
        if isinstance(old, tuple):
            # res[k][mask] = 0 on a tuple value: update element k if constant
            if isinstance(t.value, ast.Subscript) and isinstance(t.value.slice, ast.Constant) \
                    and isinstance(t.value.slice.value, int) and -len(old) <= t.value.slice.value < len(old):
                k = t.value.slice.value
                lst = list(old)
                lst[k] = self._weak(lst[k], v, t, m) if not isinstance(lst[k], tuple) else join(lst[k], v)
                return tuple(lst)
            return tuple(join(x, v) for x in old)
        o, nv = flat(old), flat(v)
        sign = join_sign(o.sign, nv.sign)
        return AV(sign, o.dep or nv.dep, o.cl, o.zr if (o.zr == nv.zr and sign == o.sign) else None,
                  self._cleanse(o, nv, m, t))

    # -- expressions --------------------------------------------------------
    def expr(self, e):
        I = self.I
        c = I.fold(e, self.fn)
        if c is not None and not isinstance(e, (ast.Name, ast.Attribute)):
            return AV(sign_of_number(c), False, False)
        if isinstance(e, ast.Constant):
            return AV(U, False, False)
        if isinstance(e, ast.Name):
            if e.id in self.env:
                return self.env[e.id]
            if c is not None:
                return AV(sign_of_number(c), False, False)
            a = I.attr_assume(e.id)
            return a if a is not None else AV(U, False, False)
        if isinstance(e, ast.Attribute):
            s = pf.src(e)
            a = I.attr_assume(s)
            if a is not None:
                return a
            if c is not None:
                return AV(sign_of_number(c), False, False)
            if e.attr in ("T", "real"):
                return self.expr(e.value)
            if e.attr in ("shape", "size", "ndim", "dtype", "flags"):
                self.expr(e.value)
                return AV(U, False, False)
            v = flat(self.expr(e.value))
            return AV(U, v.dep and not pf.is_self_attr(e), False)
        if isinstance(e, ast.Subscript):
            v = self.expr(e.value)
            self._walk_index(e.slice)
            if isinstance(v, tuple):
                if isinstance(e.slice, ast.Constant) and isinstance(e.slice.value, int) \
                        and -len(v) <= e.slice.value < len(v):
                    return v[e.slice.value]
                if isinstance(e.slice, ast.Slice):
                    lo = e.slice.lower.value if isinstance(e.slice.lower, ast.Constant) else None
                    hi = e.slice.upper.value if isinstance(e.slice.upper, ast.Constant) else None
                    if (e.slice.lower is None or isinstance(lo, int)) and (e.slice.upper is None or isinstance(hi, int)) \
                            and e.slice.step is None:
                        return tuple(v[lo:hi])
                return flat(v)
            if isinstance(v, Mask):
                return v
            if v.sign == Z and v.zr == frozenset((pf.src(e.value),)) and self._mask_of_index(e.slice) is None:
                # a row/element of a raw non-negative input is its own root: X0T[1], x[self.j]
                return v.but(zr=frozenset((pf.src(e),)))
            return v
        if isinstance(e, ast.UnaryOp):
            v = flat(self.expr(e.operand))
            if isinstance(e.op, ast.UAdd):
                return v
            return AV(U, v.dep, v.cl, None, v.taint)
        if isinstance(e, ast.BinOp):
            a, b = self.expr(e.left), self.expr(e.right)
            return self.binop(e.op, a, b, e.left, e.right, e)
        if isinstance(e, ast.Compare):
            l = self.expr(e.left)
            rs = [self.expr(x) for x in e.comparators]
            dep = flat(l).dep or any(flat(r).dep for r in rs)
            if len(e.ops) == 1 and isinstance(e.ops[0], (ast.Lt, ast.LtE)):
                lf, rf = flat(l), flat(rs[0])
                covers = lf.zr if (lf.sign == Z and lf.zr and rf.sign == P and not rf.taint) else None
                if isinstance(e.left, ast.Name) or covers:
                    return Mask(e.left.id if isinstance(e.left, ast.Name) else None,
                                pf.src(e.comparators[0]), rf, dep, covers)
            return AV(U, dep, False)
        if isinstance(e, ast.BoolOp):
            vs = [flat(self.expr(x)) for x in e.values]
            return AV(U, any(v.dep for v in vs), False)
        if isinstance(e, ast.IfExp):
            self.expr(e.test)
            return join(self.expr(e.body), self.expr(e.orelse))
        if isinstance(e, (ast.Tuple,)):
            return tuple(self.expr(x) for x in e.elts)
        if isinstance(e, ast.List):
            if not e.elts:
                return AV(U, False, False)
            vs = [self.expr(x) for x in e.elts]
            out = vs[0]
            for x in vs[1:]:
                out = join(out, x)
            return flat(out)
        if isinstance(e, (ast.ListComp, ast.GeneratorExp)):
            dep = False
            for g in e.generators:
                dep = dep or flat(self.expr(g.iter)).dep
            return AV(U, dep, False)
        if isinstance(e, ast.Call):
            return self.call(e)
        if isinstance(e, ast.Starred):
            return self.expr(e.value)
        if isinstance(e, ast.Lambda):
            return AV(U, False, False)
        if isinstance(e, ast.JoinedStr):
            return AV(U, False, False)
        return AV(U, False, False)

    def _walk_index(self, s):
        for n in ast.walk(s):
            if isinstance(n, (ast.BinOp, ast.Call)):
                try:
                    self.expr(n)
                except RecursionError:
                    raise
                break

    @staticmethod
    def _roots(x):
        return x.zr if (x.sign == Z and x.zr) else frozenset((UNKNOWN_ROOT,))

    def binop(self, op, a, b, ln, rn, node):
        a, b = flat(a), flat(b)
        r = self._binop0(op, a, b, ln, rn, node)
        taint = a.taint | b.taint
        zr = None
        if isinstance(op, (ast.Div, ast.FloorDiv)):
            if b.sign != P and b.dep:
                taint = taint | self._roots(b)
            zr = a.zr
        elif isinstance(op, ast.Pow):
            ev = self.I.fold(rn, self.fn)
            maybe_neg = (ev is not None and ev < 0) or (ev is None and b.sign not in (P, Z))
            if maybe_neg and a.sign != P and a.dep:
                taint = taint | self._roots(a)
            if ev is not None and ev > 0:
                zr = a.zr
        elif isinstance(op, ast.Mult):
            if pf.src(ln) == pf.src(rn):
                zr = a.zr
            elif a.sign == P:
                zr = b.zr
            elif b.sign == P:
                zr = a.zr
            elif a.zr is not None and b.zr is not None:
                zr = a.zr | b.zr
        return r.but(zr=zr if r.sign == Z else None, taint=taint)

    def _binop0(self, op, a, b, ln, rn, node):
        dep = a.dep or b.dep
        cl = a.cl or b.cl
        if isinstance(op, ast.Add):
            if P in (a.sign, b.sign) and U not in (a.sign, b.sign):
                s = P
            elif a.sign == Z and b.sign == Z:
                s = Z
            else:
                s = U
            # `x + eps` with a positive density-independent term is a regulariser
            if (a.sign == P and not a.dep and b.dep) or (b.sign == P and not b.dep and a.dep):
                cl = True
            return AV(s, dep, cl)
        if isinstance(op, ast.Sub):
            return AV(U, dep, cl)
        if isinstance(op, ast.Mult):
            if pf.src(ln) == pf.src(rn):
                return AV(P if a.sign == P else Z, dep, cl)
            if a.sign == P and b.sign == P:
                s = P
            elif a.sign in (P, Z) and b.sign in (P, Z):
                s = Z
            else:
                s = U
            return AV(s, dep, cl)
        if isinstance(op, (ast.Div, ast.FloorDiv)):
            self.I.record(self.fn, node, "div", rn, b)
            if b.sign == P:
                s = P if a.sign == P else (Z if a.sign == Z else U)
            else:
                s = U
            return AV(s, dep, cl)
        if isinstance(op, ast.Pow):
            ev = self.I.fold(rn, self.fn)
            if ev is not None:
                if ev < 0:
                    self.I.record(self.fn, node, "pow", ln, a)
                    return AV(P if a.sign == P else U, dep, cl)
                if isinstance(ev, int) or (isinstance(ev, float) and ev.is_integer()):
                    if int(ev) % 2 == 0:
                        return AV(P if (a.sign == P or ev == 0) else Z, dep, cl)
                if a.sign == P:
                    return AV(P, dep, cl)
                if a.sign == Z:
                    return AV(Z if ev > 0 else P, dep, cl)
                return AV(U, dep, cl)
            # exponent not a constant: it may be negative unless proven >= 0
            if b.sign not in (P, Z):
                self.I.record(self.fn, node, "pow", ln, a, symbolic=True)
            if a.sign == P:
                return AV(P, dep, cl)
            if a.sign == Z and b.sign in (P,):
                return AV(Z, dep, cl)
            return AV(U, dep, cl)
        return AV(U, dep, cl)

    def call(self, e):
        cn = pf.call_name(e) or ""
        if cn.startswith("numpy."):
            cn = "np." + cn[6:]
        args = [self.expr(a) for a in e.args]
        kws = {k.arg: self.expr(k.value) for k in e.keywords if k.arg}
        fargs = [flat(a) for a in args]
        dep = any(a.dep for a in fargs) or any(flat(v).dep for v in kws.values())
        taint = frozenset()
        for a in fargs:
            taint |= a.taint
        for v in kws.values():
            taint |= flat(v).taint
        # value-selecting guard: np.where(mask, safe, singular) is finite where the mask holds
        if cn == "np.where" and len(args) == 3:
            a, b = fargs[1], fargs[2]
            m = args[0] if isinstance(args[0], Mask) else None
            tb = (b.taint - m.covers) if (m is not None and m.covers) else b.taint
            if m is not None and m.covers and (b.taint & m.covers):
                d = self.I.cleansed.setdefault(id(self.fn), {})
                for r_ in b.taint & m.covers:
                    d.setdefault(r_, e)
            j = join(a, b)
            return j.but(dep=dep, taint=a.taint | tb)
        if cn in ("np.log", "np.log10", "np.log2", "np.log1p") and args:
            x = fargs[0]
            arg = e.args[0]
            if cn == "np.log1p":
                shifted = x
            else:
                shifted = None
                if isinstance(arg, ast.BinOp) and isinstance(arg.op, ast.Add):
                    for c_, o_ in ((arg.left, arg.right), (arg.right, arg.left)):
                        cv = self.I.fold(c_, self.fn)
                        if cv is not None and cv >= 1:
                            shifted = flat(self.expr(o_))
            if shifted is not None and shifted.sign in (P, Z):
                # log(1 + y), y >= 0: >= 0 and zero exactly where y is
                return AV(shifted.sign, dep, shifted.cl, shifted.zr if shifted.sign == Z else None, taint)
            if x.sign == P:
                return AV(U, dep, x.cl, None, taint)
            return AV(U, dep, x.cl, None, (taint | self._roots(x)) if x.dep else taint)
        r = self._call0(e, cn, args, kws, fargs, dep)
        if r is not None:
            if isinstance(r, (tuple, Mask)):
                return r
            zr = None
            if cn in ("np.sqrt", "np.cbrt", "np.abs", "np.fabs", "np.absolute", "abs", "np.square") and fargs:
                zr = fargs[0].zr
            elif r is (fargs[0] if fargs else None):
                return r  # preserving call: same value
            if cn in ("np.divide", "np.true_divide") and len(fargs) >= 2 and fargs[1].sign != P and fargs[1].dep and "where" not in kws:
                taint = taint | self._roots(fargs[1])
            if cn == "np.power" and len(fargs) >= 2 and "where" not in kws:
                ev = self.I.fold(e.args[1], self.fn)
                if ((ev is not None and ev < 0) or (ev is None and fargs[1].sign not in (P, Z))) and fargs[0].sign != P and fargs[0].dep:
                    taint = taint | self._roots(fargs[0])
            if isinstance(e.func, ast.Attribute) and e.func.attr in PRESERVE_METHODS and cn not in PRESERVE_CALLS:
                return r  # method on a value: the receiver's own abstract value
            return r.but(zr=zr if r.sign == Z else None, taint=taint | r.taint)
        # repository callee?
        targets = self.I.resolver(e, self.fn, self.I)
        if targets:
            out = None
            for callee, bound in targets:
                bargs = {}
                for pname, node in bound.items():
                    bargs[pname] = self.expr(node) if isinstance(node, ast.AST) else node
                r = self.I.call_function(callee, bargs)
                out = r if out is None else join(out, r)
            return out
        if isinstance(e.func, ast.Attribute):
            recv = flat(self.expr(e.func.value))
            dep = dep or (recv.dep and not pf.is_self_attr(e.func.value) and pf.src(e.func.value) != "self")
            taint = taint | recv.taint
        self.I.unknown_calls[cn or pf.src(e.func)] = self.I.unknown_calls.get(cn or pf.src(e.func), 0) + 1
        return AV(U, dep, False, None, taint)

    def _call0(self, e, cn, args, kws, fargs, dep):
        """numpy vocabulary; None when the callee is not part of it"""
        if cn in ("np.maximum", "np.fmax") and len(args) == 2:
            a, b = fargs
            cl = a.cl or b.cl
            if P in (a.sign, b.sign):
                return AV(P, dep, True)
            if Z in (a.sign, b.sign):
                return AV(Z, dep, cl)
            return AV(U, dep, cl)
        if cn in ("np.minimum", "np.fmin") and len(args) == 2:
            a, b = fargs
            s = P if a.sign == P and b.sign == P else (Z if a.sign in (P, Z) and b.sign in (P, Z) else U)
            return AV(s, dep, a.cl or b.cl)
        if cn == "np.clip" and len(args) == 3:
            lo = fargs[1]
            return AV(lo.sign if lo.sign in (P, Z) else U, dep, lo.sign == P or fargs[0].cl)
        if cn in ("np.abs", "np.fabs", "np.absolute", "abs") and args:
            return AV(P if fargs[0].sign == P else Z, dep, fargs[0].cl)
        if cn in ("np.sqrt", "np.cbrt") and args:
            return AV(fargs[0].sign if fargs[0].sign in (P, Z) else U, dep, fargs[0].cl)
        if cn in ("np.exp", "np.cosh") and args:
            return AV(self.I.exp_sign if cn == "np.exp" else P, dep, fargs[0].cl)
        if cn in ("np.square",) and args:
            return AV(P if fargs[0].sign == P else Z, dep, fargs[0].cl)
        if cn in ("np.ones", "np.ones_like"):
            return AV(P, False, False)
        if cn in FRESH_Z:
            return AV(Z, False, False)
        if cn in ("np.divide", "np.true_divide") and len(e.args) >= 2:
            self.I.record(self.fn, e, "div", e.args[1], fargs[1], guarded="where" in kws)
            if "where" in kws and "out" not in kws:
                self.I.sites[id(e)].where_no_out = True
            s = (P if fargs[0].sign == P else (Z if fargs[0].sign == Z else U)) if fargs[1].sign == P else U
            return AV(s, dep, fargs[0].cl or fargs[1].cl)
        if cn in ("np.power",) and len(e.args) >= 2:
            fake = ast.BinOp(left=e.args[0], op=ast.Pow(), right=e.args[1])
            ev = self.I.fold(e.args[1], self.fn)
            if (ev is None and fargs[1].sign not in (P, Z)) or (ev is not None and ev < 0):
                self.I.record(self.fn, e, "pow", e.args[0], fargs[0], guarded="where" in kws, symbolic=ev is None)
            return AV(P if fargs[0].sign == P else U, dep, fargs[0].cl)
        if cn in PRESERVE_CALLS and args:
            return fargs[0]
        if isinstance(e.func, ast.Attribute) and e.func.attr in PRESERVE_METHODS:
            recv = self.expr(e.func.value)
            if isinstance(recv, (tuple, Mask)):
                return flat(recv)
            return recv
        return None


def _load(t):
    """copy of a store target usable as a load expression"""
    return ast.parse(pf.src(t), mode="eval").body


def _full_slice(t):
    s = t.slice
    if isinstance(s, ast.Slice) and s.lower is None and s.upper is None and s.step is None:
        return isinstance(t.value, ast.Name)
    if isinstance(s, ast.Constant) and s.value is Ellipsis:
        return isinstance(t.value, ast.Name)
    return False
