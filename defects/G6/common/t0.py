import sys, os
sys.path.insert(0, os.path.dirname(os.path.abspath(__file__)))
import cbuild
lib = cbuild.build(["mod_cider/cider_coefs.c"])
cbuild.patch_loader(lib)
from ciderpress.dft import plans, settings
print("ok", lib.cider_ind_clip)
