"""C program facts from clang-14's JSON AST (type-resolved), plus macro table.

Only parsing: `clang -fsyntax-only`; nothing is compiled, linked or run.
Stub headers under /verif/stubs stand in for omp.h/fftw3.h/xc.h (gcc's omp.h
is rejected by clang; the others are absent from the sandbox)."""
import hashlib
import json
import os
import re
import subprocess
import tempfile

from sa.core import VERIF, AnalysisError

LIB = "ciderpress/lib"
C_FILES = [
    "mod_cider/cider_coefs.c", "mod_cider/cider_grids.c", "mod_cider/conv_interpolation.c",
    "mod_cider/convolutions.c", "mod_cider/debug_numint.c", "mod_cider/fast_sdmx.c",
    "mod_cider/frac_lapl.c", "mod_cider/model_utils.c", "mod_cider/pbc_tools.c",
    "mod_cider/sph_harm.c", "mod_cider/spline.c", "numint_cider/nr_numint.c",
    "fft_wrapper/cider_fft.c", "xc_utils/libxc_baselines.c", "sbt/sbt.c",
]
CACHE = os.environ.get("VERIF_CACHE", os.path.join(VERIF, ".cache"))


def kids(n):
    return [c for c in (n.get("inner") or []) if isinstance(c, dict) and c.get("kind")]


def strip(n):
    while n.get("kind") in ("ImplicitCastExpr", "ParenExpr", "CStyleCastExpr"):
        k = kids(n)
        if not k:
            break
        n = k[0]
    return n


def walk(n):
    todo = [n]
    while todo:
        x = todo.pop()
        yield x
        todo.extend(reversed(kids(x)))


def _include_dirs(tree, rel):
    d = os.path.dirname(os.path.join(tree.root, LIB, rel))
    return [os.path.join(VERIF, "stubs"), d, os.path.join(tree.root, LIB, "mod_cider"),
            os.path.join(tree.root, LIB, "fft_wrapper"), os.path.join(tree.root, LIB, "sbt")]


def _digest(tree, rel, text):
    h = hashlib.sha1()
    h.update(text.encode())
    for hdr in tree.glob(LIB + "/*/*.h"):
        h.update(hdr.encode())
        h.update(tree.read(hdr).encode())
    for s in sorted(os.listdir(os.path.join(VERIF, "stubs"))):
        with open(os.path.join(VERIF, "stubs", s), "rb") as f:
            h.update(f.read())
    h.update(b"clang14-json-v1")
    return h.hexdigest()


def _run_clang(tree, rel, text, extra):
    full_rel = LIB + "/" + rel
    if full_rel in tree.overlay:
        tmpd = tempfile.mkdtemp(prefix="verif_c_")
        path = os.path.join(tmpd, os.path.basename(rel))
        with open(path, "w") as f:
            f.write(text)
    else:
        tmpd = None
        path = tree.path(full_rel)
    try:
        cmd = ["clang", "-fopenmp", "-fsyntax-only", "-w"] + extra
        for d in _include_dirs(tree, rel):
            cmd += ["-I", d]
        cmd.append(path)
        p = subprocess.run(cmd, capture_output=True, text=True)
        if p.returncode != 0:
            raise AnalysisError("clang cannot parse %s: %s" % (rel, p.stderr[:400]))
        return p.stdout
    finally:
        if tmpd:
            try:
                os.remove(path)
                os.rmdir(tmpd)
            except OSError:
                pass


def _prune(n):
    """Drop what no analysis uses, to make the cached JSON small."""
    for k in ("mangledName", "isUsed", "isReferenced", "valueCategory", "isImplicit",
              "previousDecl", "castKind", "storageClass", "init", "isPostfix", "canOverflow"):
        if k != "isPostfix":
            n.pop(k, None)
    r = n.get("range")
    if r:
        for side in ("begin", "end"):
            s = r.get(side, {})
            if "expansionLoc" in s:
                e = s["expansionLoc"]
                s.clear()
                s.update(e)
            for k in ("includedFrom", "tokLen", "col", "spellingLoc", "isMacroArgExpansion", "presumedLine"):
                s.pop(k, None)
    loc = n.get("loc")
    if loc:
        if "expansionLoc" in loc:
            e = loc["expansionLoc"]
            loc.clear()
            loc.update(e)
        for k in ("includedFrom", "tokLen", "col", "spellingLoc", "isMacroArgExpansion", "presumedLine"):
            loc.pop(k, None)
    rd = n.get("referencedDecl")
    if rd:
        t = rd.get("type", {})
        n["referencedDecl"] = {"id": rd.get("id"), "name": rd.get("name"), "kind": rd.get("kind"),
                               "type": {"qualType": t.get("qualType", "")}}
    t = n.get("type")
    if isinstance(t, dict):
        n["type"] = {"qualType": t.get("qualType", "")}
    for c in n.get("inner") or []:
        if isinstance(c, dict):
            _prune(c)


class TU:
    """One translation unit: function definitions defined in the main file."""

    def __init__(self, tree, rel):
        self.rel = rel
        self.full_rel = LIB + "/" + rel
        self.text = tree.read(self.full_rel)
        os.makedirs(CACHE, exist_ok=True)
        dg = _digest(tree, rel, self.text)
        cp = os.path.join(CACHE, "%s.%s.json" % (rel.replace("/", "_"), dg))
        mutated = self.full_rel in tree.overlay  # self-test variant: never cached
        if os.path.exists(cp) and not mutated:
            with open(cp) as f:
                data = json.load(f)
        else:
            raw = json.loads(_run_clang(tree, rel, self.text, ["-Xclang", "-ast-dump=json"]))
            main_funcs = []
            typedefs = []
            cur_file = None
            for d in raw.get("inner", []):
                loc = d.get("loc") or {}
                if "expansionLoc" in loc:
                    loc = loc["expansionLoc"]
                if "file" in loc:
                    cur_file = loc["file"]
                elif "includedFrom" in loc and "file" not in loc:
                    pass
                if d.get("kind") == "FunctionDecl" and any(
                        c.get("kind") == "CompoundStmt" for c in d.get("inner", []) if isinstance(c, dict)):
                    if cur_file is None or os.path.basename(cur_file) == os.path.basename(rel):
                        _prune(d)
                        main_funcs.append(d)
                elif d.get("kind") == "FunctionDecl":
                    ps = [c for c in d.get("inner", []) if isinstance(c, dict) and c.get("kind") == "ParmVarDecl"]
                    typedefs.append({"kind": "FunctionProto", "name": d.get("name"),
                                     "type": d.get("type", {}).get("qualType", ""),
                                     "params": [(c.get("name"), c.get("type", {}).get("qualType", "")) for c in ps]})
                elif d.get("kind") == "TypedefDecl":
                    typedefs.append({"kind": "TypedefDecl", "name": d.get("name"),
                                     "type": d.get("type", {}).get("qualType", "")})
            macros = _run_clang(tree, rel, self.text, ["-dM", "-E"])
            mt = {}
            for line in macros.splitlines():
                m = re.match(r"#define (\w+)(\([^)]*\))?\s*(.*)", line)
                if m and not m.group(1).startswith("__"):
                    mt[m.group(1)] = (m.group(2), m.group(3))
            data = {"funcs": main_funcs, "decls": typedefs, "macros": mt}
            if not mutated:
                tmp = cp + ".tmp%d" % os.getpid()
                with open(tmp, "w") as f:
                    json.dump(data, f)
                os.replace(tmp, cp)
        self.funcs = {d["name"]: d for d in data["funcs"]}
        self.decls = data["decls"]
        self.macros = data["macros"]

    def func(self, name):
        f = self.funcs.get(name)
        if f is None:
            raise AnalysisError("anchor C function %s vanished from %s" % (name, self.rel))
        return f

    def params(self, name):
        return [c for c in kids(self.func(name)) if c.get("kind") == "ParmVarDecl"]

    def body(self, name):
        for c in kids(self.func(name)):
            if c.get("kind") == "CompoundStmt":
                return c
        return None

    def text_of(self, node):
        r = node.get("range", {})
        b, e = r.get("begin", {}).get("offset"), r.get("end", {}).get("offset")
        if b is None or e is None:
            return "<?>"
        # end offset points at the start of the last token
        m = re.match(r"[A-Za-z_0-9.]+|.", self.text[e:], re.S)
        return self.text[b: e + (len(m.group(0)) if m else 1)]

    def line_of(self, node):
        r = node.get("range", {}).get("begin", {})
        off = r.get("offset")
        if off is None:
            return r.get("line", 0)
        return self.text.count("\n", 0, off) + 1


def load_all(tree, rels=None, jobs=16):
    """dict rel -> TU (parsed in parallel on first use, then cached by digest)."""
    rels = rels or C_FILES
    import concurrent.futures as cf
    import multiprocessing as mp
    out = {}
    if len(rels) > 1 and jobs > 1:
        # warm the digest-keyed cache in parallel processes (clang + JSON
        # pruning dominate), then load the pruned files here
        _WARM["tree"] = tree
        try:
            with cf.ProcessPoolExecutor(max_workers=min(jobs, len(rels)),
                                        mp_context=mp.get_context("fork")) as ex:
                errs = [e for e in ex.map(_warm, rels) if e]
        except Exception as e:  # fall back to serial
            errs = []
        if errs:
            raise AnalysisError(errs[0])
    for r in rels:
        out[r] = TU(tree, r)
    return out


_WARM = {}


def _warm(rel):
    try:
        TU(_WARM["tree"], rel)
    except AnalysisError as e:
        return str(e)
    return None


def clear_stale_cache(keep_days=2):
    pass
