"""
C11: spline mapping of the plain (non-subset) additive kernels DiffARBF,
DiffARBFV2, DiffAddRQ, DiffAddLLRBF.

get_mapped_gp_evaluator_additive admits them explicitly
(`isinstance(kernel, (DiffARBF, DiffAdditiveMixin))`) but then reads
`arbf.indexes`, an attribute only the Subset* variants have. DiffARBFV2 has no
Subset variant at all, so it (and its get_k0_for_mapping) can never be mapped.
Expected: a SplineSetEvaluator reproducing f(x) = sum_a k(x, x_a) alpha_a on
the bounded feature domain, with an error that decreases with the density,
identical to that of the equivalent Subset kernel with indexes = all columns.
"""
import contextlib
import io
import sys

import numpy as np

import cider_stub

cider_stub.install()

from ciderpress.dft.xc_evaluator import KernelEvaluator, SplineSetEvaluator  # noqa: E402
from ciderpress.models.kernel_plans.map_tools import (  # noqa: E402
    get_mapped_gp_evaluator_additive,
)
from ciderpress.models.kernels import (  # noqa: E402
    DiffAddLLRBF,
    DiffAddRQ,
    DiffARBF,
    DiffARBFV2,
    SubsetARBF,
)


class Feat:
    def __init__(self, bounds):
        self.bounds = bounds


rng = np.random.default_rng(1)
nctrl, nfeat = 12, 3
bounds = [(0, 1), (-1, 1), (0, 2)]
feature_list = [Feat(b) for b in bounds]
lo = np.array([b[0] for b in bounds])
hi = np.array([b[1] for b in bounds])
Xctrl = lo + (hi - lo) * rng.random((nctrl, nfeat))
alpha = rng.normal(size=nctrl)
X = lo + (hi - lo) * rng.random((50, nfeat))
ls = np.array([0.4, 0.5, 0.6])
scale = [0.3, 1.0, 0.7]

cases = {
    "SubsetARBF(slice(0, None)) (control)": SubsetARBF(
        slice(0, None), order=2, length_scale=ls, scale=scale
    ),
    "DiffARBF": DiffARBF(order=2, length_scale=ls, scale=scale),
    "DiffARBFV2": DiffARBFV2(order=2, length_scale=ls, scale=scale),
    "DiffAddRQ": DiffAddRQ(order=2, alpha=1.5, length_scale=ls, scale=scale),
    "DiffAddLLRBF": DiffAddLLRBF(order=2, alpha=1.5, length_scale=ls, scale=scale),
}
nfail = 0
for name, kernel in cases.items():
    fref, dfref = KernelEvaluator(kernel, Xctrl, alpha)(X)
    errs = []
    try:
        for dens in [4, 8, 16]:
            with contextlib.redirect_stdout(io.StringIO()):
                out = get_mapped_gp_evaluator_additive(
                    kernel,
                    Xctrl,
                    alpha,
                    feature_list,
                    srbf_density=dens,
                    arbf_density=dens,
                    max_ngrid=400,
                )
            f, df = SplineSetEvaluator(*out)(X)
            errs.append(np.abs(f - fref).max() / np.abs(fref).max())
    except Exception as e:
        print("%s\n   expected: mapped evaluator; observed: %s %r" % (name, type(e).__name__, e))
        nfail += 1
        continue
    print("%s\n   relative spline error at density 4, 8, 16: %s" % (name, errs))
    if not (errs[0] > errs[1] > errs[2] and errs[2] < 2e-3):
        nfail += 1
if nfail:
    print("FAIL: %d plain additive kernels could not be mapped" % nfail)
    sys.exit(1)
print("OK")
