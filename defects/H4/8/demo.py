"""C11: get_mapped_gp_evaluator_linear refuses to map a linear-kernel GP unless the number
of control points happens to equal the number of features.

    N = X.shape[1]            # number of features
    assert N == alpha.size    # alpha has one weight per CONTROL POINT (X.shape[0])

The mapping itself, coefs_i = sum_a k(e_i, x_a) alpha_a, is exact for any number of control
points (f(x) = sum_a alpha_a x.x_a = x . (X^T alpha)).
"""
import os
import sys

sys.path.insert(0, os.path.join(os.path.dirname(os.path.abspath(__file__)), "..", "common"))
import hx  # noqa: E402

hx.install()

import numpy as np  # noqa: E402

from ciderpress.dft.xc_evaluator import KernelEvaluator  # noqa: E402
from ciderpress.models.kernel_plans.map_tools import get_mapped_gp_evaluator_linear  # noqa: E402
from ciderpress.models.kernels import DiffConstantKernel, DiffLinearKernel  # noqa: E402

rng = np.random.default_rng(0)
nfeat, n = 4, 20
X1 = rng.uniform(0, 1, size=(n, nfeat))
fail = False
for kname, kern in [("linear", DiffLinearKernel()), ("2.5*linear", DiffConstantKernel(2.5) * DiffLinearKernel())]:
    for nctrl in [3, 4, 5, 12]:
        X1ctrl = rng.uniform(0, 1, size=(nctrl, nfeat))
        alpha = rng.normal(size=nctrl)
        ref, dref = KernelEvaluator(kern, X1ctrl, alpha)(X1)
        try:
            ev = get_mapped_gp_evaluator_linear(kern, X1ctrl, alpha)
            r, d = ev(X1)
            err = max(np.abs(r - ref).max(), np.abs(d - dref).max())
            print("%-10s nfeat=%d nctrl=%2d: max|mapped - kernel sum| = %.2e" % (kname, nfeat, nctrl, err))
            fail |= err > 1e-12
        except AssertionError as e:
            print("%-10s nfeat=%d nctrl=%2d: expected an exact linear map, observed AssertionError %r"
                  % (kname, nfeat, nctrl, e))
            fail = True
if fail:
    print("FAIL: linear mapping only works when nctrl == nfeat")
    sys.exit(1)
print("OK")
