"""E-parity: spin-swap (a <-> b) parity interpreter for straight-line derivative code.

Pure `ast`.  For a function whose parameters are declared as spin-resolved arrays
("spin": leading axis of length 2, swap 0<->1; "sig3": [aa, ab, bb], swap 0<->2, slot 1 fixed)
it inlines locals and puts every scalar expression into a *monomial* normal form

    coef * prod(atom ** exponent)

whose atoms carry a behaviour under the swap P:  S (invariant), A (changes sign), C (element k of
a spin array: P maps it to the mirror element), T (unknown).  Sums become single atoms whose
parity is derived (m + P(m) is S, m - P(m) is A, S+S is S, A+A is A, anything else T).
No algebra beyond monomial normalisation is done; two monomials are compared as multisets.

API
  analyse(fdef, param_kinds, module=None) -> Report
      module: pyfacts.Module; module-level literal constants are folded (literal == named constant) and
      same-module helper functions / methods are inlined (helper extraction), up to depth 3
      param_kinds: {param name or position: "spin" | "sig3" | "sym"}
      Report.writes: [Write(array, kind, slot, rest, op, value, node, branch)]   element / whole-array stores
      Report.pairs():  yields (status, message, node) with status in {"ok", "bad", "nc"} for
          * every spin slot store  T[k, ...] op= v : the stores into the mirror slot must be exactly {P(v)}
          * every sig3[1] store: v must be invariant
          * every whole-array store T[:, ...] op= v / T op= v : v must be a covariant array or invariant
  mirror(mono) -> mono | None     P applied to a monomial
"""
import ast
from fractions import Fraction

from sa import pyfacts as pf


class Mono:
    """coef * prod(atoms**exp); atoms are tuples (kind, ident[, k, nmax])"""

    def __init__(self, coef=Fraction(1), f=None):
        self.coef = coef
        self.f = {a: e for a, e in (f or {}).items() if e != 0}

    @property
    def top(self):
        return any(a[0] == "T" for a in self.f)

    def mul(self, o, sign=1):
        f = dict(self.f)
        for a, e in o.f.items():
            f[a] = f.get(a, 0) + sign * e
        if sign < 0 and o.coef == 0:
            return TOP
        return Mono(self.coef * (o.coef if sign > 0 else 1 / o.coef), f)

    def pow(self, e):
        if self.coef < 0 and e.denominator != 1:
            return TOP
        try:
            c = self.coef ** int(e) if e.denominator == 1 else (
                Fraction(1) if self.coef == 1 else None)
        except ZeroDivisionError:
            return TOP
        if c is None:
            # non-rational power of a literal: keep it as an invariant atom
            f = {a: x * e for a, x in self.f.items()}
            f[("S", "%s**%s" % (self.coef, e))] = 1
            return Mono(Fraction(1), f)
        return Mono(c, {a: x * e for a, x in self.f.items()})

    def neg(self):
        return Mono(-self.coef, self.f)

    def canon(self):
        return "%s*%s" % (self.coef, "*".join("%s^%s" % (atom_repr(a), e) for a, e in sorted(
            self.f.items(), key=lambda p: atom_repr(p[0]))))

    def __repr__(self):
        return self.canon()


def atom_repr(a):
    if a[0] == "C":
        return "%s[%d]" % (a[1], a[2])
    return "%s<%s>" % (a[0], a[1])


TOP = Mono(Fraction(1), {("T", "?"): 1})


def mirror(m):
    if m.top:
        return None
    coef, f = m.coef, {}
    for a, e in m.f.items():
        if a[0] == "A":
            if e.denominator != 1:
                return None
            if int(e) % 2:
                coef = -coef
            f[a] = e
        elif a[0] == "C":
            f[("C", a[1], a[3] - a[2], a[3])] = f.get(("C", a[1], a[3] - a[2], a[3]), 0) + e
        else:
            f[a] = e
    return Mono(coef, f)


def parity(m):
    """+1 invariant, -1 odd, 0 neither/unknown"""
    p = mirror(m)
    if p is None:
        return 0
    if p.canon() == m.canon():
        return 1
    if p.neg().canon() == m.canon():
        return -1
    return 0


class Arr:
    """spin-covariant array (kind 'spin' or 'sig3'); ident is its canonical text"""

    def __init__(self, kind, ident):
        self.kind, self.ident = kind, ident

    def __repr__(self):
        return "%s{%s}" % (self.kind, self.ident)


class Write:
    def __init__(self, arr, slot, rest, op, value, node, branch):
        self.arr, self.slot, self.rest, self.op, self.value, self.node, self.branch = (
            arr, slot, rest, op, value, node, branch)


class Report:
    def __init__(self):
        self.writes = []
        self.notes = []

    def pairs(self):
        groups = {}
        for w in self.writes:
            groups.setdefault((w.branch, w.arr.ident, w.arr.kind, w.rest, w.op), []).append(w)
        for (branch, ident, kind, rest, op), ws in groups.items():
            nmax = 1 if kind == "spin" else 2
            by = {}
            for w in ws:
                by.setdefault(w.slot, []).append(w)
            for slot, lst in sorted(by.items(), key=lambda p: str(p[0])):
                for w in lst:
                    txt = pf.src(w.node)[:110]
                    if slot == "full":
                        v = w.value
                        if isinstance(v, Arr) or (isinstance(v, Mono) and parity(v) == 1):
                            yield "ok", "`%s`: whole-array store of a spin-covariant value" % txt, w.node
                        elif isinstance(v, Mono) and not v.top and parity(v) != 1:
                            yield "bad", ("`%s` stores the channel-specific / odd value %s into every spin slot of "
                                          "%s" % (txt, v, ident)), w.node
                        else:
                            yield "nc", "`%s`: value not classified" % txt, w.node
                        continue
                    if not isinstance(w.value, Mono) or w.value.top:
                        yield "nc", "`%s`: value not classified" % txt, w.node
                        continue
                    if kind == "sig3" and slot == 1:
                        if parity(w.value) == 1:
                            yield "ok", "`%s`: the ab slot receives a swap-invariant value" % txt, w.node
                        else:
                            yield "bad", ("`%s`: the ab (cross) slot of %s must be invariant under a<->b but "
                                          "receives %s" % (txt, ident, w.value)), w.node
                        continue
                    if slot not in (0, nmax):
                        yield "nc", "`%s`: slot %s is not a spin slot" % (txt, slot), w.node
                        continue
                    other = by.get(nmax - slot, [])
                    want = mirror(w.value)
                    if want is None or any((not isinstance(o.value, Mono)) or o.value.top for o in other):
                        yield "nc", "`%s`: mirror not computable" % txt, w.node
                        continue
                    have = sorted(o.value.canon() for o in other)
                    mine = sorted(mirror(x.value).canon() for x in lst)
                    if have == mine:
                        yield "ok", "`%s` <-> `%s`" % (txt, "; ".join(pf.src(o.node)[:80] for o in other)), w.node
                    elif not other:
                        yield "bad", ("`%s` writes spin slot %d of %s but nothing writes slot %d: exchanging the "
                                      "channels does not exchange the results" % (txt, slot, ident, nmax - slot)), w.node
                    else:
                        yield "bad", ("`%s` (slot %d of %s) is not the a<->b mirror image of what slot %d receives "
                                      "(`%s`); mirror of the former: %s ; the latter: %s" % (
                                          txt, slot, ident, nmax - slot, "; ".join(pf.src(o.node)[:80] for o in other),
                                          str(want)[:150], " + ".join(o.value.canon() for o in other)[:150])), w.node


EVEN_FUNCS = {"np.abs", "abs", "np.square", "np.cos", "np.cosh"}
ELEMENTWISE = {"np.sqrt", "np.abs", "np.exp", "np.log", "np.cbrt", "np.square", "np.asarray", "np.ascontiguousarray",
               "np.asfortranarray", "np.maximum", "np.minimum", "np.copy"}


class _Interp:
    def __init__(self, fdef, kinds, module=None):
        self.fdef = fdef
        self.rep = Report()
        self.env = {}
        self.module = module        # pyfacts.Module: module-level literals and same-module helpers
        self.depth = 0
        self.retvals = []
        self._glob = {}
        params = [a.arg for a in fdef.args.args]
        for k, kind in kinds.items():
            name = params[k] if isinstance(k, int) else k
            if name not in params:
                raise KeyError(name)
            self.env[name] = Arr(kind, name) if kind in ("spin", "sig3") else Mono(Fraction(1), {("S", name): 1})
        for p in params:
            self.env.setdefault(p, Mono(Fraction(1), {("S", p): 1}))
        self.branch = ""

    # -- expressions -----------------------------------------------------------
    def sym_atom(self, text):
        return Mono(Fraction(1), {("S", text): 1})

    def ev(self, e):
        if isinstance(e, ast.Constant):
            if isinstance(e.value, (int, float)) and not isinstance(e.value, bool):
                return Mono(Fraction(repr(float(e.value))))
            return self.sym_atom(repr(e.value))
        if isinstance(e, ast.Name):
            if e.id in self.env:
                return self.env[e.id]
            return self.module_const(e.id)
        if isinstance(e, ast.Attribute):
            d = pf.src(e)
            base = self.ev(e.value) if not isinstance(e.value, ast.Name) or e.value.id in self.env else None
            if isinstance(base, Arr) and e.attr in ("T", "real"):
                return base
            if isinstance(base, (Arr, Mono)) and e.attr in ("shape", "size", "ndim", "dtype"):
                return self.sym_atom(d)
            if base is None:
                return self.sym_atom(d)
            return TOP
        if isinstance(e, ast.UnaryOp) and isinstance(e.op, (ast.USub, ast.UAdd)):
            v = self.ev(e.operand)
            if isinstance(v, Mono):
                return v.neg() if isinstance(e.op, ast.USub) else v
            return v if isinstance(e.op, ast.UAdd) else (Arr(v.kind, "-" + v.ident) if isinstance(v, Arr) else TOP)
        if isinstance(e, ast.BinOp):
            return self.binop(e.op, self.ev(e.left), self.ev(e.right))
        if isinstance(e, ast.Subscript):
            return self.sub(self.ev(e.value), e)
        if isinstance(e, ast.Call):
            name = pf.call_name(e) or ""
            args = [self.ev(a) for a in e.args]
            r = self.inline_call(e, args)
            if r is not None:
                return r
            if isinstance(e.func, ast.Attribute) and e.func.attr in ("copy", "astype", "sum", "mean") and not e.args \
                    and isinstance(e.func.value, (ast.Name, ast.Subscript, ast.Attribute)):
                base = self.ev(e.func.value)
                if e.func.attr in ("copy", "astype"):
                    return base
                return TOP
            if name.split(".")[-1] in ("zeros", "zeros_like", "empty", "empty_like") and e.args:
                shp = e.args[0]
                if isinstance(shp, ast.Tuple) and shp.elts and isinstance(shp.elts[0], ast.Constant):
                    n = shp.elts[0].value
                    if n in (2, 3):
                        return Arr("spin" if n == 2 else "sig3", "new@%d" % e.lineno)
                if args and isinstance(args[0], Arr):
                    return Arr(args[0].kind, "new@%d" % e.lineno)
                return self.sym_atom("0")
            if name in ELEMENTWISE and args:
                if all(isinstance(a, Arr) for a in args if not (isinstance(a, Mono) and parity(a) == 1)) and any(
                        isinstance(a, Arr) for a in args):
                    ks = {a.kind for a in args if isinstance(a, Arr)}
                    if len(ks) == 1:
                        return Arr(ks.pop(), "%s(%s)" % (name, ",".join(self.canon(a) for a in args)))
                    return TOP
                if all(isinstance(a, Mono) for a in args):
                    ps = [parity(a) for a in args]
                    txt = "%s(%s)" % (name, ",".join(a.canon() for a in args))
                    if all(p == 1 for p in ps) or (name in EVEN_FUNCS and all(p in (1, -1) for p in ps)):
                        return self.sym_atom(txt)
                    if name in ("np.sqrt", "np.cbrt") and len(args) == 1 and not args[0].top:
                        return args[0].pow(Fraction(1, 2 if name == "np.sqrt" else 3))
                return TOP
            return TOP
        if isinstance(e, ast.Tuple):
            return [self.ev(x) for x in e.elts]
        return TOP

    def module_const(self, name):
        """module-level named constant: a pure literal expression is folded (literal == named constant),
        anything else is an invariant atom"""
        if name in self._glob:
            return self._glob[name]
        v = self.sym_atom(name)
        self._glob[name] = v
        if self.module is not None and name in self.module.assigns:
            sub = _Interp.__new__(_Interp)
            sub.__dict__.update(self.__dict__)
            sub.env = {}
            val = sub.ev(self.module.assigns[name])
            if isinstance(val, Mono) and not val.f:
                v = val             # pure number: identical to writing the literal in place
        self._glob[name] = v
        return v

    def inline_call(self, e, args):
        """one level of helper extraction: a same-module function (or self.method / Class.method given in
        module.functions) is interpreted with its parameters bound to the argument values"""
        if self.module is None or self.depth >= 3:
            return None
        f = e.func
        fdef = None
        if isinstance(f, ast.Name):
            fdef = self.module.functions.get(f.id)
        elif isinstance(f, ast.Attribute) and isinstance(f.value, ast.Name):
            cls = self.module.classes.get(f.value.id)
            encl = pf.enclosing_class(self.fdef)
            for c in ([cls] if cls is not None else []) + ([encl] if f.value.id in ("self", "cls") and encl else []):
                fdef = fdef or pf.methods(c).get(f.attr)
        if fdef is None or fdef.args.vararg or fdef.args.kwarg:
            return None
        params = [a.arg for a in fdef.args.args]
        if params and params[0] in ("self", "cls") and isinstance(f, ast.Attribute) and f.value.id in ("self", "cls"):
            params = params[1:]
        if len(args) > len(params) or e.keywords and any(k.arg not in params for k in e.keywords):
            return None
        sub = _Interp.__new__(_Interp)
        sub.__dict__.update(self.__dict__)
        sub.fdef, sub.depth, sub.retvals = fdef, self.depth + 1, []
        sub.env = dict(zip(params, args))
        for k in e.keywords:
            sub.env[k.arg] = self.ev(k.value)
        defaults = dict(zip([a.arg for a in fdef.args.args][len(fdef.args.args) - len(fdef.args.defaults):],
                            fdef.args.defaults))
        for p_ in params:
            if p_ not in sub.env:
                sub.env[p_] = sub.ev(defaults[p_]) if p_ in defaults else TOP
        sub.run(fdef.body)
        if not sub.retvals:
            return self.sym_atom("None")
        first = sub.retvals[0]
        same = all(type(r) is type(first) and (
            [self.canon(x) for x in r] == [self.canon(x) for x in first] if isinstance(first, list)
            else self.canon(r) == self.canon(first)) for r in sub.retvals[1:])
        return first if same else TOP

    def canon(self, v):
        return v.canon() if isinstance(v, Mono) else v.ident if isinstance(v, Arr) else "?"

    def binop(self, op, a, b):
        if isinstance(a, list) or isinstance(b, list):
            return TOP
        if isinstance(op, (ast.Mult, ast.Div)):
            sign = 1 if isinstance(op, ast.Mult) else -1
            if isinstance(a, Mono) and isinstance(b, Mono):
                return TOP if (a.top or b.top) else a.mul(b, sign)
            opc = "*" if sign > 0 else "/"
            if isinstance(a, Arr) and isinstance(b, Arr):
                return Arr(a.kind, "(%s%s%s)" % (a.ident, opc, b.ident)) if a.kind == b.kind else TOP
            arr, m = (a, b) if isinstance(a, Arr) else (b, a)
            if isinstance(m, Mono) and parity(m) == 1:
                return Arr(arr.kind, "(%s%s%s)" % (self.canon(a), opc, self.canon(b)))
            return TOP
        if isinstance(op, ast.Pow):
            if isinstance(b, Mono) and not b.f:
                if isinstance(a, Mono):
                    return TOP if a.top else a.pow(b.coef)
                return Arr(a.kind, "(%s**%s)" % (a.ident, b.coef))
            if isinstance(a, Mono) and isinstance(b, Mono) and parity(a) == 1 and parity(b) == 1:
                return self.sym_atom("(%s**%s)" % (a.canon(), b.canon()))
            if isinstance(a, Arr) and isinstance(b, Mono) and parity(b) == 1:
                return Arr(a.kind, "(%s**%s)" % (a.ident, b.canon()))
            return TOP
        if isinstance(op, (ast.Add, ast.Sub)):
            minus = isinstance(op, ast.Sub)
            if isinstance(a, Arr) or isinstance(b, Arr):
                oks = [x for x in (a, b) if isinstance(x, Arr) or (isinstance(x, Mono) and parity(x) == 1)]
                kinds = {x.kind for x in (a, b) if isinstance(x, Arr)}
                if len(oks) == 2 and len(kinds) == 1:
                    return Arr(kinds.pop(), "(%s%s%s)" % (self.canon(a), "-" if minus else "+", self.canon(b)))
                return TOP
            if a.top or b.top:
                return TOP
            b2 = b.neg() if minus else b
            if not a.f and not b2.f:
                return Mono(a.coef + b2.coef)
            if a.canon().split("*", 1)[1] == b2.canon().split("*", 1)[1]:
                return Mono(a.coef + b2.coef, a.f)          # like terms
            terms = sorted([a.canon(), b2.canon()])
            text = "(" + " + ".join(terms) + ")"
            pa, pb = parity(a), parity(b2)
            ma = mirror(a)
            if pa == 1 and pb == 1:
                kind = "S"
            elif pa == -1 and pb == -1:
                kind = "A"
            elif ma is not None and ma.canon() == b2.canon():
                kind = "S"
            elif ma is not None and ma.neg().canon() == b2.canon():
                kind = "A"
            else:
                kind = "T"
            return Mono(Fraction(1), {(kind, text): 1})
        return TOP

    def first_index(self, sl):
        """-> (slot, rest_text): slot = int | 'full' | 'step2' | 'other'"""
        elts = sl.elts if isinstance(sl, ast.Tuple) else [sl]
        first = elts[0]
        rest = ",".join(pf.src(x) for x in elts[1:])
        if isinstance(first, ast.Constant) and isinstance(first.value, int) and not isinstance(first.value, bool):
            return first.value, rest
        if isinstance(first, ast.UnaryOp) and isinstance(first.op, ast.USub) and isinstance(first.operand, ast.Constant):
            return -first.operand.value, rest
        if isinstance(first, ast.Slice):
            if first.lower is None and first.upper is None and first.step is None:
                return "full", rest
            if first.lower is None and first.upper is None and isinstance(first.step, ast.Constant) \
                    and first.step.value == 2:
                return "step2", rest
        if isinstance(first, ast.Constant) and first.value is Ellipsis:
            return "full", rest
        return "other", rest

    def sub(self, base, e):
        if isinstance(base, Mono):
            return base          # further indexing of one channel's data (grid axis, masks)
        if not isinstance(base, Arr):
            return TOP
        slot, rest = self.first_index(e.slice)
        nmax = 1 if base.kind == "spin" else 2
        ident = base.ident + ("[:,%s]" % rest if rest else "")
        if slot == "full":
            return Arr(base.kind, ident) if rest else base
        if slot == "step2" and base.kind == "sig3":
            return Arr("spin", base.ident + "[::2%s]" % ("," + rest if rest else ""))
        if isinstance(slot, int):
            if slot < 0:
                slot += nmax + 1
            if base.kind == "sig3" and slot == 1:
                return self.sym_atom(ident + "[1]")
            if slot in (0, nmax):
                return Mono(Fraction(1), {("C", ident, slot, nmax): 1})
        return TOP

    # -- statements ------------------------------------------------------------
    def run(self, body):
        body = list(body)
        for st in body:
            if isinstance(st, ast.Assign):
                v = self.ev(st.value)
                for t in st.targets:
                    self.assign(t, v, st, "=")
            elif isinstance(st, ast.AugAssign):
                if isinstance(st.target, ast.Name):
                    cur = self.env.get(st.target.id, TOP)
                    self.env[st.target.id] = self.binop(st.op, cur, self.ev(st.value))
                elif isinstance(st.target, ast.Subscript):
                    v = self.ev(st.value)
                    if isinstance(st.op, ast.Sub) and isinstance(v, Mono):
                        v = v.neg()
                    if isinstance(st.op, (ast.Add, ast.Sub)):
                        self.assign(st.target, v, st, "+=")
                    else:
                        self.assign(st.target, TOP if not (isinstance(v, Mono) and parity(v) == 1) else v, st,
                                    "*=" if isinstance(st.op, ast.Mult) else "/=")
            elif isinstance(st, ast.If):
                # path-sensitive: each branch is followed by the rest of this block
                rest = body[body.index(st) + 1:]
                saved, sb = dict(self.env), self.branch
                for lab, br in (("", st.body), ("not ", st.orelse)):
                    self.env, self.branch = dict(saved), sb + "/" + lab + pf.src(st.test)[:40]
                    self.run(list(br) + list(rest))
                self.branch = sb
                return
            elif isinstance(st, (ast.For, ast.While, ast.With, ast.Try)):
                for n in ast.walk(st):
                    if isinstance(n, ast.Name) and isinstance(n.ctx, ast.Store):
                        self.env[n.id] = TOP
                self.rep.notes.append("compound statement at line %d not interpreted" % st.lineno)
            elif isinstance(st, ast.Return):
                self.retvals.append(self.ev(st.value) if st.value is not None else self.sym_atom("None"))
                return
            elif isinstance(st, ast.Raise):
                return
            elif isinstance(st, (ast.Expr, ast.Assert, ast.Pass)):
                continue

    def assign(self, t, v, st, op):
        if isinstance(t, ast.Name):
            self.env[t.id] = v if not isinstance(v, list) else TOP
        elif isinstance(t, (ast.Tuple, ast.List)):
            vs = v if isinstance(v, list) and len(v) == len(t.elts) else [TOP] * len(t.elts)
            for tt, vv in zip(t.elts, vs):
                self.assign(tt, vv, st, op)
        elif isinstance(t, ast.Subscript):
            base = self.ev(t.value)
            if isinstance(base, Arr):
                slot, rest = self.first_index(t.slice)
                if isinstance(slot, int) and slot < 0:
                    slot += (1 if base.kind == "spin" else 2) + 1
                if slot in ("other", "step2"):
                    self.rep.notes.append("store `%s` not classified" % pf.src(st)[:80])
                    return
                self.rep.writes.append(Write(base, slot, rest, op, v if not isinstance(v, list) else TOP, st, self.branch))


def analyse(fdef, param_kinds, module=None):
    it = _Interp(fdef, param_kinds, module)
    it.run(fdef.body)
    return it.rep
