"""C11 (and C04): RBFEvaluator -- the C squared-exponential evaluator -- does not reproduce
f(x) = sum_a k(x, x_a) alpha_a and its gradient when the kernel is a SubsetRBF over a
proper subset / a permutation / a stepped slice of the features.

RBFEvaluator(kernel, X1ctrl, alpha) has the signature of its sibling
KernelEvaluator(kernel, X1ctrl, alpha), which evaluates the Python kernel.  For
kernel = const * SubsetRBF(indexes, length_scale):

 * __init__ keeps X1ctrl with ALL N1 columns and sets nfeat = X1ctrl.shape[-1], while
   __call__ reduces X1 to X1[..., indexes]; the C routine is told nfeat = N1 for both
   arrays, so it strides through the reduced X1 / exps / dres with the wrong width
   (garbage values, NaN, out-of-bounds reads and WRITES past the end of dres).
 * even if the caller pre-reduces X1ctrl to X1ctrl[:, indexes], the gradient is returned /
   validated in the reduced space (dres.shape must equal X1[..., indexes].shape), so the
   evaluator cannot accumulate into the (Nsamp, N1) buffers of MappedDFTKernel.__call__
   (ValueError), and for a permutation (same width) the gradient columns are silently added
   to the wrong features.
 * a slice with a step and open end is converted with
   stop = (len(length_scale) + start) // step   ->  wrong (too short / empty) index set;
   slice(None, k) raises TypeError (start None).

Each case runs in a subprocess because the out-of-bounds writes can corrupt the heap.
"""
import os
import subprocess
import sys

HERE = os.path.dirname(os.path.abspath(__file__))
sys.path.insert(0, os.path.join(HERE, "..", "common"))

CASES = [
    ("list, all features [0,1,2,3,4]", [0, 1, 2, 3, 4]),
    ("list, proper subset [0,2]", [0, 2]),
    ("list, permutation [4,3,2,1,0]", [4, 3, 2, 1, 0]),
    ("slice(1, None)", slice(1, None)),
    ("slice(1, 4)", slice(1, 4)),
    ("slice(0, None, 2)", slice(0, None, 2)),
    ("slice(None, 3)", slice(None, 3)),
]


def run_case(icase, convention):
    import hx

    hx.install()
    import numpy as np

    from ciderpress.dft import baselines as B
    from ciderpress.dft.transform_data import FeatureList, UMap
    from ciderpress.dft.xc_evaluator import (
        GlobalLinearEvaluator,
        KernelEvaluator,
        MappedDFTKernel,
        RBFEvaluator,
    )
    from ciderpress.models.kernels import DiffConstantKernel, SubsetRBF

    rng = np.random.default_rng(1)
    N1, nctrl, n = 5, 6, 9
    X1ctrl = rng.uniform(0, 1, size=(nctrl, N1))
    alpha = rng.normal(size=nctrl)
    X1 = rng.uniform(0, 1, size=(n, N1))
    ls = np.array([0.5, 0.7, 0.9, 1.1, 1.3])
    name, idx = CASES[icase]
    kern = DiffConstantKernel(1.7) * SubsetRBF(idx, length_scale=ls[idx])
    # reference: the Python kernel sum and its gradient w.r.t. all N1 input features
    ref, dref = KernelEvaluator(kern, X1ctrl, alpha)(X1)
    ctrl = X1ctrl if convention == "full" else np.ascontiguousarray(X1ctrl[:, idx])
    bad = False
    try:
        ev = RBFEvaluator(kern, ctrl, alpha)
    except Exception as e:
        print("    constructor raised %r" % e)
        return 1
    # (1) stand-alone call
    try:
        r, d = ev(X1)
        ev_err = np.abs(r - ref).max()
        if d.shape == dref.shape:
            g_msg = "max|grad-ref|=%.2e" % np.abs(d - dref).max()
            bad |= not np.abs(d - dref).max() < 1e-10
        else:
            g_msg = "grad shape %s, expected %s" % (d.shape, dref.shape)
            bad = True
        print("    stand-alone : max|f-ref|=%.2e  %s" % (ev_err, g_msg))
        bad |= not ev_err < 1e-10
    except Exception as e:
        print("    stand-alone : raised %r" % e)
        bad = True
    # (2) inside a mapped kernel, sharing buffers with a second evaluator
    fl = FeatureList([UMap(i + 1, 0.3) for i in range(N1)])
    lin = GlobalLinearEvaluator(rng.normal(size=N1))
    X0T = rng.uniform(0.3, 2.0, size=(1, N1 + 1, n))
    mref = MappedDFTKernel([KernelEvaluator(kern, X1ctrl, alpha), lin], fl, "NPOL", B.lda_x, B.zero_xc)
    eref, deref = mref(X0T)
    try:
        m = MappedDFTKernel([ev, lin], fl, "NPOL", B.lda_x, B.zero_xc)
        e, de = m(X0T)
        e1, e2 = np.abs(e - eref).max(), np.abs(de - deref).max()
        print("    in MappedDFTKernel with a 2nd evaluator: max|E-ref|=%.2e max|dE-ref|=%.2e" % (e1, e2))
        bad |= not (e1 < 1e-10 and e2 < 1e-10)
    except Exception as e:
        print("    in MappedDFTKernel with a 2nd evaluator: raised %r" % e)
        bad = True
    return int(bad)


if __name__ == "__main__":
    if len(sys.argv) == 3:
        sys.stdout.flush()
        rc = run_case(int(sys.argv[1]), sys.argv[2])
        sys.stdout.flush()
        os._exit(rc)  # skip interpreter teardown (heap may be corrupted)
    nbad = 0
    for convention, text in [
        ("full", "X1ctrl passed with all N1 columns (as for KernelEvaluator / kernel(X, X1ctrl))"),
        ("reduced", "X1ctrl pre-reduced by the caller to X1ctrl[:, indexes]"),
    ]:
        print("=== convention:", text)
        for icase, (name, idx) in enumerate(CASES):
            print("  SubsetRBF indexes =", name)
            p = subprocess.run(
                [sys.executable, os.path.abspath(__file__), str(icase), convention],
                capture_output=True, text=True,
            )
            out = p.stdout.rstrip()
            if out:
                print(out)
            if p.returncode not in (0, 1):
                print("    subprocess died with return code %d (memory corruption)" % p.returncode)
                err_tail = p.stderr.strip().splitlines()[-1:] if p.stderr.strip() else []
                for line in err_tail:
                    print("    stderr:", line)
            ok = p.returncode == 0
            print("    ->", "ok" if ok else "MISMATCH with the Python kernel sum")
            if convention == "full":
                nbad += not ok
    print("expected: every case under the first convention reproduces KernelEvaluator to rounding error")
    if nbad:
        print("FAIL: %d of %d index sets are not reproduced by RBFEvaluator" % (nbad, len(CASES)))
        sys.exit(1)
    print("OK")
