"""E-omp: OpenMP data-sharing classification on clang-14's JSON AST (property C10).

What this engine is: a *definite-race detector*.  For every `omp parallel`
region it classifies every store (assignment, compound assignment, ++/--,
pointer out-arguments of callees through write summaries, BLAS/LAPACK output
arguments from a frozen table) as

  thread-private   the memory written is a variable declared inside the region,
                   a clause-private / reduction variable, a worksharing
                   induction variable, or memory allocated inside the region;
  partitioned      the address expression is data-dependent (through
                   assignments and loop initialisers) on the induction
                   variable of an enclosing worksharing loop, or on
                   omp_get_thread_num();
  protected        lexically inside critical / atomic / single / master;
  violation        none of the above: every thread of the team (or several
                   iterations handed to different threads) stores to the same
                   shared location.

It is NOT a race-freedom proof: injectivity of the index arithmetic derived
from the induction variable is assumed, read/write conflicts are not looked
at, and the taint analysis is flow-insensitive inside a region.

Machinery: (1) per function a field-insensitive inclusion-based points-to
analysis (objects: what parameter k points to, globals, allocation sites,
local variables); (2) per function summaries (parameters written through,
globals written, what the return value points to), iterated to a fixpoint
over all translation units together with the function-pointer target table;
(3) per region a label propagation (TID, WS(loop)) over private variables.

Only parsing; nothing is compiled or run."""
import ast
import re

from sa.core import AnalysisError
from sa import cfacts
from sa.cfacts import kids

TID = "TID"

PARALLEL = {"OMPParallelDirective": "parallel", "OMPParallelForDirective": "parallel for",
            "OMPParallelForSimdDirective": "parallel for simd",
            "OMPParallelSectionsDirective": "parallel sections"}
SECTIONS = {"OMPSectionsDirective": "sections", "OMPParallelSectionsDirective": "parallel sections"}
SECTION = {"OMPSectionDirective": "section"}
NOOP = {"OMPFlushDirective": "flush", "OMPTaskwaitDirective": "taskwait", "OMPTaskyieldDirective": "taskyield"}
WS = {"OMPForDirective": "for", "OMPParallelForDirective": "parallel for",
      "OMPForSimdDirective": "for simd", "OMPParallelForSimdDirective": "parallel for simd"}
SIMD = {"OMPSimdDirective": "simd"}   # no threading semantics: its loop variable is private, body transparent
PROTECT = {"OMPCriticalDirective": "critical", "OMPSingleDirective": "single",
           "OMPMasterDirective": "master", "OMPAtomicDirective": "atomic", "OMPOrderedDirective": "ordered"}
ONE_THREAD = ("single", "master", "section")   # the block is executed by one thread of the team
MUTEX = ("critical", "atomic", "ordered")      # executed by every thread, one at a time
BARRIER = {"OMPBarrierDirective": "barrier"}
KNOWN_CLAUSES = {"private", "firstprivate", "lastprivate", "reduction", "shared", "default",
                 "schedule", "collapse", "nowait", "num_threads", "if", "ordered",
                 "simdlen", "safelen", "aligned", "linear", "proc_bind", "copyin", "copyprivate",
                 "nontemporal", "order", "allocate", "hint", "seq_cst", "acq_rel", "release", "acquire",
                 "relaxed", "read", "write", "update", "capture", "threads", "simd"}

ALLOC = {"malloc": None, "calloc": None, "fftw_malloc": None, "alloca": None, "realloc": None,
         "mkl_malloc": None}

# external functions: 0-based indices of the pointer arguments they write through.
# BLAS/LAPACK (Fortran calling convention, every argument a pointer): output array + info.
EXTERN_WRITES = {
    "dgemm_": [11], "zgemm_": [11], "dgemv_": [9], "dsymm_": [10], "daxpy_": [3], "dscal_": [2],
    "dcopy_": [3], "dpotrf_": [2, 4], "dpotrs_": [5, 7], "dtrtri_": [3, 5], "dsyrk_": [8], "dger_": [7],
    "memset": [0], "memcpy": [0], "memmove": [0],
    "fftw_execute": [], "fftw_destroy_plan": [], "fftw_free": [], "fftw_init_threads": [],
    "fftw_plan_with_nthreads": [], "fftw_plan_many_dft": [], "fftw_plan_many_dft_c2r": [],
    "fftw_plan_many_dft_r2c": [],
    "printf": [], "free": [], "exit": [], "setbuf": [], "__assert_fail": [], "fprintf": [], "puts": [],
    "fputs": [], "fflush": [], "perror": [], "abort": [], "strlen": [], "strcmp": [], "strncmp": [],
    "sprintf": [0], "snprintf": [0], "strcpy": [0], "strncpy": [0], "qsort": [0],
    "ddot_": [], "dnrm2_": [], "dasum_": [], "idamax_": [], "zaxpy_": [3], "zscal_": [2], "zcopy_": [3],
    "dtrsm_": [9], "dtrmm_": [9], "dsyr_": [5], "dsyr2k_": [11], "zgemv_": [9], "dgesv_": [2, 4, 5, 7],
    "dgetrf_": [2, 4, 5], "dgetri_": [1, 4, 6], "dsyev_": [4, 6, 7, 9], "dposv_": [4, 6, 8],
    "xc_func_init": [0], "xc_func_set_dens_threshold": [0],
    "xc_lda_exc_vxc": [3, 4], "xc_gga_exc_vxc": [4, 5, 6], "xc_mgga_exc_vxc": [6, 7, 8, 9, 10],
    "omp_get_thread_num": [], "omp_get_num_threads": [], "omp_get_max_threads": [],
    # Intel MKL DFTI (only reached in the MKL build configuration of fft_wrapper)
    "DftiComputeForward": [1, 2], "DftiComputeBackward": [1, 2], "DftiCreateDescriptor": [0],
    "DftiSetValue": [0], "DftiCommitDescriptor": [0], "DftiFreeDescriptor": [0], "DftiErrorMessage": [],
    "mkl_get_max_threads": [], "mkl_set_num_threads": [], "mkl_free": [],
}
NTHREADS_FUNCS = ("omp_get_num_threads", "omp_get_max_threads")

_ARITH = {"const", "volatile", "unsigned", "signed", "int", "long", "short", "char", "double", "float",
          "size_t", "ssize_t", "ptrdiff_t", "uint8_t", "int8_t", "uint16_t", "int16_t", "uint32_t",
          "int32_t", "uint64_t", "int64_t", "_Bool", "bool", "_Complex", "complex", "restrict",
          "__restrict", "FINT", "void"}


def qt(n):
    t = n.get("type")
    return t.get("qualType", "") if isinstance(t, dict) else ""


def is_arith(q):
    return all(tok in _ARITH for tok in re.findall(r"\w+|[^\s\w]", q))


def is_array(q):
    return q.rstrip().endswith("]")


def pointee_is_arith(q):
    """`double *`, `const int *restrict`, `double[]` ... : a single-level pointer to numbers"""
    q = re.sub(r"\[[^\]]*\]\s*$", "*", q.strip())
    q = re.sub(r"(\*)\s*(?:(?:const|volatile|restrict|__restrict|__restrict__)\s*)+$", r"\1", q)
    return q.endswith("*") and is_arith(q[:-1])


def ptrish(q):
    """may hold (or be) an address: pointers, arrays, structs, unknown typedefs"""
    return not is_arith(q)


def strip(n):
    while n.get("kind") in ("ImplicitCastExpr", "ParenExpr", "CStyleCastExpr", "ConstantExpr"):
        k = kids(n)
        if not k:
            break
        n = k[0]
    return n


def omp_kind(n):
    k = n.get("kind", "")
    return k if k.startswith("OMP") and k.endswith("Directive") else None


def omp_body(n):
    """The associated statement of a directive (None for stand-alone ones).  The
    JSON dump repeats the captured statement's declarations as siblings; only the
    first child of the CapturedDecl is the body."""
    ks = kids(n)
    for c in ks:
        if c["kind"] == "CapturedStmt":
            cd = kids(c)
            if not cd or cd[0]["kind"] != "CapturedDecl" or not kids(cd[0]):
                raise AnalysisError("unrecognised CapturedStmt shape under %s" % n["kind"])
            return kids(cd[0])[0]
    stm = [c for c in ks if not c["kind"].endswith("Attr")]
    return stm[0] if stm else None


def children(n):
    """AST children along which statements/expressions are traversed exactly once."""
    if omp_kind(n):
        b = omp_body(n)
        return [b] if b is not None else []
    if n.get("kind") in ("OMPCapturedExprDecl", "CapturedDecl", "RecordDecl"):
        return []
    return kids(n)


def pwalk(n):
    todo = [n]
    while todo:
        x = todo.pop()
        yield x
        todo.extend(reversed(children(x)))


def for_slots(n):
    """ForStmt -> (init, cond, inc, body); absent slots are None."""
    inner = [c if (isinstance(c, dict) and c.get("kind")) else None for c in (n.get("inner") or [])]
    if len(inner) != 5:
        raise AnalysisError("unrecognised ForStmt shape (%d children)" % len(inner))
    return inner[0], inner[2], inner[3], inner[4]


def var_init(n):
    ks = [c for c in kids(n) if not c["kind"].endswith("Attr")]
    return ks[-1] if ks else None


# ----------------------------------------------------------------------------
# pragma text
# ----------------------------------------------------------------------------
class Pragma:
    def __init__(self, text, directive, clauses):
        self.text = text
        self.directive = directive
        self.clauses = clauses  # list of (name, argtext or None)

    def args(self, name):
        return [a for n, a in self.clauses if n == name]

    def varlist(self, name):
        out = []
        for a in self.args(name):
            if a is None:
                continue
            if name == "reduction":
                if ":" not in a:
                    raise AnalysisError("reduction clause without operator: %s" % self.text)
                a = a.split(":", 1)[1]
            elif name == "linear":
                a = a.split(":", 1)[0]           # linear(list : step)
            elif name == "lastprivate" and ":" in a:
                a = a.split(":", 1)[1]           # lastprivate(conditional: list)
            # array sections `a[0:n]` name the array
            out += [re.sub(r"\[.*$", "", v.strip()) for v in re.split(r",(?![^\[]*\])", a) if v.strip()]
        return out

    def has(self, name):
        return any(n == name for n, _ in self.clauses)

    def schedule_kind(self):
        a = self.args("schedule")
        if not a or a[0] is None:
            return None
        return re.sub(r"\s+", "", a[0].split(":")[-1])

    def collapse(self):
        a = self.args("collapse")
        if not a:
            return 1
        try:
            return int(a[0])
        except (TypeError, ValueError):
            raise AnalysisError("collapse argument is not an integer literal: %s" % self.text)


_DIRWORDS = ("parallel", "for", "simd", "single", "critical", "barrier", "master", "atomic", "sections",
             "section", "ordered", "flush", "taskwait", "taskyield")


def expected_directive(kind):
    for table in (PARALLEL, WS, SIMD, PROTECT, BARRIER, SECTIONS, SECTION, NOOP):
        if kind in table:
            return table[kind]
    return None


def pragma_of(tu, node, expect=None):
    off = node.get("range", {}).get("begin", {}).get("offset")
    if off is None:
        raise AnalysisError("OpenMP directive without source offset in %s" % tu.rel)
    text = tu.text
    ls = text.rfind("\n", 0, off) + 1
    out = []
    pos = ls
    while True:
        eol = text.find("\n", pos)
        if eol < 0:
            eol = len(text)
        line = text[pos:eol]
        if line.rstrip().endswith("\\"):
            out.append(line.rstrip()[:-1])
            pos = eol + 1
            continue
        out.append(line)
        break
    full = " ".join(out)
    m = re.match(r"\s*#\s*pragma\s+omp\b(.*)$", full, re.S)
    if not m:
        raise AnalysisError("cannot recover pragma text of %s in %s (found %r)" % (node["kind"], tu.rel, full[:60]))
    rest = m.group(1)
    rest = re.sub(r"/\*.*?\*/", " ", rest, flags=re.S)
    rest = re.sub(r"/\*.*$", " ", rest, flags=re.S)   # comment continuing on the next line
    rest = re.sub(r"//.*$", "", rest)
    toks = []
    i = 0
    while i < len(rest):
        if rest[i].isspace() or rest[i] == ",":
            i += 1
            continue
        m2 = re.match(r"[A-Za-z_]\w*", rest[i:])
        if not m2:
            raise AnalysisError("cannot tokenise pragma: %s" % full.strip())
        name = m2.group(0)
        i += len(name)
        j = i
        while j < len(rest) and rest[j].isspace():
            j += 1
        arg = None
        if j < len(rest) and rest[j] == "(":
            depth = 0
            k = j
            while k < len(rest):
                if rest[k] == "(":
                    depth += 1
                elif rest[k] == ")":
                    depth -= 1
                    if depth == 0:
                        break
                k += 1
            if depth != 0:
                raise AnalysisError("unbalanced parentheses in pragma: %s" % full.strip())
            arg = re.sub(r"\s+", " ", rest[j + 1:k]).strip()
            i = k + 1
        toks.append((name, arg))
    dirw = []
    while toks and toks[0][0] in _DIRWORDS and (toks[0][1] is None or toks[0][0] in ("critical", "flush")):
        if expect is not None and not (expect + " ").startswith(" ".join(dirw + [toks[0][0]]) + " "):
            break   # e.g. `for ordered`: `ordered` is a clause of the `for` directive
        dirw.append(toks.pop(0)[0])
    directive = " ".join(dirw)
    for name, arg in toks:
        if name not in KNOWN_CLAUSES:
            raise AnalysisError("unrecognised OpenMP clause %r in: %s" % (name, full.strip()))
        if name == "default" and arg not in ("shared", "none"):
            raise AnalysisError("default(%s) changes the data-sharing of every variable (not modelled): %s" % (
                arg, full.strip()))
    return Pragma(re.sub(r"\s+", " ", full).strip(), directive, toks)


# ----------------------------------------------------------------------------
# functions, points-to, summaries
# ----------------------------------------------------------------------------
def _minimal(sets):
    """keep only the inclusion-minimal sets (a superset is implied by its subset)"""
    out = []
    for d in sorted(set(sets), key=lambda x: (len(x), sorted(map(str, x)))):
        if not any(o <= d for o in out):
            out.append(d)
    return frozenset(out[:48])


class Summary:
    def __init__(self):
        self.writes = set()    # parameter indices written through
        # parameter index -> set of frozensets: for every store through that parameter, the
        # parameters whose *values* flow (assignments, loop initialisers) into the store's address
        self.wdeps = {}
        self.gwrites = set()   # names of globals (or statics) written
        self.returns = set()   # parameter indices / "alloc" / "unknown" the result may point to
        self.unresolved = set()  # descriptions of function-pointer calls without targets
        self.orphan_omp = False

    def key(self):
        return (frozenset(self.writes), frozenset(self.gwrites), frozenset(self.returns),
                frozenset(self.unresolved), frozenset((k, v) for k, v in self.wdeps.items()))


class Func:
    def __init__(self, prog, tu, decl):
        self.prog = prog
        self.tu = tu
        self.decl = decl
        self.name = decl["name"]
        self.params = [c for c in kids(decl) if c["kind"] == "ParmVarDecl"]
        self.pidx = {p["id"]: i for i, p in enumerate(self.params)}
        self.body = None
        for c in kids(decl):
            if c["kind"] == "CompoundStmt":
                self.body = c
        self.vars = {p["id"]: p for p in self.params}
        self.statics = set()
        self.assigns = []  # (lhs lvalue node | VarDecl node, rhs node)
        self.stores = []   # lvalue nodes
        self.cassigns = []  # (lhs, rhs|None) of compound assignments and ++/--
        self.dep = {}      # var id -> parameter indices whose values flow into it
        self._refs_cache = {}
        self.calls = []
        self.returns = []
        self.regions = []  # OMP parallel directive nodes (outermost)
        self.has_omp_outside_region = False
        self.pts = {}
        for i, p in enumerate(self.params):
            self.dep[p["id"]] = {i}
            if ptrish(qt(p)):
                self.pts[p["id"]] = {("param", i)}
        self._collect()

    # -- one pass over the body ---------------------------------------------
    def _collect(self):
        if self.body is None:
            return
        todo = [(self.body, False, False)]
        while todo:
            n, inreg, prot = todo.pop()
            k = n.get("kind")
            ok = omp_kind(n)
            if ok:
                prot2 = prot
                if ok in PARALLEL:
                    if not inreg:
                        self.regions.append(n)
                    inreg2 = True
                else:
                    orphan_ok = ok in NOOP or ok in SIMD or PROTECT.get(ok) in MUTEX
                    if not inreg and not orphan_ok:
                        self.has_omp_outside_region = True
                    if PROTECT.get(ok) in MUTEX:
                        prot2 = True   # orphaned critical/atomic in a helper: its stores are mutually exclusive
                    inreg2 = inreg
                for c in children(n):
                    todo.append((c, inreg2, prot2))
                continue
            if k == "VarDecl":
                self.vars[n["id"]] = n
                off = n.get("range", {}).get("begin", {}).get("offset")
                if off is not None and re.match(r"static\b", self.tu.text[off:off + 7]):
                    self.statics.add(n["id"])
                init = var_init(n)
                if init is not None:
                    self.assigns.append((n, init))
            elif k == "BinaryOperator" and n.get("opcode") == "=":
                a, b = kids(n)
                self.assigns.append((a, b))
                if not (prot and not inreg):
                    self.stores.append(a)
            elif k == "CompoundAssignOperator":
                if not (prot and not inreg):
                    self.stores.append(kids(n)[0])
                self.cassigns.append((kids(n)[0], kids(n)[1]))
            elif k == "UnaryOperator" and n.get("opcode") in ("++", "--"):
                if not (prot and not inreg):
                    self.stores.append(kids(n)[0])
            elif k == "CallExpr":
                self.calls.append(n)
            elif k == "ReturnStmt":
                if kids(n):
                    self.returns.append(kids(n)[0])
            for c in reversed(children(n)):
                todo.append((c, inreg, prot))

    # -- objects --------------------------------------------------------------
    def obj_of_var(self, rd):
        if rd["id"] in self.vars and rd["id"] not in self.statics:
            return ("var", rd["id"])
        return ("global", rd.get("name", "?"))

    def content(self, obj):
        if obj[0] in ("param", "global", "unknown"):
            return {obj}
        if obj[0] == "var":
            return self.pts.get(obj[1], set())
        return self.pts.get(obj, set())

    def pts_expr(self, e):
        """objects a pointer-valued (or struct-valued) rvalue may point into"""
        e = strip(e)
        k = e.get("kind")
        if k in ("DeclRefExpr", "MemberExpr", "ArraySubscriptExpr") and is_arith(qt(e)):
            return set()   # an arithmetic value loaded from memory carries no address
        if k == "DeclRefExpr":
            rd = e["referencedDecl"]
            if rd.get("kind") == "FunctionDecl":
                return set()
            if is_array(qt(rd)):
                return {self.obj_of_var(rd)}
            return set(self.content(self.obj_of_var(rd)))
        if k in ("MemberExpr", "ArraySubscriptExpr") or (k == "UnaryOperator" and e.get("opcode") == "*"):
            objs = self.objects(e)
            if is_array(qt(e)):
                return objs
            out = set()
            for o in objs:
                out |= self.content(o)
            return out
        if k == "UnaryOperator":
            op = e.get("opcode")
            if op == "&":
                return self.objects(kids(e)[0])
            if op in ("++", "--"):
                return self.pts_expr(kids(e)[0])
            return set()
        if k == "BinaryOperator":
            op = e.get("opcode")
            a, b = kids(e)
            if op in (",", "="):
                return self.pts_expr(b)
            if op in ("+", "-", "&", "|", "^", "*", "/", "%", "<<", ">>"):
                # pointer arithmetic, including alignment idioms on uintptr_t
                return self.pts_expr(a) | self.pts_expr(b)
            return set()
        if k == "CompoundAssignOperator":
            return self.pts_expr(kids(e)[0])
        if k == "ConditionalOperator":
            c = kids(e)
            return self.pts_expr(c[1]) | self.pts_expr(c[2])
        if k == "InitListExpr":
            out = set()
            for c in kids(e):
                if ptrish(qt(c)):
                    out |= self.pts_expr(c)
            return out
        if k == "CallExpr":
            return self.call_result(e)
        return set()

    def objects(self, e):
        """objects an lvalue expression designates"""
        e = strip(e)
        k = e.get("kind")
        if k == "DeclRefExpr":
            return {self.obj_of_var(e["referencedDecl"])}
        if k == "ArraySubscriptExpr":
            a, b = kids(e)
            base = a if ptrish(qt(a)) else b
            return self.pts_expr(base)
        if k == "MemberExpr":
            if e.get("isArrow"):
                return self.pts_expr(kids(e)[0])
            return self.objects(kids(e)[0])
        if k == "UnaryOperator" and e.get("opcode") == "*":
            return self.pts_expr(kids(e)[0])
        if k == "ConditionalOperator":
            c = kids(e)
            return self.objects(c[1]) | self.objects(c[2])
        return set()

    def call_result(self, e):
        if not ptrish(qt(e)):
            return set()
        names, _ = self.prog.call_targets(self, e)
        args = kids(e)[1:]
        out = set()
        for nm in names:
            if nm in ALLOC:
                out.add(("alloc", e["id"]))
            elif nm in self.prog.funcs:
                for r in self.prog.summary[nm].returns:
                    if r == "alloc":
                        out.add(("alloc", e["id"]))
                    elif r == "unknown":
                        out.add(("unknown", nm))
                    elif isinstance(r, int) and r < len(args):
                        out |= self.pts_expr(args[r])
                    elif isinstance(r, tuple):
                        out.add(r)
            else:
                out.add(("unknown", nm))
        return out

    # -- fixpoint step --------------------------------------------------------
    def _add(self, key, vals):
        if not vals:
            return False
        cur = self.pts.setdefault(key, set())
        n = len(cur)
        cur |= vals
        return len(cur) != n

    def refs(self, e):
        """decl ids referenced by e; the pseudo id "T" stands for a call of omp_get_thread_num()"""
        r = self._refs_cache.get(id(e))
        if r is None:
            ids = []
            for x in pwalk(e):
                if x.get("kind") == "DeclRefExpr":
                    rd = x["referencedDecl"]
                    if rd.get("kind") != "FunctionDecl":
                        ids.append(rd["id"])
                    elif rd.get("name") == "omp_get_thread_num":
                        ids.append("T")
            r = tuple(ids)
            self._refs_cache[id(e)] = r
        return r

    def deps_of(self, e):
        """parameter indices (and "T" = the executing thread's id) whose values flow into e"""
        out = set()
        for i in self.refs(e):
            if i == "T":
                out.add("T")
                continue
            d = self.dep.get(i)
            if d:
                out |= d
        return out

    def _dep_add(self, vid, vals):
        if not vals:
            return False
        cur = self.dep.setdefault(vid, set())
        n = len(cur)
        cur |= vals
        return len(cur) != n

    def _dep_step(self):
        ch = False
        for lhs, rhs in self.assigns:
            if lhs.get("kind") == "VarDecl":
                ch |= self._dep_add(lhs["id"], self.deps_of(rhs))
            else:
                val = self.deps_of(rhs)
                l = strip(lhs)
                if l.get("kind") != "DeclRefExpr":
                    val = val | self.deps_of(lhs)
                for o in self.objects(lhs):
                    if o[0] == "var":
                        ch |= self._dep_add(o[1], val)
        for lhs, rhs in self.cassigns:
            val = self.deps_of(rhs) | self.deps_of(lhs)
            for o in self.objects(lhs):
                if o[0] == "var":
                    ch |= self._dep_add(o[1], val)
        for c in self.calls:
            names, _ = self.prog.call_targets(self, c)
            args = kids(c)[1:]
            val = None
            for nm in names:
                w, _, _ = self.prog.callee_effects(nm, args)
                for i in w:
                    if i < len(args):
                        for o in self.pts_expr(args[i]):
                            if o[0] == "var":
                                if val is None:
                                    val = set()
                                    for a in args:
                                        val |= self.deps_of(a)
                                ch |= self._dep_add(o[1], val)
        return ch

    def step(self):
        """one round of points-to and value-dependency propagation; True if something changed"""
        ch = self._dep_step()
        for lhs, rhs in self.assigns:
            if lhs.get("kind") == "VarDecl":
                if not ptrish(qt(lhs)):
                    continue
                key = lhs["id"]
                if key in self.statics:
                    continue
                ch |= self._add(key, self.pts_expr(rhs))
            else:
                if not ptrish(qt(lhs)):
                    continue
                val = self.pts_expr(rhs)
                if not val:
                    continue
                for o in self.objects(lhs):
                    if o[0] == "var":
                        ch |= self._add(o[1], val)
                    elif o[0] == "alloc":
                        ch |= self._add(o, val)
        return ch

    def summarise(self):
        s = Summary()
        s.orphan_omp = self.has_omp_outside_region
        wd = {}
        for lv in self.stores:
            for o in self.objects(lv):
                if o[0] == "param":
                    s.writes.add(o[1])
                    wd.setdefault(o[1], set()).add(frozenset(self.deps_of(lv)))
                elif o[0] == "global":
                    s.gwrites.add(o[1])
        for c in self.calls:
            names, indirect = self.prog.call_targets(self, c)
            args = kids(c)[1:]
            if indirect and not names:
                s.unresolved.add("%s:%s" % (self.name, self.tu.text_of(kids(c)[0])))
            for nm in names:
                w, g, unres = self.prog.callee_effects(nm, args)
                s.gwrites |= g
                s.unresolved |= unres
                for i in w:
                    if i < len(args):
                        for o in self.pts_expr(args[i]):
                            if o[0] == "param":
                                s.writes.add(o[1])
                                for d in self.prog.callee_wdeps(nm, i):
                                    t = set()
                                    for j in d:
                                        if j == "T":
                                            t.add("T")
                                        elif j < len(args):
                                            t |= self.deps_of(args[j])
                                    wd.setdefault(o[1], set()).add(frozenset(t))
                            elif o[0] == "global":
                                s.gwrites.add(o[1])
        s.wdeps = {k: _minimal(v) for k, v in wd.items()}
        if ptrish(re.sub(r"\(.*$", "", qt(self.decl))):
            for r in self.returns:
                for o in self.pts_expr(r):
                    if o[0] == "param":
                        s.returns.add(o[1])
                    elif o[0] == "alloc":
                        s.returns.add("alloc")
                    elif o[0] == "global":
                        s.returns.add(o)
                    elif o[0] == "unknown":
                        s.returns.add("unknown")
        return s


class Program:
    def __init__(self, tus, fp_seeds=None, gtables=None):
        """tus: dict rel -> cfacts.TU.  fp_seeds: {(function, param index): set(target names)}.
        gtables: {global variable name: set(function names)} -- constant tables of function pointers"""
        self.tus = tus
        self.global_fp = {k: set(v) for k, v in (gtables or {}).items()}
        self.funcs = {}
        for rel, tu in tus.items():
            for name, d in tu.funcs.items():
                if name in self.funcs:
                    # same name defined in two translation units (static helpers): keep both
                    # under the first, analyse the second under a qualified name
                    name = "%s@%s" % (name, rel)
                self.funcs[name] = Func(self, tu, d)
        self.summary = {n: Summary() for n in self.funcs}
        self.fp = {}  # (function name, var id) -> set of function names
        self.fp_seeds = fp_seeds or {}
        for (fn, k), targets in self.fp_seeds.items():
            f = self.funcs.get(fn)
            if f is None:
                raise AnalysisError("function-pointer table names driver %s, which no analysed "
                                    "translation unit defines" % fn)
            if k >= len(f.params):
                raise AnalysisError("function-pointer table: %s has no parameter %d" % (fn, k))
            self.fp.setdefault((fn, f.params[k]["id"]), set()).update(targets)
        self.unknown_externals = {}
        self._solve()

    # -- calls -----------------------------------------------------------------
    def fp_of_expr(self, func, e):
        e = strip(e)
        if e.get("kind") == "UnaryOperator" and e.get("opcode") in ("&", "*"):
            e = strip(kids(e)[0])
        while e.get("kind") in ("ArraySubscriptExpr", "MemberExpr"):
            ks = kids(e)
            if not ks:
                break
            # element of a table of function pointers: any entry of the table
            e = strip(ks[0] if e["kind"] == "MemberExpr" or ptrish(qt(ks[0])) else ks[1])
        if e.get("kind") == "DeclRefExpr":
            rd = e["referencedDecl"]
            if rd.get("kind") == "FunctionDecl":
                return {rd["name"]}
            out = set(self.fp.get((func.name, rd["id"]), ()))
            if rd["id"] not in func.vars:
                out |= self.global_fp.get(rd.get("name"), set())
            return out
        if e.get("kind") == "ConditionalOperator":
            c = kids(e)
            return self.fp_of_expr(func, c[1]) | self.fp_of_expr(func, c[2])
        return set()

    def call_targets(self, func, call):
        """-> (sorted target names, is_indirect)"""
        c = strip(kids(call)[0])
        if c.get("kind") == "UnaryOperator" and c.get("opcode") == "*":
            c = strip(kids(c)[0])
        if c.get("kind") == "DeclRefExpr" and c["referencedDecl"].get("kind") == "FunctionDecl":
            return [c["referencedDecl"]["name"]], False
        return sorted(self.fp_of_expr(func, c)), True

    def callee_effects(self, name, args):
        """-> (written argument indices, globals written, unresolved descriptions)"""
        if name in self.funcs:
            s = self.summary[name]
            return set(s.writes), set(s.gwrites), set(s.unresolved)
        if name in ALLOC:
            return set(), set(), set()
        if name in EXTERN_WRITES:
            return set(EXTERN_WRITES[name]), set(), set()
        if any(ptrish(qt(a)) for a in args):
            self.unknown_externals[name] = True
            return set(), set(), {"external function %s with pointer arguments is not in the "
                                  "output-argument table" % name}
        return set(), set(), set()

    def callee_wdeps(self, name, i):
        """address-dependency sets of the stores callee `name` makes through its parameter i"""
        if name in self.funcs:
            return self.summary[name].wdeps.get(i) or frozenset([frozenset([i])])
        return frozenset([frozenset([i])])

    def _solve(self):
        for _ in range(60):
            ch = False
            for f in self.funcs.values():
                # function-pointer flow
                for lhs, rhs in f.assigns:
                    t = self.fp_of_expr(f, rhs)
                    if not t:
                        continue
                    if lhs.get("kind") == "VarDecl":
                        key = (f.name, lhs["id"])
                    else:
                        l = strip(lhs)
                        if l.get("kind") != "DeclRefExpr":
                            continue
                        key = (f.name, l["referencedDecl"]["id"])
                    cur = self.fp.setdefault(key, set())
                    if not t <= cur:
                        cur |= t
                        ch = True
                for c in f.calls:
                    names, _ = self.call_targets(f, c)
                    args = kids(c)[1:]
                    for nm in names:
                        g = self.funcs.get(nm)
                        if g is None:
                            continue
                        for i, a in enumerate(args):
                            if i >= len(g.params):
                                break
                            t = self.fp_of_expr(f, a)
                            if t:
                                cur = self.fp.setdefault((g.name, g.params[i]["id"]), set())
                                if not t <= cur:
                                    cur |= t
                                    ch = True
                while f.step():
                    ch = True
                s = f.summarise()
                if s.key() != self.summary[f.name].key():
                    self.summary[f.name] = s
                    ch = True
            if not ch:
                return
        raise AnalysisError("write summaries did not reach a fixpoint in 60 rounds")


# ----------------------------------------------------------------------------
# regions
# ----------------------------------------------------------------------------
class WSLoop:
    def __init__(self, node, pragma, ivs, names):
        self.node = node
        self.id = node["id"]
        self.pragma = pragma
        self.ivs = ivs          # decl ids of the (collapsed) induction variables
        self.iv_names = names
        self.seq0 = 0           # program-order interval of the loop inside its region
        self.seq1 = 0


class Ctx:
    __slots__ = ("ws", "prot", "privs", "ctrl", "pnode", "arms")

    def __init__(self, ws=(), prot=None, privs=frozenset(), ctrl=(), pnode=None, arms=()):
        self.ws = ws
        self.prot = prot
        self.privs = privs
        self.ctrl = ctrl
        self.pnode = pnode   # id of the protecting construct (single/master/section/critical...)
        self.arms = arms     # ((if/switch node id, arm index, condition, ctx at the statement), ...)

    def but(self, **kw):
        c = Ctx(self.ws, self.prot, self.privs, self.ctrl, self.pnode, self.arms)
        for k, v in kw.items():
            setattr(c, k, v)
        return c


class Item:
    """one classified store / call output argument"""
    __slots__ = ("kind", "node", "expr", "cls", "why", "base", "objs", "line", "text", "callee", "argi",
                 "ctx", "phase", "labs")

    def __init__(self, **kw):
        for k in self.__slots__:
            setattr(self, k, kw.get(k))


class Region:
    def __init__(self, prog, func, node, ordinal, exceptions=None):
        self.prog = prog
        self.func = func
        self.tu = func.tu
        self.node = node
        self.ordinal = ordinal
        self.kind = PARALLEL[node["kind"]]
        self.pragma = pragma_of(self.tu, node, self.kind)
        if self.pragma.directive != self.kind:
            raise AnalysisError("%s: pragma text %r does not match AST node %s" % (
                func.name, self.pragma.text, node["kind"]))
        self.line = self.tu.line_of(node)
        self.body = omp_body(node)
        if self.body is None:
            raise AnalysisError("%s: parallel region without body" % func.name)
        self.exceptions = exceptions or {}
        self.inside = set()
        self.alloc_prot = {}    # CallExpr id of an allocation inside the region -> protection kind or None
        self.labels = {}        # private var id -> set(labels)
        self.nt_vars = set()    # variables derived from the thread count
        self.assign_ev = []     # (target id, rhs, ctx)
        self.store_ev = []      # (node, lhs, rhs, ctx)
        self.call_ev = []       # (node, ctx)
        self.directives = []    # (kind, node, ctx, pragma)
        self.ws_loops = []
        self.items = []
        self.nesting = []       # (node, message)
        self.nonuniform = []    # (directive node, kind, reason)
        self.uniform_ok = []
        self.tid_scratch = []   # (ok, description, node)
        # barrier phases: events of one phase may run concurrently in different threads; a barrier
        # (explicit, or implied at the end of for/sections/single without nowait) starts a new phase
        self.phase = 0
        self.nphase = 1
        self.mhp = set()        # pairs of distinct phases that may still overlap (loop back edges)
        self.phase_of = {}      # id(event node) -> phase
        self.read_ev = []       # (node, ctx, phase)
        self._noread = set()    # id(node) of lvalues that are stored to / address-taken, not loaded
        self.barrier_deps = []  # (description) dependences between differently partitioned accesses, ordered
        self.barrier_conflicts = []  # (kind, w item-like, r, description)
        self.block_clips = []   # (ok, description, node, text)
        self.block_covers = []  # (ok, description, node, text)
        self.partials = []      # (ok, description, node, detail)
        self.seq = 0            # program order of visited nodes
        self.seq_of = {}
        self.decl_seq = {}      # var id -> seq of its declaration inside the region
        self.team_splits = []   # (ok, description, node, text)
        self.nt_src = {}        # var id -> {"num", "max"}: derived from omp_get_num_threads()/max_threads()
                                # anywhere in the function (also before the region)
        self.region_privs = self._clause_vars(node, self.pragma, ("private", "firstprivate", "lastprivate",
                                                                  "reduction"))
        self.reduction_ids = self._clause_vars(node, self.pragma, ("reduction",))
        self._refs_cache = {}
        self._run()

    # -- clauses --------------------------------------------------------------
    def _clause_vars(self, node, pragma, names):
        want = []
        for nm in names:
            want += pragma.varlist(nm)
        if not want:
            return frozenset()
        byname = {}
        for c in node.get("inner") or []:
            if isinstance(c, dict) and not c.get("kind"):
                for x in c.get("inner") or []:
                    if isinstance(x, dict) and x.get("kind") == "DeclRefExpr":
                        byname.setdefault(x["referencedDecl"]["name"], x["referencedDecl"]["id"])
        out = set()
        for v in want:
            if v in byname:
                out.add(byname[v])
                continue
            cands = [i for i, d in self.func.vars.items() if d.get("name") == v]
            if len(cands) != 1:
                raise AnalysisError("%s: cannot resolve clause variable %r of: %s" % (
                    self.func.name, v, pragma.text))
            out.add(cands[0])
        return frozenset(out)

    def _ws_loop(self, node, pragma):
        depth = pragma.collapse()
        cur = omp_body(node)
        ivs, names, headers = [], [], []
        for d in range(depth):
            while cur is not None and cur.get("kind") in ("CompoundStmt", "AttributedStmt") and len(kids(cur)) >= 1:
                ks = [c for c in kids(cur) if not c["kind"].endswith("Attr")]
                if len(ks) != 1:
                    break
                cur = ks[0]
            if cur is None or cur.get("kind") != "ForStmt":
                raise AnalysisError("%s: worksharing directive not followed by %d nested for loop(s): %s" % (
                    self.func.name, depth, pragma.text))
            init, cond, inc, body = for_slots(cur)
            iv = None
            if init is not None and init["kind"] == "BinaryOperator" and init.get("opcode") == "=":
                l = strip(kids(init)[0])
                if l.get("kind") == "DeclRefExpr":
                    iv = (l["referencedDecl"]["id"], l["referencedDecl"]["name"])
            elif init is not None and init["kind"] == "DeclStmt":
                vs = [c for c in kids(init) if c["kind"] == "VarDecl"]
                if len(vs) == 1:
                    iv = (vs[0]["id"], vs[0]["name"])
            if iv is None:
                raise AnalysisError("%s: cannot find the induction variable of the loop under: %s" % (
                    self.func.name, pragma.text))
            ivs.append(iv[0])
            names.append(iv[1])
            # iteration-space text with the induction variable's name abstracted: two loops have provably the
            # same trip count only if these agree (used for the schedule(static) same-distribution argument)
            hdr = " ; ".join("" if x is None else re.sub(r"\s+", " ", self.tu.text_of(x)).strip()
                             for x in (init, cond, inc))
            headers.append(re.sub(r"\b%s\b" % re.escape(iv[1]), "@", re.sub(r"^\s*(?:int|long|size_t|unsigned)\s+", "", hdr)))
            cur = body
        w = WSLoop(node, pragma, tuple(ivs), tuple(names))
        w.headers = tuple(headers)
        return w

    # -- traversal --------------------------------------------------------------
    def _run(self):
        for n in pwalk(self.body):
            if n.get("kind") == "VarDecl":
                self.inside.add(n["id"])
        ctx = Ctx(privs=self.region_privs)
        if self.node["kind"] in WS:
            loop = self._ws_loop(self.node, self.pragma)
            self.ws_loops.append(loop)
            self.directives.append((self.kind, self.node, ctx, self.pragma))
            ctx = ctx.but(ws=(loop,), privs=ctx.privs | frozenset(loop.ivs))
        if self.node["kind"] in SECTIONS:
            self.directives.append((self.kind, self.node, ctx, self.pragma))
            self._visit_sections(self.body, ctx)
        else:
            self._visit(self.body, ctx)
        self._thread_count_vars()
        self._propagate()
        self._propagate_precise()
        self._classify()
        self._uniformity()
        self._barrier_order()
        self._block_clip()
        self._partial_aggregates()

    def _barrier(self):
        self.phase = self.nphase
        self.nphase += 1

    def _nt_kinds(self, e):
        out = set()
        for x in pwalk(e):
            if x.get("kind") == "DeclRefExpr":
                rd = x["referencedDecl"]
                if rd.get("kind") == "FunctionDecl":
                    if rd.get("name") == "omp_get_num_threads":
                        out.add("num")
                    elif rd.get("name") == "omp_get_max_threads":
                        out.add("max")
                else:
                    out |= self.nt_src.get(rd["id"], set())
        return out

    def _thread_count_vars(self):
        """function-wide: a thread count taken before the region (omp_get_max_threads()) is as good a
        size for a per-thread table as one taken inside"""
        f = self.func
        for _ in range(20):
            ch = False
            for lhs, rhs in f.assigns:
                if lhs.get("kind") == "VarDecl":
                    vid = lhs["id"]
                else:
                    l = strip(lhs)
                    if l.get("kind") != "DeclRefExpr":
                        continue
                    vid = l["referencedDecl"]["id"]
                if not is_arith(qt(f.vars.get(vid, {}))) and vid in f.vars:
                    continue
                k = self._nt_kinds(rhs)
                if k and not k <= self.nt_src.get(vid, set()):
                    self.nt_src.setdefault(vid, set()).update(k)
                    ch = True
            if not ch:
                break
        self.nt_vars |= set(self.nt_src)

    def _visit_sections(self, body, ctx):
        """the structured block of a sections construct: each `section` (the first one may be implicit) is
        executed once, by one thread"""
        stmts = kids(body) if body.get("kind") == "CompoundStmt" else [body]
        for c in stmts:
            if c.get("kind") in SECTION:
                b = omp_body(c)
                if b is not None:
                    self._visit(b, ctx.but(prot="section", pnode=c["id"]))
            else:
                self._visit(c, ctx.but(prot="section", pnode=c["id"]))

    def _has_barrier_point(self, n):
        for x in pwalk(n):
            ok = omp_kind(x)
            if ok and (ok in WS or ok in SECTIONS or ok in BARRIER or ok == "OMPSingleDirective"):
                return True
        return False

    def _visit(self, n, ctx):
        k = n.get("kind")
        self.seq += 1
        self.seq_of[id(n)] = self.seq
        ok = omp_kind(n)
        if ok:
            if ok in PARALLEL:
                raise AnalysisError("%s: nested parallel region at line %d is not modelled" % (
                    self.func.name, self.tu.line_of(n)))
            pragma = pragma_of(self.tu, n, expected_directive(ok))
            if ok in NOOP:
                return
            if ok in SECTIONS or ok in SECTION:
                if ok in SECTION:   # only reachable for a malformed tree; treat as a one-thread block
                    b = omp_body(n)
                    if b is not None:
                        self._visit(b, ctx.but(prot="section", pnode=n["id"]))
                    return
                if ctx.ws or ctx.prot:
                    self.nesting.append((n, "sections nested inside %s" % (
                        "a worksharing loop" if ctx.ws else ctx.prot)))
                self.directives.append(("sections", n, ctx, pragma))
                privs = ctx.privs | self._clause_vars(
                    n, pragma, ("private", "firstprivate", "lastprivate", "reduction"))
                self.reduction_ids = self.reduction_ids | self._clause_vars(n, pragma, ("reduction",))
                self._visit_sections(omp_body(n), ctx.but(privs=privs))
                if not pragma.has("nowait"):
                    self._barrier()
                return
            if ok in SIMD:
                loop = self._ws_loop(n, pragma)
                privs = ctx.privs | frozenset(loop.ivs) | self._clause_vars(
                    n, pragma, ("private", "lastprivate", "reduction", "linear"))
                self._visit(omp_body(n), ctx.but(privs=privs))
                return
            if ok in WS:
                if pragma.directive != WS[ok]:
                    raise AnalysisError("%s: pragma %r does not match %s" % (self.func.name, pragma.text, ok))
                if ctx.ws or ctx.prot:
                    self.nesting.append((n, "worksharing loop nested inside %s" % (
                        "another worksharing loop" if ctx.ws else ctx.prot)))
                loop = self._ws_loop(n, pragma)
                self.ws_loops.append(loop)
                self.directives.append(("for", n, ctx, pragma))
                privs = ctx.privs | frozenset(loop.ivs) | self._clause_vars(
                    n, pragma, ("private", "firstprivate", "lastprivate", "reduction", "linear"))
                self.reduction_ids = self.reduction_ids | self._clause_vars(n, pragma, ("reduction",))
                loop.seq0 = self.seq
                self._visit(omp_body(n), ctx.but(ws=ctx.ws + (loop,), privs=privs))
                loop.seq1 = self.seq
                if not pragma.has("nowait"):
                    self._barrier()
                return
            if ok in PROTECT:
                kind = PROTECT[ok]
                if pragma.directive != kind:
                    raise AnalysisError("%s: pragma %r does not match %s" % (self.func.name, pragma.text, ok))
                if kind in ONE_THREAD:
                    if ctx.ws or ctx.prot:
                        self.nesting.append((n, "%s nested inside %s" % (
                            kind, "a worksharing loop" if ctx.ws else ctx.prot)))
                    self.directives.append((kind, n, ctx, pragma))
                b = omp_body(n)
                if b is not None:
                    privs = ctx.privs | self._clause_vars(n, pragma, ("private", "firstprivate"))
                    self._visit(b, ctx.but(prot=kind, privs=privs, pnode=n["id"]))
                if kind == "single" and not pragma.has("nowait"):
                    self._barrier()   # implied barrier at the END of single (none at its entry)
                return
            if ok in BARRIER:
                if ctx.ws or ctx.prot:
                    self.nesting.append((n, "barrier nested inside %s" % (
                        "a worksharing loop" if ctx.ws else ctx.prot)))
                self.directives.append(("barrier", n, ctx, pragma))
                self._barrier()
                return
            raise AnalysisError("%s: OpenMP construct %s at line %d is not modelled" % (
                self.func.name, ok, self.tu.line_of(n)))
        if k == "VarDecl":
            self.decl_seq[n["id"]] = self.seq
            init = var_init(n)
            if init is not None:
                self.assign_ev.append((n["id"], init, ctx))
                self.seq_of[id(init)] = self.seq
                self._visit(init, ctx)
            return
        if k in ("ArraySubscriptExpr", "MemberExpr", "DeclRefExpr") or (
                k == "UnaryOperator" and n.get("opcode") == "*"):
            if id(n) not in self._noread and not is_array(qt(n)) and not (
                    k == "DeclRefExpr" and n["referencedDecl"].get("kind") == "FunctionDecl"):
                self.read_ev.append((n, ctx, self.phase))
        if k == "BinaryOperator" and n.get("opcode") == "=":
            a, b = kids(n)
            self.store_ev.append((n, a, b, ctx))
            self.phase_of[id(n)] = self.phase
            self._noread.add(id(strip(a)))
        elif k == "CompoundAssignOperator":
            a, b = kids(n)
            self.store_ev.append((n, a, b, ctx))
            self.phase_of[id(n)] = self.phase
            self._noread.add(id(strip(a)))
        elif k == "UnaryOperator" and n.get("opcode") in ("++", "--"):
            self.store_ev.append((n, kids(n)[0], None, ctx))
            self.phase_of[id(n)] = self.phase
            self._noread.add(id(strip(kids(n)[0])))
        elif k == "UnaryOperator" and n.get("opcode") == "&":
            self._noread.add(id(strip(kids(n)[0])))
        elif k == "CallExpr":
            self.call_ev.append((n, ctx))
            self.phase_of[id(n)] = self.phase
            names, _ = self.prog.call_targets(self.func, n)
            if any(nm in ALLOC for nm in names) or any(
                    "alloc" in self.prog.summary[nm].returns for nm in names if nm in self.prog.funcs):
                self.alloc_prot[n["id"]] = ctx.prot
        elif k == "ForStmt":
            init, cond, inc, body = for_slots(n)
            own = set()
            exprs = []
            if init is not None:
                self._visit(init, ctx)
                if init["kind"] == "BinaryOperator" and init.get("opcode") == "=":
                    l = strip(kids(init)[0])
                    if l.get("kind") == "DeclRefExpr":
                        own.add(l["referencedDecl"]["id"])
                    exprs.append(kids(init)[1])
                elif init["kind"] == "DeclStmt":
                    for v in kids(init):
                        if v["kind"] == "VarDecl":
                            own.add(v["id"])
                            if var_init(v) is not None:
                                exprs.append(var_init(v))
                else:
                    exprs.append(init)
            for x in (cond, inc):
                if x is not None:
                    self._visit(x, ctx)
                    exprs.append(x)
            if body is not None:
                self._loop_body(body, [body], ctx.but(ctrl=ctx.ctrl + (("for", n, frozenset(own), tuple(exprs)),)))
            return
        elif k == "IfStmt":
            ks = kids(n)
            cond = ks[0]
            self._visit(cond, ctx)
            sub = ctx.but(ctrl=ctx.ctrl + (("if", n, frozenset(), (cond,)),))
            p0 = self.phase
            ends = []
            for arm, c in enumerate(ks[1:]):
                self.phase = p0
                self._visit(c, sub.but(arms=ctx.arms + ((n["id"], arm, cond, ctx),)))
                ends.append(self.phase)
            if any(e != p0 for e in ends):
                # a barrier on some branch: what follows is treated as ordered after what precedes
                # (under-approximation of concurrency: never the source of a report)
                self._barrier()
            else:
                self.phase = p0
            return
        elif k in ("WhileStmt", "SwitchStmt"):
            ks = kids(n)
            cond = ks[0]
            self._visit(cond, ctx)
            sub = ctx.but(ctrl=ctx.ctrl + ((k[:-4].lower(), n, frozenset(), (cond,)),))
            if k == "WhileStmt":
                self._loop_body(n, ks[1:], sub)
            else:
                groups = self._switch_groups(ks[1]) if len(ks) == 2 else None
                if groups is None:
                    for c in ks[1:]:
                        self._visit(c, sub)
                else:
                    # break-separated case groups are mutually exclusive paths, like the arms of an if
                    p0 = self.phase
                    ends = []
                    for arm, grp in enumerate(groups):
                        self.phase = p0
                        g_ctx = sub.but(arms=ctx.arms + ((n["id"], arm, cond, ctx),))
                        for c in grp:
                            self._visit(c, g_ctx)
                        ends.append(self.phase)
                    if any(e != p0 for e in ends):
                        self._barrier()
                    else:
                        self.phase = p0
            return
        elif k == "DoStmt":
            ks = kids(n)
            cond = ks[-1]
            self._visit(cond, ctx)
            sub = ctx.but(ctrl=ctx.ctrl + (("do", n, frozenset(), (cond,)),))
            self._loop_body(n, ks[:-1], sub)
            return
        elif k == "ReturnStmt":
            raise AnalysisError("%s: return inside a parallel region" % self.func.name)
        for c in children(n):
            self._visit(c, ctx)

    def _switch_groups(self, body):
        """statements of a switch body grouped by case label, if every group but the last ends in a jump
        (no fall-through) and no statement precedes the first label; else None"""
        if body.get("kind") != "CompoundStmt":
            return None
        groups = []
        for c in kids(body):
            if c.get("kind") in ("CaseStmt", "DefaultStmt"):
                groups.append([c])
            elif not groups:
                return None
            else:
                groups[-1].append(c)
        if len(groups) < 2:
            return None
        for g in groups[:-1]:
            body_stmts = [c for c in g if c.get("kind") != "NullStmt"]
            last = body_stmts[-1]
            while last.get("kind") in ("CaseStmt", "DefaultStmt") and kids(last):
                last = kids(last)[-1]
            if last.get("kind") == "CompoundStmt" and kids(last):
                last = kids(last)[-1]
            if last.get("kind") not in ("BreakStmt", "ReturnStmt", "ContinueStmt", "GotoStmt"):
                return None
        return groups

    def _loop_body(self, scope, stmts, ctx):
        """body of a serial loop.  If it contains barrier points, its first phase overlaps both the phase
        before the loop and (back edge) the last phase of the body; the loop is assumed to run at least once."""
        if not any(self._has_barrier_point(c) for c in stmts):
            for c in stmts:
                self._visit(c, ctx)
            return
        before = self.phase
        self._barrier()
        first = self.phase
        self.mhp.add((before, first))
        for c in stmts:
            self._visit(c, ctx)
        if self.phase != first:
            self.mhp.add((self.phase, first))

    # -- label propagation ------------------------------------------------------
    def _refs(self, e):
        r = self._refs_cache.get(id(e))
        if r is None:
            ids, tid, nt = [], False, False
            for x in pwalk(e):
                if x.get("kind") == "DeclRefExpr":
                    rd = x["referencedDecl"]
                    if rd.get("kind") == "FunctionDecl":
                        if rd.get("name") == "omp_get_thread_num":
                            tid = True
                        elif rd.get("name") in NTHREADS_FUNCS:
                            nt = True
                    else:
                        ids.append(rd["id"])
            r = (tuple(ids), tid, nt)
            self._refs_cache[id(e)] = r
        return r

    def taint(self, e, ctx, skip=()):
        ids, tid, _ = self._refs(e)
        out = set()
        if tid:
            out.add(TID)
        allowed = {l.id for l in ctx.ws}
        for i in ids:
            if i in skip:
                continue
            for lab in self.labels.get(i, ()):
                if lab == TID or lab in allowed or (isinstance(lab, tuple) and lab[0] in allowed):
                    out.add(lab)
        return out

    def _missing_collapsed(self, labs, ctx):
        """names of collapsed worksharing variables the address does not depend on (empty = the address
        distinguishes every iteration tuple).  An address indexed by the thread id is a private slice."""
        if TID in labs:
            return []
        miss = []
        for l in ctx.ws:
            if l.id in labs and len(l.ivs) > 1:
                miss += [l.iv_names[k_] for k_ in range(len(l.ivs)) if (l.id, k_) not in labs]
        return miss

    def is_private_var(self, vid, ctx):
        if vid in self.func.statics:
            return False
        return vid in self.inside or vid in ctx.privs

    def obj_private(self, o, ctx):
        if o[0] == "var":
            return self.is_private_var(o[1], ctx)
        if o[0] == "alloc":
            return o[1] in self.alloc_prot and self.alloc_prot[o[1]] not in ONE_THREAD
        return False

    def _propagate(self):
        for loop in self.ws_loops:
            for k_, iv in enumerate(loop.ivs):
                # label of the loop, plus one label per collapsed variable: with collapse(n) the unit of
                # work handed to a thread is the TUPLE of the n variables
                self.labels.setdefault(iv, set()).update((loop.id, (loop.id, k_)))
        f = self.func
        for _ in range(50):
            ch = False

            def add(vid, labs):
                nonlocal ch
                if labs:
                    cur = self.labels.setdefault(vid, set())
                    if not labs <= cur:
                        cur |= labs
                        ch = True

            for vid, rhs, ctx in self.assign_ev:
                add(vid, self.taint(rhs, ctx))
                if self._refs(rhs)[2] or any(i in self.nt_vars for i in self._refs(rhs)[0]):
                    if vid not in self.nt_vars:
                        self.nt_vars.add(vid)
                        ch = True
            for node, lhs, rhs, ctx in self.store_ev:
                if rhs is None:
                    continue
                objs = f.objects(lhs)
                if not objs:
                    continue
                labs = self.taint(rhs, ctx) | self.taint(lhs, ctx, skip=self._root_ids(lhs))
                for o in objs:
                    if o[0] == "var" and self.is_private_var(o[1], ctx):
                        add(o[1], labs)
                l = strip(lhs)
                if l.get("kind") == "DeclRefExpr" and (
                        self._refs(rhs)[2] or any(i in self.nt_vars for i in self._refs(rhs)[0])):
                    if l["referencedDecl"]["id"] not in self.nt_vars:
                        self.nt_vars.add(l["referencedDecl"]["id"])
                        ch = True
            for node, ctx in self.call_ev:
                names, _ = self.prog.call_targets(f, node)
                args = kids(node)[1:]
                labs = set()
                for a in args:
                    labs |= self.taint(a, ctx)
                if not labs:
                    continue
                for nm in names:
                    w, _, _ = self.prog.callee_effects(nm, args)
                    for i in w:
                        if i < len(args):
                            for o in f.pts_expr(args[i]):
                                if o[0] == "var" and self.is_private_var(o[1], ctx):
                                    add(o[1], labs)
            if not ch:
                return
        raise AnalysisError("%s: label propagation did not converge" % f.name)

    # -- precise labels: does the value determine the worksharing variable? -------------------
    _LOSSY_Q = ("/", ">>")
    _LOSSY_R = ("%", "&")
    _LOSSY_C = ("<", ">", "<=", ">=", "==", "!=", "&&", "||")

    @staticmethod
    def _mk_lossy(kind, labs):
        return {lab if (isinstance(lab, tuple) and lab[0] in ("q", "r", "c")) else (kind, lab) for lab in labs}

    def ptaint(self, e, ctx, skip=()):
        """precise labels of an expression: (loop id, k) / TID if the value determines that worksharing
        variable / the thread id (injective operations, table look-ups assumed injective), or ("q"|"r"|"c",
        label) if it only depends on it through an integer quotient, a remainder, or a comparison"""
        allowed = {l.id for l in ctx.ws}
        return self._pt(e, allowed, set(skip))

    def _pt(self, e, allowed, skip):
        k = e.get("kind")
        if k == "DeclRefExpr":
            rd = e["referencedDecl"]
            if rd.get("kind") == "FunctionDecl":
                return {TID} if rd.get("name") == "omp_get_thread_num" else set()
            if rd["id"] in skip:
                return set()
            out = set()
            for lab in self.plabels.get(rd["id"], ()):
                b = lab[1] if (isinstance(lab, tuple) and lab[0] in ("q", "r", "c")) else lab
                if b == TID or (isinstance(b, tuple) and b[0] in allowed):
                    out.add(lab)
            return out
        out = set()
        ks = children(e)
        if k == "BinaryOperator":
            op = e.get("opcode")
            inner = set()
            for c in ks:
                inner |= self._pt(c, allowed, skip)
            integer = is_arith(qt(e)) and not re.search(r"double|float", qt(e))
            if op in self._LOSSY_Q and integer:
                return self._mk_lossy("q", inner)
            if op in self._LOSSY_R:
                return self._mk_lossy("r", inner)
            if op in self._LOSSY_C:
                return self._mk_lossy("c", inner)
            return inner
        if k == "ConditionalOperator" and len(ks) == 3:
            return self._mk_lossy("c", self._pt(ks[0], allowed, skip)) | self._pt(ks[1], allowed, skip) | \
                self._pt(ks[2], allowed, skip)
        if k == "UnaryOperator" and e.get("opcode") == "!":
            return self._mk_lossy("c", self._pt(ks[0], allowed, skip)) if ks else set()
        for c in ks:
            out |= self._pt(c, allowed, skip)
        return out

    def _propagate_precise(self):
        self.plabels = {}
        for loop in self.ws_loops:
            for k_, iv in enumerate(loop.ivs):
                self.plabels.setdefault(iv, set()).add((loop.id, k_))
        f = self.func
        for _ in range(50):
            ch = False

            def add(vid, labs):
                nonlocal ch
                if labs:
                    cur = self.plabels.setdefault(vid, set())
                    if not labs <= cur:
                        cur |= labs
                        ch = True

            for vid, rhs, ctx in self.assign_ev:
                add(vid, self.ptaint(rhs, ctx))
            for node, lhs, rhs, ctx in self.store_ev:
                if rhs is None:
                    continue
                labs = self.ptaint(rhs, ctx) | self.ptaint(lhs, ctx, skip=self._root_ids(lhs))
                for o in f.objects(lhs):
                    if o[0] == "var" and self.is_private_var(o[1], ctx):
                        add(o[1], labs)
            for node, ctx in self.call_ev:
                names, _ = self.prog.call_targets(f, node)
                args = kids(node)[1:]
                labs = set()
                for a in args:
                    labs |= self.ptaint(a, ctx)
                if not labs:
                    continue
                for nm in names:
                    w, _, _ = self.prog.callee_effects(nm, args)
                    for i in w:
                        if i < len(args):
                            for o in f.pts_expr(args[i]):
                                if o[0] == "var" and self.is_private_var(o[1], ctx):
                                    add(o[1], labs)
            if not ch:
                return
        raise AnalysisError("%s: precise label propagation did not converge" % f.name)

    def _lossy_only(self, pl, flat, ctx):
        """worksharing variables that the address depends on only through a quotient / remainder / comparison
        (several iterations -- possibly on different threads -- then share the address)"""
        if TID in pl:
            return []
        out = []
        for l in ctx.ws:
            if l.id not in flat:
                continue
            for k_ in range(len(l.ivs)):
                b = (l.id, k_)
                if b in pl or (("q", b) in pl and ("r", b) in pl):
                    continue
                kinds = [kd for kd in ("q", "r", "c") if (kd, b) in pl]
                if kinds:
                    out.append((l.iv_names[k_], kinds[0]))
        return out

    def _root_ids(self, lhs):
        l = strip(lhs)
        if l.get("kind") == "DeclRefExpr":
            return (l["referencedDecl"]["id"],)
        return ()

    # -- classification -----------------------------------------------------------
    def _base_name(self, e):
        e = strip(e)
        k = e.get("kind")
        if k == "DeclRefExpr":
            return e["referencedDecl"]["name"]
        if k in ("ArraySubscriptExpr",):
            a, b = kids(e)
            return self._base_name(a if ptrish(qt(a)) else b)
        if k in ("MemberExpr", "UnaryOperator", "CompoundAssignOperator"):
            return self._base_name(kids(e)[0])
        if k == "BinaryOperator":
            a, b = kids(e)
            if e.get("opcode") in (",", "="):
                return self._base_name(b)
            return self._base_name(a if ptrish(qt(a)) else b)
        if k == "ConditionalOperator":
            return self._base_name(kids(e)[1])
        return self.tu.text_of(e)[:30]

    def _describe(self, objs):
        out = []
        for o in sorted(objs, key=str):
            if o[0] == "param":
                out.append("*%s" % self.func.params[o[1]]["name"])
            elif o[0] == "global":
                out.append("global %s" % o[1])
            elif o[0] == "var":
                out.append("variable %s" % self.func.vars[o[1]].get("name", "?"))
            elif o[0] == "alloc":
                if o[1] not in self.alloc_prot:
                    out.append("heap block allocated outside the region")
                elif self.alloc_prot[o[1]] in ONE_THREAD:
                    out.append("heap block allocated once (omp %s) inside the region" % self.alloc_prot[o[1]])
                else:
                    out.append("heap block allocated by each thread inside the region")
            else:
                out.append("result of %s" % o[1])
        return ", ".join(out)

    def _decide(self, expr, objs, ctx, direct_var=None, depsets=None, args=None):
        """-> (class, why)"""
        if not objs:
            return "unresolved", "the analysis found no object for this address"
        if direct_var is not None and direct_var in self.reduction_ids:
            return "reduction", "reduction variable"
        shared = [o for o in objs if not self.obj_private(o, ctx)]
        if not shared:
            return "private", "thread-private memory"
        if any(o[0] == "unknown" for o in shared) and all(o[0] == "unknown" for o in shared):
            return "unresolved", "pointer returned by an external function"
        if ctx.prot:
            return "protected", "inside omp %s" % ctx.prot
        g = self._thread_selective_guard(ctx)
        if g:
            return "guarded", g
        missing = []
        lossy = []
        if depsets is None:
            labs = self.taint(expr, ctx)
            missing = self._missing_collapsed(labs, ctx)
            lossy = self._lossy_only(self.ptaint(expr, ctx), labs, ctx)
        else:
            # callee stores: every store's address must depend on some thread-partitioned argument
            labs = set()
            for d in depsets:
                ld = set()
                for j in d:
                    if j == "T":
                        ld.add(TID)
                    elif j < len(args):
                        ld |= self.taint(args[j], ctx)
                if not ld:
                    labs = set()
                    break
                missing = missing or self._missing_collapsed(ld, ctx)
                pl = set()
                for j in d:
                    if j == "T":
                        pl.add(TID)
                    elif j < len(args):
                        pl |= self.ptaint(args[j], ctx)
                lossy = lossy or self._lossy_only(pl, ld, ctx)
                labs |= ld
        if labs and missing:
            return "violation", ("the loops are collapsed, so one thread's unit of work is a tuple of (%s); the "
                                 "address does not depend on %s, so iterations that differ only in it run on "
                                 "different threads and hit the same location" % (
                                     ", ".join(n_ for l in ctx.ws for n_ in l.iv_names), ", ".join(missing)))
        if labs and lossy and not missing:
            how = {"q": "an integer quotient", "r": "a remainder", "c": "a comparison"}
            return "violation", ("the address depends on the worksharing variable %s only through %s, so all the "
                                 "iterations that share that value -- handed to different threads -- hit the same "
                                 "location" % (lossy[0][0], how[lossy[0][1]]))
        if labs:
            names = []
            for lab in sorted(labs, key=str):
                if lab == TID:
                    names.append("omp_get_thread_num()")
                else:
                    for l in ctx.ws:
                        if l.id == lab:
                            names.append("worksharing variable %s" % "/".join(l.iv_names))
            return "partitioned", "address depends on " + ", ".join(names)
        return "violation", None

    def _flag_normalisation(self, node, vid, rhs, ctx):
        r = strip(rhs)
        if r.get("kind") != "IntegerLiteral":
            return False
        try:
            val = int(r.get("value"))
        except (TypeError, ValueError):
            return False
        for ck, cn, own, exprs in ctx.ctrl:
            if ck == "switch":
                c = strip(exprs[0])
                if not (c.get("kind") == "DeclRefExpr" and c["referencedDecl"]["id"] == vid):
                    continue
                body = kids(cn)[1] if len(kids(cn)) > 1 else None
                if body is None or body.get("kind") != "CompoundStmt":
                    continue
                labels = []
                cur = None
                found = None
                for ch in kids(body):
                    x = ch
                    while x.get("kind") in ("CaseStmt", "DefaultStmt"):
                        if x["kind"] == "DefaultStmt":
                            cur = "default"
                        else:
                            lit = strip(kids(x)[0])
                            try:
                                cur = int(lit.get("value")) if lit.get("kind") == "IntegerLiteral" else "?"
                            except (TypeError, ValueError):
                                cur = "?"
                        labels.append(cur)
                        x = kids(x)[-1]
                    if found is None and any(y is node for y in pwalk(ch)):
                        found = cur
                if found is None or found == "?":
                    continue
                if found == "default":
                    if 0 in labels and "?" not in labels:
                        return val != 0       # default of a switch that has `case 0`: v is non-zero here
                    continue
                return (val != 0) == (found != 0)
            if ck != "if":
                continue
            c = strip(exprs[0])
            truth = None   # truth value of v on the then-branch
            if c.get("kind") == "DeclRefExpr" and c["referencedDecl"]["id"] == vid:
                truth = True
            elif c.get("kind") == "UnaryOperator" and c.get("opcode") == "!":
                x = strip(kids(c)[0])
                if x.get("kind") == "DeclRefExpr" and x["referencedDecl"]["id"] == vid:
                    truth = False
            elif c.get("kind") == "BinaryOperator" and c.get("opcode") in ("!=", "=="):
                a, b = (strip(x) for x in kids(c))
                for x, y in ((a, b), (b, a)):
                    if x.get("kind") == "DeclRefExpr" and x["referencedDecl"]["id"] == vid \
                            and y.get("kind") == "IntegerLiteral" and str(y.get("value")) == "0":
                        truth = c["opcode"] == "!="
            if truth is None:
                continue
            branches = kids(cn)[1:]
            for bi, br in enumerate(branches[:2]):
                if any(x is node for x in pwalk(br)):
                    v_true = truth if bi == 0 else not truth
                    return (val != 0) == v_true
        return False

    def _thread_selective_guard(self, ctx):
        """an enclosing `if (x == y)` / `if (x != y)` with exactly one thread-dependent side, or a switch
        on a thread-dependent value, selects (at most) one thread or iteration: not a definite race"""
        for ck, cn, own, exprs in ctx.ctrl:
            if ck == "switch":
                if self.taint(exprs[0], ctx):
                    return "under a switch on a thread-dependent value (line %d)" % self.tu.line_of(cn)
            elif ck == "if":
                for x in pwalk(exprs[0]):
                    if x.get("kind") == "BinaryOperator" and x.get("opcode") in ("==", "!="):
                        a, b = kids(x)
                        if bool(self.taint(a, ctx)) != bool(self.taint(b, ctx)):
                            return "under `if (%s)` selecting one thread/iteration (line %d)" % (
                                re.sub(r"\s+", " ", self.tu.text_of(x)), self.tu.line_of(cn))
        return None

    def _classify(self):
        f = self.func
        for node, lhs, rhs, ctx in self.store_ev:
            objs = f.objects(lhs)
            l = strip(lhs)
            direct = l["referencedDecl"]["id"] if l.get("kind") == "DeclRefExpr" else None
            cls, why = self._decide(lhs, objs, ctx, direct)
            if cls == "violation" and direct is not None and rhs is not None \
                    and node.get("kind") == "BinaryOperator" and self._flag_normalisation(node, direct, rhs, ctx):
                # structural exception (independent of names): `if (v) { .. v = <nonzero literal>; } else
                # { .. v = 0; }` -- every thread stores the constant that agrees with the truth value it has
                # just tested, so no thread can observe a different truth value before or after
                key = (f.name, l["referencedDecl"]["name"])
                cls = "exception"
                why = self.exceptions.get(key) or (
                    "flag normalised to the literal that agrees with the branch of `if (%s)` being executed: "
                    "every thread stores the same truth value it has just read" % l["referencedDecl"]["name"])
            self.items.append(Item(kind="store", node=node, expr=lhs, cls=cls, why=why,
                                   base=self._base_name(lhs), objs=objs, line=self.tu.line_of(node),
                                   text=self.tu.text_of(node), ctx=ctx, phase=self.phase_of.get(id(node), 0),
                                   labs=frozenset(self.taint(lhs, ctx))))
            if cls == "partitioned" and self.taint(lhs, ctx) == {TID}:
                self._check_tid_scratch(node, lhs, objs, ctx)
        for node, ctx in self.call_ev:
            names, indirect = self.prog.call_targets(f, node)
            args = kids(node)[1:]
            ctext = self.tu.text_of(kids(node)[0])
            if indirect and not names:
                raise AnalysisError("%s: call through function pointer %s inside a parallel region has no "
                                    "known target" % (f.name, ctext))
            for nm in names:
                w, g, unres = self.prog.callee_effects(nm, args)
                if unres:
                    raise AnalysisError("%s: call to %s inside a parallel region: %s" % (
                        f.name, nm, sorted(unres)[0]))
                if nm in self.prog.funcs and self.prog.summary[nm].orphan_omp:
                    raise AnalysisError("%s: callee %s contains orphaned OpenMP constructs (not modelled)" % (
                        f.name, nm))
                for gl in sorted(g):
                    cls = "protected" if ctx.prot else "violation"
                    self.items.append(Item(kind="global", node=node, expr=node, cls=cls,
                                           why="inside omp %s" % ctx.prot if ctx.prot else None,
                                           base=gl, objs={("global", gl)}, line=self.tu.line_of(node),
                                           text=self.tu.text_of(node), callee=nm, ctx=ctx,
                                           phase=self.phase_of.get(id(node), 0), labs=frozenset()))
                for i in sorted(w):
                    if i >= len(args):
                        continue
                    objs = f.pts_expr(args[i])
                    cls, why = self._decide(args[i], objs, ctx, depsets=self.prog.callee_wdeps(nm, i),
                                            args=args)
                    labs = set()
                    for d in self.prog.callee_wdeps(nm, i):
                        for j in d:
                            if j == "T":
                                labs.add(TID)
                            elif j < len(args):
                                labs |= self.taint(args[j], ctx)
                    self.items.append(Item(kind="call", node=node, expr=args[i], cls=cls, why=why,
                                           base=self._base_name(args[i]), objs=objs,
                                           line=self.tu.line_of(node), text=self.tu.text_of(node),
                                           callee=nm, argi=i, ctx=ctx, phase=self.phase_of.get(id(node), 0),
                                           labs=frozenset(labs)))

    def _check_tid_scratch(self, node, lhs, objs, ctx):
        """a buffer allocated in this function and split between threads by thread id must be sized
        by the thread count"""
        f = self.func
        sites = [o[1] for o in objs if o[0] == "alloc"]
        if not sites or any(o[0] != "alloc" for o in objs):
            return
        for c in f.calls:
            if c["id"] in sites:
                ok = False
                for a in kids(c)[1:]:
                    ids, _, nt = self._refs(a)
                    if nt or any(i in self.nt_vars for i in ids):
                        ok = True
                self.tid_scratch.append((ok, "%s: buffer %s indexed by thread id, allocated by %s" % (
                    f.name, self._base_name(lhs), re.sub(r"\s+", " ", self.tu.text_of(c))), c))

    # -- accesses under different partitions must be separated by a barrier -------
    def _sig(self, e):
        """name of the struct member first applied on the way from the root pointer to the accessed
        location (None if the access path has no member): distinguishes fields of a collapsed object"""
        names = []
        e = strip(e)
        for _ in range(64):
            k = e.get("kind")
            if k == "MemberExpr":
                names.append(e.get("name"))
                e = strip(kids(e)[0])
            elif k == "ArraySubscriptExpr":
                a, b = kids(e)
                e = strip(a if ptrish(qt(a)) else b)
            elif k == "UnaryOperator":
                e = strip(kids(e)[0])
            elif k == "BinaryOperator" and e.get("opcode") in ("+", "-"):
                a, b = kids(e)
                e = strip(a if ptrish(qt(a)) else b)
            else:
                break
        return names[-1] if names else None

    def _flat_access(self, o, e):
        """True if access expression e designates plain numbers of object o, i.e. the field-insensitive
        object model cannot confuse it with a different field / level of indirection of o"""
        e = strip(e)
        direct = e.get("kind") == "DeclRefExpr"
        if o[0] in ("var", "global"):
            if direct:
                return True
            d = self.func.vars.get(o[1]) if o[0] == "var" else None
            return d is not None and is_array(qt(d)) and is_arith(re.sub(r"\[[^\]]*\]", "", qt(d))) \
                and is_arith(qt(e))
        if not is_arith(qt(e)):
            return False
        if o[0] == "param":
            return pointee_is_arith(qt(self.func.params[o[1]]))
        if o[0] == "alloc":
            return self._sig(e) is None
        return False

    def _extent(self, e, labs, ctx, is_call=False):
        """which part of its object an access may touch: 'share' (the executing thread's part under the
        partition given by labs), 'sweep' (index varies with a private, unpartitioned variable: any
        element), or 'point' (fixed element: the same for every thread)"""
        if labs:
            return "share"
        if is_call:
            return "sweep"
        root = self._root_decl(e)
        ids, _, _ = self._refs(e)
        for i in ids:
            if i != root and self.is_private_var(i, ctx):
                return "sweep"
        return "point"

    def _root_decl(self, e):
        e = strip(e)
        for _ in range(64):
            k = e.get("kind")
            if k == "DeclRefExpr":
                return e["referencedDecl"]["id"]
            if k == "ArraySubscriptExpr":
                a, b = kids(e)
                e = strip(a if ptrish(qt(a)) else b)
            elif k in ("MemberExpr", "UnaryOperator"):
                e = strip(kids(e)[0])
            elif k == "BinaryOperator" and e.get("opcode") in ("+", "-"):
                a, b = kids(e)
                e = strip(a if ptrish(qt(a)) else b)
            else:
                return None
        return None

    def _mhp(self, p, q):
        return p == q or (p, q) in self.mhp or (q, p) in self.mhp

    def _same_partition(self, lw, lr, cw, cr):
        """both accesses stay inside the executing thread's own share of the object.
        -> False | True | "static" (two different loops with the same schedule(static) distribution)"""
        if TID in lw and TID in lr:
            return True
        if (lw & lr) - {TID}:
            return True   # same worksharing loop, same iteration
        ww, wr = lw - {TID}, lr - {TID}
        if ww and wr:
            # two different worksharing loops: the same thread gets the same iterations only under
            # schedule(static) with identical clauses AND the same number of iterations (OpenMP 4.5
            # sec. 2.7.1); the trip counts are provably equal only when the loop headers agree up to
            # the name of the induction variable (a flat natm*nrad loop and a natm loop do not)
            la = [l for l in cw.ws if l.id in ww]
            lb = [l for l in cr.ws if l.id in wr]
            if la and lb and la[0].pragma.schedule_kind() == "static" and lb[0].pragma.schedule_kind() == "static" \
                    and la[0].pragma.collapse() == lb[0].pragma.collapse() \
                    and getattr(la[0], "headers", None) == getattr(lb[0], "headers", ()):
                return "static"
        return False

    def _exclusive_paths(self, ca, cb):
        """the two contexts lie under different arms of one if / else-if / switch whose condition is the
        same for every thread and iteration: they never both execute in one run of the region"""
        mine = {a[0]: a for a in ca.arms}
        for nid, arm, cond, cctx in cb.arms:
            a = mine.get(nid)
            if a is not None and a[1] != arm and not self.taint(cond, cctx):
                return True
        return False

    def _excluded_pair(self, cw, cr):
        if self._exclusive_paths(cw, cr):
            return True
        if cw.prot in MUTEX and cr.prot in MUTEX:
            return True                      # mutually exclusive blocks
        if cw.pnode is not None and cw.pnode == cr.pnode:
            return True                      # same single/master/section block: one thread
        if cw.prot == "section" and cr.prot == "section":
            return True                      # different sections: not examined
        return False

    def _barrier_order(self):
        f = self.func
        writes = {}
        for it in self.items:
            if it.cls not in ("partitioned", "protected") or it.kind == "global":
                continue
            sig = self._sig(it.expr)
            for o in it.objs:
                if o[0] == "unknown" or self.obj_private(o, it.ctx):
                    continue
                wexpr = it.expr
                if it.kind == "call":
                    # the callee writes *arg: judge the pointee type of the argument
                    if not pointee_is_arith(qt(it.expr)) or o[0] in ("var", "global") and \
                            strip(it.expr).get("kind") == "DeclRefExpr" and not is_array(qt(strip(it.expr))):
                        continue
                elif not self._flat_access(o, wexpr):
                    continue
                writes.setdefault(o, []).append((it, it.labs if it.cls == "partitioned" else frozenset(), sig))
        if not writes:
            return
        seen = set()
        ordered = set()

        def pair(kind, wit, wl, wsig, rnode, rctx, rphase, rl, rsig, o, rtext, rline, r_is_call=False):
            if (wsig is None) != (rsig is None) or (wsig is not None and wsig != rsig):
                return
            same = self._same_partition(wl, rl, wit.ctx, rctx)
            if same is True or self._excluded_pair(wit.ctx, rctx):
                return
            # do the two accesses overlap?  share/sweep extents of one object are assumed to; a fixed
            # element only conflicts with the textually identical fixed element
            xw = self._extent(wit.expr, wl, wit.ctx, wit.kind == "call")
            xr = self._extent(rnode, rl, rctx, r_is_call)
            if "point" in (xw, xr):
                wtext = re.sub(r"\s+", " ", self.tu.text_of(wit.expr))
                if not (xw == xr and wtext == rtext):
                    return
            key = (kind, o, wit.base, rtext)
            if same == "static" or not self._mhp(wit.phase, rphase):
                # the dependence is an instance whether it is discharged by a barrier or by the identical
                # static distribution of the two loops (making schedule(static) explicit changes no count)
                ordered.add((kind, self._describe({o}), wit.base, rtext))
                return
            if key in seen:
                return
            seen.add(key)
            self.barrier_conflicts.append({
                "kind": kind, "object": self._describe({o}), "wbase": wit.base, "wtext": wit.text,
                "wline": wit.line, "wpart": self._part_text(wl, wit.ctx), "rtext": rtext, "rline": rline,
                "rpart": self._part_text(rl, rctx)})

        for node, ctx, phase in self.read_ev:
            objs = [o for o in f.objects(node) if o in writes and self._flat_access(o, node)]
            if not objs:
                continue
            if self._thread_selective_guard(ctx):
                continue
            rl = frozenset(self.taint(node, ctx))
            rsig = self._sig(node)
            rtext = re.sub(r"\s+", " ", self.tu.text_of(node))
            for o in objs:
                if self.obj_private(o, ctx):
                    continue
                for wit, wl, wsig in writes[o]:
                    pair("read", wit, wl, wsig, node, ctx, phase, rl, rsig, o, rtext, self.tu.line_of(node))
        for o, ws in writes.items():
            for i, (a, la, sa) in enumerate(ws):
                for b, lb, sb in ws[i + 1:]:
                    if a.node is b.node:
                        continue
                    pair("write", a, la, sa, b.expr, b.ctx, b.phase, lb, sb, o,
                         re.sub(r"\s+", " ", self.tu.text_of(b.expr)), b.line, b.kind == "call")
        self.barrier_deps = sorted(ordered)

    def _part_text(self, labs, ctx):
        if not labs:
            return "no partition (%s)" % ("inside omp %s" % ctx.prot if ctx.prot else "every thread, whole object")
        out = []
        for lab in sorted(labs, key=str):
            if lab == TID:
                out.append("thread id")
            else:
                for l in ctx.ws:
                    if l.id == lab:
                        out.append("worksharing loop over %s (line %d)" % ("/".join(l.iv_names),
                                                                          self.tu.line_of(l.node)))
        return ", ".join(out)

    # -- thread-private partial aggregates ------------------------------------------
    def _partial_aggregates(self):
        """A thread-private variable (or private array / heap block) that is only ACCUMULATED inside a
        worksharing loop L (x += .., x = f(x, ..), if (.. x ..) x = ..; never plainly re-assigned in L) holds,
        after L, the aggregate over the iterations THIS thread happened to get.  Decided uses:
          * stored into shared memory under master/single: only one thread's part is applied;
          * it (or a private value derived from it, e.g. a buffer sized by it) is used inside a different
            worksharing loop that does not have the identical schedule(static) distribution: the thread now
            works on iterations its partial does not describe.
        Combining under critical/atomic by every thread, reduction clauses and any other use: no report."""
        f = self.func
        if not self.ws_loops:
            return
        iv_ids = {iv for l in self.ws_loops for iv in l.ivs}

        def in_loop(l, node):
            q = self.seq_of.get(id(node), 0)
            return l.seq0 < q <= l.seq1

        for L in self.ws_loops:
            if L.seq1 == 0:
                continue   # the region itself is the worksharing loop: nothing follows it in the region
            acc, plain, where = {}, set(), {}
            for node, lhs, rhs, ctx in self.store_ev:
                if not in_loop(L, node):
                    continue
                l = strip(lhs)
                for o in f.objects(lhs):
                    if o[0] == "var":
                        vid = o[1]
                        if vid in iv_ids or vid in self.reduction_ids or not self.is_private_var(vid, ctx):
                            continue
                        if self.decl_seq.get(vid, 0) > L.seq0:
                            continue   # declared inside L: per-iteration variable
                    elif o[0] == "alloc":
                        if not self.obj_private(o, ctx):
                            continue
                        site = [c for c, _ in self.call_ev if c["id"] == o[1]]
                        if not site or self.seq_of.get(id(site[0]), 0) > L.seq0:
                            continue
                    else:
                        continue
                    root = self._root_decl(lhs)
                    is_acc = node.get("kind") != "BinaryOperator" or rhs is None
                    if not is_acc and root is not None and root in self._refs(rhs)[0] \
                            and l.get("kind") == "DeclRefExpr":
                        is_acc = True                      # x = f(x, ...)
                    if not is_acc and l.get("kind") == "DeclRefExpr":
                        for ck, cn, own, exprs in ctx.ctrl:
                            if ck == "if" and in_loop(L, cn) and root in self._refs(exprs[0])[0]:
                                is_acc = True              # if (.. x ..) x = ...
                    if is_acc:
                        acc.setdefault(o, []).append(node)
                    else:
                        plain.add(o)
            partial_objs = {o: ns for o, ns in acc.items() if o not in plain}
            if not partial_objs:
                continue
            pvars = {o[1] for o in partial_objs if o[0] == "var"}
            # private values derived from each scalar partial after L
            scalars = {v for v in pvars if is_arith(qt(f.vars.get(v, {})))}
            derived_of = {}
            for v0 in scalars:
                derived = {v0}
                for _ in range(10):
                    ch = False
                    for vid, rhs, ctx in self.assign_ev:
                        if self.seq_of.get(id(rhs), 0) > L.seq1 and vid not in derived and \
                                set(self._refs(rhs)[0]) & derived:
                            derived.add(vid)
                            ch = True
                    for node, lhs, rhs, ctx in self.store_ev:
                        l = strip(lhs)
                        if rhs is not None and l.get("kind") == "DeclRefExpr" and \
                                self.seq_of.get(id(node), 0) > L.seq1:
                            vid = l["referencedDecl"]["id"]
                            if vid not in derived and self.is_private_var(vid, ctx) and \
                                    set(self._refs(rhs)[0]) & derived:
                                derived.add(vid)
                                ch = True
                    if not ch:
                        break
                derived_of[v0] = derived
            name = lambda v: f.vars.get(v, {}).get("name", "?")
            problems = {}
            # (1) applied to shared memory by one thread only
            for it in self.items:
                if it.kind != "store" or it.cls != "protected" or it.ctx.prot not in ONE_THREAD:
                    continue
                if self.seq_of.get(id(it.node), 0) <= L.seq1:
                    continue
                used = set()
                for x in pwalk(it.node):
                    if x.get("kind") in ("DeclRefExpr", "ArraySubscriptExpr", "MemberExpr", "UnaryOperator"):
                        for o in (f.objects(x) if x.get("kind") != "DeclRefExpr" else
                                  {f.obj_of_var(x["referencedDecl"])} if x["referencedDecl"].get("kind") != "FunctionDecl" else ()):
                            if o in partial_objs:
                                used.add(o)
                for o in used:
                    problems.setdefault(o, []).append(
                        "`%s` (line %d) applies it to shared memory inside omp %s, i.e. only the part accumulated by "
                        "the one thread that executes the block" % (
                            re.sub(r"\s+", " ", it.text)[:70], it.line, it.ctx.prot))
            # (2) used while working on a different distribution of iterations
            for node, ctx, phase in self.read_ev:
                if node.get("kind") != "DeclRefExpr" or self.seq_of.get(id(node), 0) <= L.seq1:
                    continue
                rid_ = node["referencedDecl"]["id"]
                srcs = [v for v, d in derived_of.items() if rid_ in d]
                if not srcs:
                    continue
                for L2 in ctx.ws:
                    if L2 is L:
                        continue
                    same = L.pragma.schedule_kind() == "static" and L2.pragma.schedule_kind() == "static" \
                        and L.pragma.collapse() == L2.pragma.collapse()
                    if same:
                        continue
                    for v in srcs:
                        problems.setdefault(("var", v), []).append(
                            "`%s` (%s) is used at line %d inside the worksharing loop over %s, whose iterations are "
                            "distributed differently from the loop that accumulated it" % (
                                node["referencedDecl"]["name"], "the partial itself" if rid_ == v else "derived from it",
                                self.tu.line_of(node), "/".join(L2.iv_names)))
                    break
            for o, nodes in sorted(partial_objs.items(), key=str):
                what = ("variable %s" % name(o[1])) if o[0] == "var" else "per-thread heap block"
                desc = "%s: %s accumulated in the worksharing loop over %s" % (f.name, what, "/".join(L.iv_names))
                if o in problems:
                    self.partials.append((False, desc, nodes[0], "; ".join(sorted(set(problems[o]))[:3])))
                else:
                    self.partials.append((True, desc, nodes[0], ""))

    # -- manual block partition by the thread count ---------------------------------
    def _lin(self, e):
        """expression -> {symbol: coefficient} (symbol None = constant); products of two non-constant
        factors and anything else become opaque symbols"""
        e = strip(e)
        k = e.get("kind")
        if k == "IntegerLiteral":
            try:
                return {None: int(e.get("value"))}
            except (TypeError, ValueError):
                return {("opaque", self.tu.text_of(e)): 1}
        if k == "DeclRefExpr":
            return {e["referencedDecl"]["id"]: 1}
        if k == "UnaryOperator" and e.get("opcode") == "-":
            return {s_: -c for s_, c in self._lin(kids(e)[0]).items()}
        if k == "BinaryOperator" and e.get("opcode") in ("+", "-"):
            a, b = (self._lin(x) for x in kids(e))
            sign = 1 if e["opcode"] == "+" else -1
            out = dict(a)
            for s_, c in b.items():
                out[s_] = out.get(s_, 0) + sign * c
            return {s_: c for s_, c in out.items() if c != 0}
        if k == "BinaryOperator" and e.get("opcode") == "*":
            a, b = (self._lin(x) for x in kids(e))
            for x, y in ((a, b), (b, a)):
                if set(x) <= {None}:
                    c0 = x.get(None, 0)
                    return {s_: c * c0 for s_, c in y.items() if c * c0 != 0}
            if len(a) == 1 and len(b) == 1 and None not in a and None not in b:
                (sa, ca), (sb, cb) = list(a.items())[0], list(b.items())[0]
                return {("mul",) + tuple(sorted((str(sa), str(sb)))): ca * cb}
        return {("opaque", re.sub(r"\s+", "", self.tu.text_of(e))): 1}

    def _leaves(self, e, guards=()):
        """value paths of e through conditional operators (MIN/MAX expand to those) -> [(linear form, guards)]"""
        e = strip(e)
        k = e.get("kind")
        if k == "ConditionalOperator":
            c, a, b = kids(e)
            return self._leaves(a, guards + (c,)) + self._leaves(b, guards + (c,))
        if k == "BinaryOperator" and e.get("opcode") in ("+", "-"):
            la, lb = self._leaves(kids(e)[0], guards), self._leaves(kids(e)[1], guards)
            if len(la) * len(lb) > 16:
                return [(self._lin(e), guards)]
            sign = 1 if e["opcode"] == "+" else -1
            out = []
            for fa, ga in la:
                for fb, gb in lb:
                    f = dict(fa)
                    for s_, c in fb.items():
                        f[s_] = f.get(s_, 0) + sign * c
                    out.append(({s_: c for s_, c in f.items() if c != 0}, tuple(ga) + tuple(g for g in gb if g not in ga)))
            return out
        return [(self._lin(e), guards)]

    def _split_kind(self, e):
        """B = <e>: ("ceil"|"floor", N id, T id) for the block-size idioms over a thread count T, else None.
        ceil:  (N + T - 1) / T.   floor-derived (equal to the floor quotient for some N, T):  N / T,
        (N / T + c) & mask,  ((N / T + c) / k) * k."""
        e = strip(e)
        if e.get("kind") != "BinaryOperator":
            return None
        op = e.get("opcode")
        if op == "/":
            num, den = self._lin(kids(e)[0]), self._lin(kids(e)[1])
            if len(den) != 1 or None in den:
                return None
            t = list(den)[0]
            if t not in self.nt_src or den[t] != 1:
                return None
            rest = {s_: c for s_, c in num.items() if s_ not in (t, None)}
            if len(rest) != 1 or list(rest.values())[0] != 1 or not isinstance(list(rest)[0], str):
                return None
            n = list(rest)[0]
            if num.get(t) == 1 and num.get(None) == -1:
                return ("ceil", n, t)
            if t not in num and None not in num:
                return ("floor", n, t)
            return None
        inner = None
        if op == "&":
            inner = strip(kids(e)[0])
        elif op == "*":
            x = strip(kids(e)[0])
            if x.get("kind") == "BinaryOperator" and x.get("opcode") == "/" \
                    and strip(kids(x)[1]).get("kind") == "IntegerLiteral" \
                    and strip(kids(e)[1]).get("kind") == "IntegerLiteral":
                inner = strip(kids(x)[0])
        if inner is not None and inner.get("kind") == "BinaryOperator" and inner.get("opcode") == "+" \
                and strip(kids(inner)[1]).get("kind") == "IntegerLiteral":
            r = self._split_kind(kids(inner)[0])
            if r is not None and r[0] == "floor":
                return r
        return None

    def _block_clip(self):
        """Manual block partitions by a thread count T.
        block-clip:  B = (N + T - 1) / T, ip = B * t: the block [ip, ip + B) of thread t can stick out past N
                     (whenever (T-1)*ceil(N/T) > N), so a length `B` / end `ip + B` must be clipped against N on
                     every value path.
        block-cover: T blocks of size B must cover N: true for the ceil idiom; a floor-derived B leaves
                     N - T*floor(N/T) points out unless one block takes the remainder (`t == T-1 ? N - ip : B`).
        team-split:  if the block index t is the thread id, T must not be omp_get_max_threads(): the team may
                     be smaller and the blocks of the missing threads are never processed."""
        if not self.nt_src:
            return
        f = self.func
        assigns = [(vid, rhs, ctx) for vid, rhs, ctx in self.assign_ev]
        for node, lhs, rhs, ctx in self.store_ev:
            l = strip(lhs)
            if rhs is not None and node.get("kind") == "BinaryOperator" and l.get("kind") == "DeclRefExpr":
                assigns.append((l["referencedDecl"]["id"], rhs, ctx))
        by_var = {}
        for vid, rhs, ctx in assigns:
            by_var.setdefault(vid, []).append((rhs, ctx))
        fw = {}   # function-wide assignments (block sizes may be computed before the region)
        for lhs, rhs in f.assigns:
            if lhs.get("kind") == "VarDecl":
                fw.setdefault(lhs["id"], []).append(rhs)
            else:
                l = strip(lhs)
                if l.get("kind") == "DeclRefExpr":
                    fw.setdefault(l["referencedDecl"]["id"], []).append(rhs)
        all_splits = {}   # B id -> (kind, N id, T id, defining expression)
        for vid, lst in fw.items():
            if len(lst) != 1:
                continue
            r = self._split_kind(lst[0])
            if r is not None:
                all_splits[vid] = r + (lst[0],)
        used = set()
        for n in pwalk(self.body):
            if n.get("kind") == "DeclRefExpr":
                used.add(n["referencedDecl"]["id"])
        all_splits = {b: v for b, v in all_splits.items() if b in used}
        splits = {b: (v[1], v[2]) for b, v in all_splits.items() if v[0] == "ceil"}
        name = {i: d.get("name", "?") for i, d in f.vars.items()}
        # block start variables ip = B * t, with their block index t
        ipvars = {}   # B id -> {ip id: t id}
        for b in all_splits:
            for vid, lst in by_var.items():
                for rhs, ctx in lst:
                    fl = self._lin(rhs)
                    if len(fl) == 1 and list(fl.values())[0] == 1 and isinstance(list(fl)[0], tuple) \
                            and list(fl)[0][0] == "mul" and str(b) in list(fl)[0][1:]:
                        other = [x for x in list(fl)[0][1:] if x != str(b)]
                        ipvars.setdefault(b, {})[vid] = other[0] if other else None
        for b, (kind, nvar, t, bexpr) in sorted(all_splits.items()):
            bdesc = "%s: blocks of size %s = %s over %s" % (
                f.name, name.get(b, "?"), re.sub(r"\s+", " ", self.tu.text_of(bexpr)), name.get(nvar, "?"))
            # team-split
            for ip, tv in sorted(ipvars.get(b, {}).items()):
                if tv is not None and TID in self.labels.get(tv, ()):
                    if "max" in self.nt_src.get(t, ()):
                        self.team_splits.append((False, bdesc, bexpr, name.get(t, "?")))
                    else:
                        self.team_splits.append((True, bdesc, bexpr, ""))
            # block-cover
            if kind == "ceil":
                self.block_covers.append((True, bdesc, bexpr, "ceil idiom: T*B >= N"))
            else:
                covered = False
                for vid, lst in by_var.items():
                    for rhs, ctx in lst:
                        for fl, guards in self._leaves(rhs):
                            is_rem = any(fl == {nvar: 1, ip: -1} for ip in ipvars.get(b, {})) or (
                                len(fl) == 2 and fl.get(nvar) == 1 and any(
                                    isinstance(s_, tuple) and s_[0] == "mul" and str(b) in s_[1:] and c == -1
                                    for s_, c in fl.items()))
                            if not is_rem:
                                continue
                            for g in guards:
                                for x in pwalk(g):
                                    if x.get("kind") == "BinaryOperator" and x.get("opcode") in ("==", "!="):
                                        ids = set(self._refs(x)[0])
                                        if ids & set(v for v in ipvars.get(b, {}).values() if v) or t in ids:
                                            covered = True
                if covered:
                    self.block_covers.append((True, bdesc, bexpr, "one block takes the remainder N - ip"))
                elif ipvars.get(b):
                    self.block_covers.append((False, bdesc, bexpr, ""))
        if not splits:
            return
        loop_bound_vars = set()
        for n in pwalk(self.body):
            if n.get("kind") == "ForStmt":
                _, cond, _, _ = for_slots(n)
                if cond is not None:
                    loop_bound_vars |= set(self._refs(cond)[0])
        for b, (nvar, t) in splits.items():
            ips = set()
            for vid, lst in by_var.items():
                for rhs, ctx in lst:
                    f = self._lin(rhs)
                    if len(f) == 1 and list(f.values())[0] == 1 and isinstance(list(f)[0], tuple) \
                            and list(f)[0][0] == "mul" and str(b) in list(f)[0][1:]:
                        ips.add(vid)
            for vid, lst in sorted(by_var.items()):
                if vid == b or vid in ips or vid not in loop_bound_vars:
                    continue
                bad = None
                relevant = False
                for rhs, ctx in lst:
                    if b not in self._refs(rhs)[0]:
                        continue
                    for f, guards in self._leaves(rhs):
                        full = (f == {b: 1}) or any(f == {b: 1, ip: 1} for ip in ips)
                        if f == {b: 1} or any(f == {b: 1, ip: 1} for ip in ips) or nvar in f:
                            relevant = True
                        if not full:
                            continue
                        gs = list(guards) + [ex for ck, _, _, exprs in ctx.ctrl if ck == "if" for ex in exprs]
                        if not any(nvar in self._refs(g)[0] for g in gs):
                            bad = (rhs, f)
                if not relevant:
                    continue
                # a later `if (... N ...) V = ...;` clips at statement level
                clipped_elsewhere = any(
                    any(nvar in self._refs(ex)[0] for ck, _, _, exprs in ctx.ctrl if ck == "if" for ex in exprs)
                    for rhs, ctx in lst)
                desc = "%s: block bound %s of the ceil split %s = (%s + %s - 1) / %s" % (
                    self.func.name, name.get(vid, "?"), name.get(b, "?"), name.get(nvar, "?"), name.get(t, "?"),
                    name.get(t, "?"))
                if bad is not None and not clipped_elsewhere:
                    self.block_clips.append((False, desc, bad[0],
                                             re.sub(r"\s+", " ", self.tu.text_of(bad[0]))))
                else:
                    self.block_clips.append((True, desc, lst[0][0], ""))
                # a clipped LENGTH N - ip is negative for surplus threads (ip = B*t > N): harmless as a signed
                # loop bound, but it must not reach an unsigned parameter of a callee unguarded
                is_len = any(fl_ == {nvar: 1, ip: -1} for rhs, ctx in lst for fl_, _ in self._leaves(rhs) for ip in ips)
                if is_len and not re.search(r"unsigned|size_t|uint", qt(self.func.vars.get(vid, {}))):
                    for cnode, cctx in self.call_ev:
                        names, _ = self.prog.call_targets(self.func, cnode)
                        cargs = kids(cnode)[1:]
                        for nm in names:
                            g_ = self.prog.funcs.get(nm)
                            if g_ is None:
                                continue
                            for ai, a_ in enumerate(cargs[:len(g_.params)]):
                                sa_ = strip(a_)
                                if sa_.get("kind") != "DeclRefExpr" or sa_["referencedDecl"]["id"] != vid:
                                    continue
                                if not re.search(r"unsigned|size_t|uint", qt(g_.params[ai])):
                                    continue
                                guarded = any(ck == "if" and vid in self._refs(ex)[0]
                                              for ck, _, _, exprs in cctx.ctrl for ex in exprs)
                                if not guarded:
                                    self.block_clips.append((
                                        False, desc + " passed to %s as %s" % (nm, qt(g_.params[ai])), cnode,
                                        "%s: negative for surplus threads (ip > %s), converted to a huge %s" % (
                                            re.sub(r"\s+", " ", self.tu.text_of(cnode))[:60], name.get(nvar, "?"),
                                            qt(g_.params[ai]))))

    # -- worksharing constructs reached by all threads ---------------------------
    def _uniformity(self):
        # variables whose only definitions are worksharing-loop induction: thread-dependent afterwards
        for kind, node, ctx, pragma in self.directives:
            bad = None
            for ck, cn, own, exprs in ctx.ctrl:
                for e in exprs:
                    ids, tid, _ = self._refs(e)
                    if tid or any(TID in self.labels.get(i, ()) for i in ids if i not in own):
                        bad = "enclosing %s statement at line %d depends on the thread id" % (
                            ck, self.tu.line_of(cn))
                        break
                if bad:
                    break
            if bad:
                self.nonuniform.append((node, kind, bad))
            else:
                self.uniform_ok.append((node, kind, pragma.text, len(ctx.ctrl)))


def analyse_regions(prog, rels, exceptions=None):
    """-> list of Region for every outermost parallel region of the TUs in rels"""
    out = []
    for name in sorted(prog.funcs):
        f = prog.funcs[name]
        if f.tu.rel not in rels:
            continue
        for k, node in enumerate(f.regions):
            out.append(Region(prog, f, node, k + 1, exceptions))
    return out


# ----------------------------------------------------------------------------
# function pointers passed from Python (ctypes)
# ----------------------------------------------------------------------------
def _str_values(node, env, depth=0):
    """string constants an expression may evaluate to: literal, name bound to literals (function-local or
    module-level), subscript / .get() of a dict literal, conditional expression.  None = not resolvable."""
    if depth > 6:
        return None
    if isinstance(node, ast.Constant):
        return {node.value} if isinstance(node.value, str) else None
    if isinstance(node, ast.Name):
        out = set()
        vals = env.get(node.id)
        if not vals:
            return None
        for v in vals:
            r = _str_values(v, env, depth + 1)
            if r is None:
                return None
            out |= r
        return out
    if isinstance(node, ast.IfExp):
        a, b = _str_values(node.body, env, depth + 1), _str_values(node.orelse, env, depth + 1)
        return None if a is None or b is None else a | b
    d = None
    if isinstance(node, ast.Subscript):
        d = node.value
    elif isinstance(node, ast.Call) and isinstance(node.func, ast.Attribute) and node.func.attr == "get" and node.args:
        d = node.func.value
    if d is not None:
        tables = [d] if isinstance(d, ast.Dict) else (env.get(d.id, []) if isinstance(d, ast.Name) else [])
        out = set()
        for t in tables:
            if not isinstance(t, ast.Dict):
                return None
            for v in t.values:
                for leaf in (v.elts if isinstance(v, (ast.Tuple, ast.List)) else [v]):
                    r = _str_values(leaf, env, depth + 1)
                    if r is None:
                        return None
                    out |= r
        return out or None
    return None


def _getattr_targets(v, env):
    """getattr(libX, <name expr>) or libX.NAME -> set((lib, NAME)) or None"""
    if isinstance(v, ast.Call) and isinstance(v.func, ast.Name) and v.func.id == "getattr" and len(v.args) >= 2 \
            and isinstance(v.args[0], ast.Name):
        names = _str_values(v.args[1], env)
        if names:
            return {(v.args[0].id, n) for n in names}
        return None
    if isinstance(v, ast.Attribute) and isinstance(v.value, ast.Name) and v.value.id.startswith("lib"):
        return {(v.value.id, v.attr)}
    return None


def _bindings(scope_nodes):
    env = {}
    for n in scope_nodes:
        if isinstance(n, ast.Assign):
            for t in n.targets:
                if isinstance(t, ast.Name):
                    env.setdefault(t.id, []).append(n.value)
        elif isinstance(n, ast.AnnAssign) and isinstance(n.target, ast.Name) and n.value is not None:
            env.setdefault(n.target.id, []).append(n.value)
    return env


def read_py_callbacks(tree, py_rels):
    """Read, off the Python call sites, which C functions are passed as function pointers to which
    driver: {(driver lib, driver name, arg position): set((lib, name))}.  A driver is `lib.X` /
    `getattr(lib, "X")` (possibly through a local name, a name bound to string literals, or a dict of
    names) that is called with at least one argument which is itself such a library function."""
    table = {}
    sites = 0
    for rel in py_rels:
        if not tree.exists(rel):
            raise AnalysisError("anchored Python file %s vanished" % rel)
        text = tree.read(rel)
        # cheap textual pre-filter: a callback can only be passed where a library function is named
        pat = re.compile(r"getattr\(\s*\w*lib\w*|\b\w*lib\w*\.[A-Za-z_]\w*\s*[,)]")
        if not pat.search(text):
            continue
        lines = text.splitlines()
        mod = tree.py(rel)
        menv = _bindings(mod.body)
        for fn in ast.walk(mod):
            if not isinstance(fn, (ast.FunctionDef, ast.AsyncFunctionDef)):
                continue
            seg = "\n".join(lines[fn.lineno - 1:getattr(fn, "end_lineno", len(lines))])
            if not pat.search(seg):
                continue
            env = dict(menv)
            for k, v in _bindings(ast.walk(fn)).items():
                env[k] = v   # function-local bindings shadow module-level ones
            bind = {}
            for name, vals in env.items():
                for v in vals:
                    t = _getattr_targets(v, env)
                    if t:
                        bind.setdefault(name, set()).update(t)

            def passed_of(a):
                if isinstance(a, ast.Name) and a.id in bind:
                    return bind[a.id]
                return _getattr_targets(a, env)

            for n in ast.walk(fn):
                if not isinstance(n, ast.Call):
                    continue
                drv = None
                if isinstance(n.func, ast.Name) and n.func.id in bind:
                    drv = bind[n.func.id]
                else:
                    drv = _getattr_targets(n.func, env)
                if not drv:
                    continue
                args = list(n.args)
                if len(args) == 1 and isinstance(args[0], ast.Starred) and isinstance(args[0].value, ast.Name):
                    lists = [v for v in env.get(args[0].value.id, []) if isinstance(v, (ast.List, ast.Tuple))]
                    if len(lists) == 1:
                        args = list(lists[0].elts)
                for i, a in enumerate(args):
                    passed = passed_of(a)
                    if not passed:
                        continue
                    for d in drv:
                        table.setdefault((d[0], d[1], i), set()).update(passed)
                    sites += 1
    return table, sites


# ----------------------------------------------------------------------------
# alternative build configurations (code the default configuration compiles out)
# ----------------------------------------------------------------------------
def load_variant(tree, rel, copies, aux, tag):
    """Parse translation unit `rel` in another build configuration: `rel` and the repository files
    `copies` (paths relative to the TU's directory) are copied into a scratch directory together
    with the generated files `aux` (name -> text, e.g. a different generated config header and stub
    vendor headers), and clang parses the copy.  Offsets equal those of the repository file.
    -> cfacts.TU (never written under the repository root)."""
    import hashlib
    import json
    import os
    import shutil
    import subprocess
    import tempfile
    full_rel = cfacts.LIB + "/" + rel
    text = tree.read(full_rel)
    d = os.path.dirname(full_rel)
    ctexts = {c: tree.read(d + "/" + c) for c in copies}
    h = hashlib.sha1()
    for part in [text, tag, "omp-variant-v1"] + [k + "\0" + v for k, v in sorted(ctexts.items())] \
            + [k + "\0" + v for k, v in sorted(aux.items())]:
        h.update(part.encode())
        h.update(b"\1")
    stubs = os.path.join(cfacts.VERIF, "stubs")
    for s in sorted(os.listdir(stubs)):
        with open(os.path.join(stubs, s), "rb") as f:
            h.update(f.read())
    os.makedirs(cfacts.CACHE, exist_ok=True)
    cp = os.path.join(cfacts.CACHE, "%s.variant-%s.%s.json" % (rel.replace("/", "_"), tag, h.hexdigest()))
    mutated = any(p in tree.overlay for p in [full_rel] + [d + "/" + c for c in copies])
    if os.path.exists(cp) and not mutated:
        with open(cp) as f:
            data = json.load(f)
    else:
        tmpd = tempfile.mkdtemp(prefix="verif_cv_")
        try:
            base = os.path.basename(rel)
            for name, t in list(ctexts.items()) + list(aux.items()) + [(base, text)]:
                with open(os.path.join(tmpd, name), "w") as f:
                    f.write(t)
            cmd = ["clang", "-fopenmp", "-fsyntax-only", "-w", "-Xclang", "-ast-dump=json",
                   "-I", tmpd, "-I", stubs, os.path.join(tmpd, base)]
            p = subprocess.run(cmd, capture_output=True, text=True)
            if p.returncode != 0:
                raise AnalysisError("clang cannot parse %s in configuration %s: %s" % (rel, tag, p.stderr[:400]))
            raw = json.loads(p.stdout)
        finally:
            shutil.rmtree(tmpd, ignore_errors=True)
        funcs = []
        cur_file = None
        for dcl in raw.get("inner", []):
            loc = dcl.get("loc") or {}
            if "expansionLoc" in loc:
                loc = loc["expansionLoc"]
            if "file" in loc:
                cur_file = loc["file"]
            if dcl.get("kind") == "FunctionDecl" and any(
                    isinstance(c, dict) and c.get("kind") == "CompoundStmt" for c in dcl.get("inner", [])):
                if cur_file is None or os.path.basename(cur_file) == base:
                    cfacts._prune(dcl)
                    funcs.append(dcl)
        data = {"funcs": funcs}
        if not mutated:
            tmp = cp + ".tmp%d" % os.getpid()
            with open(tmp, "w") as f:
                json.dump(data, f)
            os.replace(tmp, cp)
    tu = cfacts.TU.__new__(cfacts.TU)
    tu.rel = rel
    tu.full_rel = full_rel
    tu.text = text
    tu.funcs = {f["name"]: f for f in data["funcs"]}
    tu.decls = []
    tu.macros = {}
    tu.variant = tag
    return tu


# ----------------------------------------------------------------------------
# extent of the block written by alternative branches (compute vs zero/skip)
# ----------------------------------------------------------------------------
def _padd(a, b, sign=1):
    out = dict(a)
    for m, c in b.items():
        out[m] = out.get(m, 0) + sign * c
    return {m: c for m, c in out.items() if c != 0}


def _pmul(a, b):
    out = {}
    for ma, ca in a.items():
        for mb, cb in b.items():
            m = tuple(sorted(ma + mb, key=str))
            out[m] = out.get(m, 0) + ca * cb
    return {m: c for m, c in out.items() if c != 0}


def _pmul_idx(a, b):
    out = {}
    for ma, ca in a.items():
        for mb, cb in b.items():
            m = tuple(sorted(ma + mb))
            out[m] = out.get(m, 0) + ca * cb
    return {m: c for m, c in out.items() if c != 0}


def poly(tu, e):
    """integer polynomial over variable ids: {monomial (sorted tuple of ids): coefficient}; anything that is
    not +, -, *, a literal or a variable becomes an opaque symbol"""
    e = strip(e)
    k = e.get("kind")
    if k == "IntegerLiteral":
        try:
            v = int(e.get("value"))
            return {(): v} if v else {}
        except (TypeError, ValueError):
            pass
    elif k == "DeclRefExpr" and e["referencedDecl"].get("kind") != "FunctionDecl":
        return {(e["referencedDecl"]["id"],): 1}
    elif k == "UnaryOperator" and e.get("opcode") == "-":
        return {m: -c for m, c in poly(tu, kids(e)[0]).items()}
    elif k == "BinaryOperator" and e.get("opcode") in ("+", "-"):
        a, b = kids(e)
        return _padd(poly(tu, a), poly(tu, b), 1 if e["opcode"] == "+" else -1)
    elif k == "BinaryOperator" and e.get("opcode") == "*":
        a, b = kids(e)
        pa, pb = poly(tu, a), poly(tu, b)
        if len(pa) * len(pb) <= 64:
            return _pmul(pa, pb)
    return {(("opaque", re.sub(r"\s+", "", tu.text_of(e))),): 1}


def _single_defs(f):
    """local variables with exactly one definition in the whole function -> defining expression"""
    cache = getattr(f, "_single_defs", None)
    if cache is None:
        defs = {}
        for lhs, rhs in f.assigns:
            if lhs.get("kind") == "VarDecl":
                defs.setdefault(lhs["id"], []).append(rhs)
            else:
                l = strip(lhs)
                if l.get("kind") == "DeclRefExpr":
                    defs.setdefault(l["referencedDecl"]["id"], []).append(rhs)
        stored = {}
        for lv in f.stores:
            l = strip(lv)
            if l.get("kind") == "DeclRefExpr":
                stored[l["referencedDecl"]["id"]] = stored.get(l["referencedDecl"]["id"], 0) + 1
        cache = {}
        for v, lst in defs.items():
            d = f.vars.get(v)
            is_decl_init = d is not None and d.get("kind") == "VarDecl" and var_init(d) is not None
            total = stored.get(v, 0) + (1 if is_decl_init else 0)
            if len(lst) == 1 and total == 1 and v not in f.pidx:
                cache[v] = lst[0]
        f._single_defs = cache
    return cache


def poly_inlined(f, e, depth=3):
    """poly(e) with single-definition arithmetic locals replaced by their definition"""
    pl = poly(f.tu, e)
    defs = _single_defs(f)
    for _ in range(depth):
        subst = {s_ for m in pl for s_ in m if s_ in defs and is_arith(qt(f.vars.get(s_, {})))}
        if not subst:
            break
        out = {}
        for m, c in pl.items():
            term = {(): c}
            for s_ in m:
                term = _pmul(term, poly(f.tu, defs[s_]) if s_ in subst else {(s_,): 1})
            out = _padd(out, term)
        pl = out
    return pl


def _loops_of(body):
    """yield (node, loop stack) for every node; loop stack = tuple of (iv id, bound expr | None, ForStmt)"""
    todo = [(body, ())]
    while todo:
        n, ls = todo.pop()
        yield n, ls
        if n.get("kind") == "ForStmt":
            init, cond, inc, b = for_slots(n)
            iv = None
            if init is not None and init["kind"] == "BinaryOperator" and init.get("opcode") == "=":
                l = strip(kids(init)[0])
                if l.get("kind") == "DeclRefExpr":
                    iv = l["referencedDecl"]["id"]
            elif init is not None and init["kind"] == "DeclStmt":
                vs = [c for c in kids(init) if c["kind"] == "VarDecl"]
                if len(vs) == 1:
                    iv = vs[0]["id"]
            bound = None
            if iv is not None and cond is not None and cond.get("kind") == "BinaryOperator" and cond.get("opcode") == "<":
                a, bb = kids(cond)
                sa = strip(a)
                if sa.get("kind") == "DeclRefExpr" and sa["referencedDecl"]["id"] == iv:
                    bound = bb
            for x in (init, cond, inc):
                if x is not None:
                    todo.append((x, ls))
            if b is not None:
                todo.append((b, ls + ((iv, bound, n),)))
            continue
        for c in reversed(children(n)):
            todo.append((c, ls))


def row_footprint(prog, g, p):
    """How callee g fills memory through its pointer parameter p, if it has the shape `rows x row-stride`:
    list of (rows polynomial over g's PARAMETER INDICES, index of the stride parameter); None if not of that shape.
      A: out[i * stride + j]          with `for (i = 0; i < rows; ..)`
      B: p[j] ... ; p += stride;      with the bump inside exactly one loop `for (k = 0; k < rows; ..)`"""
    if g.body is None:
        return None
    pid = {d["id"]: i for i, d in enumerate(g.params)}

    def to_param_poly(e):
        out = {}
        for m, c in poly_inlined(g, e).items():
            mm = []
            for s_ in m:
                if s_ not in pid:
                    return None
                mm.append(pid[s_])
            out[tuple(sorted(mm))] = c
        return out

    res = []
    writes_p = False
    for n, ls in _loops_of(g.body):
        k = n.get("kind")
        lhs = None
        if k == "BinaryOperator" and n.get("opcode") == "=":
            lhs = kids(n)[0]
        elif k == "CompoundAssignOperator":
            lhs = kids(n)[0]
            l = strip(lhs)
            if n.get("opcode") == "+=" and l.get("kind") == "DeclRefExpr" and \
                    g.pts.get(l["referencedDecl"]["id"]) == {("param", p)}:
                sp = poly(g.tu, kids(n)[1])
                if len(sp) == 1 and list(sp.values())[0] == 1 and len(list(sp)[0]) == 1 and list(sp)[0][0] in pid:
                    if ls and all(x[1] is not None for x in ls):
                        rows = {(): 1}
                        for x in ls:
                            b_ = to_param_poly(x[1])
                            if b_ is None:
                                return None
                            rows = {tuple(sorted(m1 + m2)): c1 * c2 for m1, c1 in rows.items() for m2, c2 in b_.items()} \
                                if len(rows) * len(b_) == 1 else _pmul_idx(rows, b_)
                        res.append((rows, pid[list(sp)[0][0]]))
                        continue
                    return None
        if lhs is None:
            continue
        if g.objects(lhs) != {("param", p)}:
            continue
        writes_p = True
        l = strip(lhs)
        if l.get("kind") != "ArraySubscriptExpr":
            continue
        a, b = kids(l)
        idx = b if ptrish(qt(a)) else a
        ip = poly(g.tu, idx)
        ivs = {x[0]: x for x in ls if x[0] is not None}
        for m, c in ip.items():
            if len(m) == 2 and c == 1:
                for iv_, other in ((m[0], m[1]), (m[1], m[0])):
                    if iv_ in ivs and other in pid and ivs[iv_][1] is not None:
                        rows = to_param_poly(ivs[iv_][1])
                        if rows is None:
                            return None
                        res.append((rows, pid[other]))
    if not writes_p or not res:
        return None
    uniq = []
    for r in res:
        if r not in uniq:
            uniq.append(r)
    return uniq


def fill_extents(prog, rels):
    """For every `if` whose two arms both write, through calls, rows of the block behind the same pointer
    parameter: compare the row count per call and look for overlapping fills.
    -> list of dict(func, tu, node, ok, unknown, detail, construct)"""
    out = []
    for name in sorted(prog.funcs):
        f = prog.funcs[name]
        if f.tu.rel not in rels or f.body is None:
            continue
        ifs = []
        for n, _ in _loops_of(f.body):
            if n.get("kind") == "IfStmt" and len(kids(n)) == 3:
                ifs.append(n)
        for ifn in ifs:
            arms = []
            for arm in kids(ifn)[1:]:
                recs = []
                for n, ls in _loops_of(arm):
                    if n.get("kind") != "CallExpr":
                        continue
                    names, _ = prog.call_targets(f, n)
                    args = kids(n)[1:]
                    for nm in names:
                        g = prog.funcs.get(nm)
                        if g is None:
                            continue
                        for p in sorted(prog.summary[nm].writes):
                            if p >= len(args):
                                continue
                            objs = f.pts_expr(args[p])
                            if len(objs) != 1 or list(objs)[0][0] != "param":
                                continue
                            root = f._root_of(args[p]) if hasattr(f, "_root_of") else None
                            fp = row_footprint(prog, g, p)
                            if fp is None:
                                recs.append({"q": list(objs)[0][1], "unknown": nm})
                                continue
                            for rows_pp, sidx in fp:
                                if sidx >= len(args):
                                    continue
                                rows = {}
                                disp = {}
                                bad = False
                                for m, c in rows_pp.items():
                                    term = {(): c}
                                    dterm = {(): c}
                                    for ai in m:
                                        if ai >= len(args):
                                            bad = True
                                            break
                                        term = _pmul(term, poly_inlined(f, args[ai]))
                                        dterm = _pmul(dterm, poly(f.tu, args[ai]))
                                    rows = _padd(rows, term)
                                    disp = _padd(disp, dterm)
                                if bad:
                                    continue
                                stride = poly(f.tu, args[sidx])
                                ap = poly(f.tu, args[p])
                                # row offset = (address - root pointer) / stride
                                rowoff = None
                                if len(stride) == 1 and list(stride.values())[0] == 1 and len(list(stride)[0]) == 1:
                                    ssym = list(stride)[0][0]
                                    ptr_terms = [m for m in ap if len(m) == 1 and m[0] in f.pts and m[0] != ssym
                                                 and ptrish(qt(f.vars.get(m[0], {})))]
                                    rest = {m: c for m, c in ap.items() if m not in ptr_terms}
                                    if len(ptr_terms) == 1 and all(ssym in m for m in rest):
                                        rowoff = {}
                                        for m, c in rest.items():
                                            mm = list(m)
                                            mm.remove(ssym)
                                            rowoff[tuple(mm)] = c
                                overlaps = []
                                if rowoff is not None:
                                    for iv_, bound, fn_ in ls:
                                        c = rowoff.get((iv_,))
                                        if c is None or any(iv_ in m for m in rows):
                                            continue
                                        const_rows = rows.get((), 0) if set(rows) <= {()} else None
                                        if const_rows is None or const_rows > c:
                                            overlaps.append((f.vars.get(iv_, {}).get("name", "?"), c))
                                recs.append({"q": list(objs)[0][1], "rows": rows, "disp": disp, "stride": stride, "callee": nm,
                                             "overlaps": overlaps, "node": n})
                arms.append(recs)
            if len(arms) != 2 or not arms[0] or not arms[1]:
                continue
            for q in sorted({r["q"] for r in arms[0]} & {r["q"] for r in arms[1]}):
                a0 = [r for r in arms[0] if r["q"] == q]
                a1 = [r for r in arms[1] if r["q"] == q]
                pname = f.params[q]["name"]
                inst = "%s:%s: arms of `if (%s)` writing the block behind *%s" % (
                    f.tu.rel, name, re.sub(r"\s+", " ", f.tu.text_of(kids(ifn)[0]))[:50], pname)
                known0 = [r for r in a0 if "rows" in r]
                known1 = [r for r in a1 if "rows" in r]
                if not known0 or not known1:
                    out.append({"func": f, "node": ifn, "ok": True, "unknown": True, "inst": inst,
                                "detail": "row footprint of %s not of the rows x stride shape" % ", ".join(
                                    sorted({r["unknown"] for r in a0 + a1 if "unknown" in r}))})
                    continue

                def show(pl):
                    terms = []
                    for m, c in sorted(pl.items(), key=str):
                        nm_ = "*".join(f.vars.get(s_, {}).get("name", str(s_)) if not isinstance(s_, tuple) else s_[1]
                                       for s_ in m)
                        terms.append(("%d" % c) if not m else (nm_ if c == 1 else "%d*%s" % (c, nm_)))
                    return " + ".join(terms) or "0"

                problems = []
                r0s = {tuple(sorted(r["rows"].items(), key=str)) for r in known0}
                r1s = {tuple(sorted(r["rows"].items(), key=str)) for r in known1}
                undecided = False
                if len(r0s) == 1 and len(r1s) == 1 and \
                        {tuple(sorted(r["stride"].items(), key=str)) for r in known0} == \
                        {tuple(sorted(r["stride"].items(), key=str)) for r in known1}:
                    d = _padd(known0[0]["rows"], known1[0]["rows"], -1)
                    if d and set(d) <= {()}:
                        problems.append("one arm writes %s rows per call (%s), the other %s rows (%s)" % (
                            show(known0[0]["disp"]), known0[0]["callee"], show(known1[0]["disp"]), known1[0]["callee"]))
                    elif d:
                        undecided = True
                else:
                    undecided = True
                ov0 = [o for r in known0 for o in r["overlaps"]]
                ov1 = [o for r in known1 for o in r["overlaps"]]
                for ov, mine, other in ((ov0, known0, known1), (ov1, known1, known0)):
                    if ov and not [o for r in other for o in r["overlaps"]]:
                        kname, c = ov[0]
                        r = [r for r in mine if r["overlaps"]][0]
                        problems.append(
                            "the %s arm calls %s once per value of `%s`, each call writing %s rows but starting only %d "
                            "row(s) after the previous one: the calls overlap and together write (trip count + %s - %d) "
                            "rows, whereas the other arm writes %s rows at the same base" % (
                                "first" if mine is known0 else "second", r["callee"], kname, show(r["disp"]), c,
                                show(r["disp"]), c, show(other[0]["disp"])))
                out.append({"func": f, "node": ifn, "ok": not problems, "unknown": undecided and not problems,
                            "inst": inst, "detail": "; ".join(problems) if problems else (
                                "row counts not comparable" if undecided else "same rows per call (%s), no overlapping fill" % show(known0[0]["disp"])),
                            "pname": pname})
    return out


# ----------------------------------------------------------------------------
# declarations cfacts does not keep: functions defined in included repository headers, constant tables
# ----------------------------------------------------------------------------
def load_extra_decls(tree, rel):
    """Second look at translation unit `rel` (own clang run, own digest-keyed cache), used only when the
    first analysis meets a callee that no parsed .c file defines or a call through a table of function
    pointers:  -> ({header rel: cfacts.TU-like with the functions DEFINED in that repository header},
                   {global variable name: [function names in its initialiser]})"""
    import json
    import os
    full_rel = cfacts.LIB + "/" + rel
    text = tree.read(full_rel)
    dg = cfacts._digest(tree, rel, text)
    os.makedirs(cfacts.CACHE, exist_ok=True)
    cp = os.path.join(cfacts.CACHE, "%s.extra1.%s.json" % (rel.replace("/", "_"), dg))
    mutated = full_rel in tree.overlay
    if os.path.exists(cp) and not mutated:
        with open(cp) as f:
            data = json.load(f)
    else:
        raw = json.loads(cfacts._run_clang(tree, rel, text, ["-Xclang", "-ast-dump=json"]))
        libroot = os.path.realpath(tree.path(cfacts.LIB))
        hfuncs = {}
        gtables = {}
        cur_file = None
        for d in raw.get("inner", []):
            loc = d.get("loc") or {}
            if "expansionLoc" in loc:
                loc = loc["expansionLoc"]
            if "file" in loc:
                cur_file = loc["file"]
            kind = d.get("kind")
            in_main = cur_file is None or os.path.basename(cur_file) == os.path.basename(rel)
            if kind == "FunctionDecl" and not in_main and cur_file and any(
                    isinstance(c, dict) and c.get("kind") == "CompoundStmt" for c in d.get("inner", [])):
                rp = os.path.realpath(cur_file)
                if rp.startswith(libroot + os.sep):
                    cfacts._prune(d)
                    hfuncs.setdefault(os.path.relpath(rp, libroot), []).append(d)
            elif kind == "VarDecl" and (in_main or (cur_file and os.path.realpath(cur_file).startswith(libroot + os.sep))):
                names = []
                todo = [d]
                while todo:
                    x = todo.pop()
                    if x.get("kind") == "DeclRefExpr" and (x.get("referencedDecl") or {}).get("kind") == "FunctionDecl":
                        names.append(x["referencedDecl"]["name"])
                    todo.extend(c for c in (x.get("inner") or []) if isinstance(c, dict))
                if names:
                    gtables[d.get("name")] = sorted(set(names))
        data = {"hfuncs": hfuncs, "gtables": gtables}
        if not mutated:
            tmp = cp + ".tmp%d" % os.getpid()
            with open(tmp, "w") as f:
                json.dump(data, f)
            os.replace(tmp, cp)
    htus = {}
    for hrel, funcs in data["hfuncs"].items():
        tu = cfacts.TU.__new__(cfacts.TU)
        tu.rel = hrel
        tu.full_rel = cfacts.LIB + "/" + hrel
        tu.text = tree.read(tu.full_rel)
        tu.funcs = {f["name"]: f for f in funcs}
        tu.decls = []
        tu.macros = {}
        htus[hrel] = tu
    return htus, data["gtables"]
