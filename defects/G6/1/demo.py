"""
C08: V4Map.fill_deriv_ returns NaN where its value is finite.

V4Map is y = 1 / (1 + exp(gamma * (x_i - x_j))) - 1/2.  For
gamma * (x_i - x_j) > ~709.8 the exponential overflows to inf; the value is
still the correct finite limit (-1/2) but the derivative is evaluated as
gamma * inf / (1 + inf)**2 = inf / inf = NaN (the true derivative is 0).

Such arguments are ordinary: x_i = s^2 (reduced gradient squared) of a
hydrogen-like density tail at rho = 1e-8 (ten times ABOVE the default model
cutoff DEFAULT_RHOCUT = 1e-9) is ~2e4, alpha is ~0 there.
"""
import sys
import warnings

import numpy as np

from ciderpress.dft.transform_data import FeatureList, V4Map

warnings.simplefilter("ignore")

# hydrogen 1s tail: rho = exp(-2r)/pi, |grad rho| = 2 rho
rho = np.array([1e-2, 1e-4, 1e-6, 1e-8])
sigma = (2 * rho) ** 2
s2 = sigma / (4 * (3 * np.pi**2) ** (2.0 / 3) * rho ** (8.0 / 3))
alpha = np.zeros_like(rho)  # single-orbital region
x = np.stack([rho, s2, alpha])  # raw features (nraw, nsamp)
print("rho   =", rho)
print("s2    =", s2)

flist = FeatureList([V4Map(1, 2, 1.0)])
y = np.zeros((1, rho.size))
flist.fill_vals_(y, x)
dfdy = np.ones((1, rho.size))
dfdx = np.zeros_like(x)
flist.fill_derivs_(dfdx, dfdy, x)

# reference: central finite difference of the (finite) value
ref = np.zeros_like(x)
for row in (1, 2):
    h = 1e-3
    xp, xm = x.copy(), x.copy()
    xp[row] += h
    xm[row] -= h
    yp, ym = np.zeros_like(y), np.zeros_like(y)
    flist.fill_vals_(yp, xp)
    flist.fill_vals_(ym, xm)
    ref[row] = (yp[0] - ym[0]) / (2 * h)

print("value y          =", y[0])
print("dy/ds2 analytic  =", dfdx[1])
print("dy/ds2 fin.diff. =", ref[1])
print("dy/dalpha analyt =", dfdx[2])
print("dy/dalpha f.d.   =", ref[2])

ok = True
if not np.isfinite(y).all():
    print("FAIL: value not finite")
    ok = False
if not np.isfinite(dfdx).all():
    print(
        "FAIL: expected finite derivative (0 in the saturated region), observed",
        dfdx[1:],
    )
    ok = False
elif not np.allclose(dfdx, ref, atol=1e-6):
    print("FAIL: derivative disagrees with finite difference")
    ok = False
if ok:
    print("OK: V4Map derivative finite and consistent with its value")
sys.exit(0 if ok else 1)
