import sys, os
sys.path.insert(0, os.path.dirname(__file__))
import cider_env; cider_env.install()
import numpy as np
from ciderpress.dft.xc_evaluator import SplineSetEvaluator
from interpolation.splines import filter_cubic
grid = ((0.0, 1.0, 10),)
x = np.linspace(0,1,10)
vals = np.sin(3*x)
coeffs = filter_cubic(grid, vals)
print(coeffs.shape)
ev = SplineSetEvaluator([1.0], [[0]], [grid], [coeffs])
X = np.array([[0.1],[0.5],[0.95]])
print(ev(X)[0], np.sin(3*X[:,0]))
# mismatched coeffs (too short)
big = np.zeros(40); big[:6] = coeffs[:6]
ev2 = SplineSetEvaluator([1.0], [[0]], [grid], [big[:6]])
r1 = ev2(X)[0].copy(); big[6:] = 1e3; r2 = ev2(X)[0].copy()
print(r1, r2)
# ind_set column out of range
try:
    ev3 = SplineSetEvaluator([1.0], [[3]], [grid], [coeffs]); print(ev3(X))
except Exception as e: print("rejected", repr(e))
# grid dims (2) != len(ind_set) (1)
try:
    g2 = ((0.0,1.0,10),(0.0,1.0,10))
    ev4 = SplineSetEvaluator([1.0], [[0]], [g2], [coeffs]); print(ev4(X))
except Exception as e: print("rejected", type(e).__name__)
