"""Definite non-contiguity: array values that are provably strided *views* (a column / inner-axis slice of an
array with two or more axes, or a stepped slice) and where they flow.

Only basic indexing with literal slice syntax is judged; everything else is `unknown` and never reported:
  A[:, :k]  A[:, a:b]  A[..., :k]  A[:, i]  A[a:b, c:d]  A[::2]  A[:, ::2]     -> strided view (not C-contiguous
                                                                                 unless an extent happens to be 1/full)
  A[a:b]  A[a:b, :]  A[i, a:b]  A[i]  A[:]  A[...]                             -> contiguous if A is
Transposes (`.T`, `.transpose`) are *not* reported: they address the whole buffer and the repository passes them to C
on purpose (PySCF idiom).  A value stops being a view when it passes through np.ascontiguousarray / asfortranarray /
np.array / np.require / .copy() / arithmetic / any other call, or is indexed again.

Flow: reaching definitions over the statement CFG inside a function; `return` values give function summaries that
are followed through calls of module-level functions, `self.`-methods and functions imported from other repository
modules (one level of modules, bounded depth); `self.attr = <view>` marks the attribute for the whole class.
"""
import ast

from sa import cfg as cfgm, pyfacts as pf

SANITIZERS = {"np.ascontiguousarray", "np.asfortranarray", "np.array", "np.require", "np.copy",
              "numpy.ascontiguousarray", "numpy.asfortranarray", "numpy.array", "numpy.require", "numpy.copy"}


def _is_full(e):
    return isinstance(e, ast.Slice) and e.lower is None and e.upper is None and (
        e.step is None or (isinstance(e.step, ast.Constant) and e.step.value in (None, 1)))


def _is_partial(e):
    return isinstance(e, ast.Slice) and (e.lower is not None or e.upper is not None)


def _stepped(e):
    if not isinstance(e, ast.Slice) or e.step is None:
        return False
    if isinstance(e.step, ast.Constant) and e.step.value in (None, 1):
        return False
    return True


def _is_int_index(e):
    if isinstance(e, ast.Constant) and isinstance(e.value, int) and not isinstance(e.value, bool):
        return True
    if isinstance(e, ast.UnaryOp) and isinstance(e.op, ast.USub) and isinstance(e.operand, ast.Constant):
        return True
    return False


def strided_view(sub):
    """ast.Subscript -> reason text when the basic index expression selects a strided subset of a C-ordered
    array with >= 2 axes (or steps over elements); None when contiguous or not decidable"""
    if not isinstance(sub, ast.Subscript):
        return None
    idx = sub.slice
    elts = list(idx.elts) if isinstance(idx, ast.Tuple) else [idx]
    if any(_stepped(e) for e in elts):
        return "stepped slice `%s`" % pf.src(sub)
    # every element must be literal syntax we understand, else undecidable
    for e in elts:
        if not (isinstance(e, ast.Slice) or _is_int_index(e) or (isinstance(e, ast.Constant) and e.value is Ellipsis)):
            return None
        if isinstance(e, ast.Slice) and any(x is not None and not isinstance(x, (ast.Constant, ast.Name, ast.Attribute,
                                                                                   ast.BinOp, ast.Call, ast.UnaryOp,
                                                                                   ast.Subscript))
                                            for x in (e.lower, e.upper)):
            return None
    seen_open = False  # a full slice or an ellipsis (an axis that is kept whole) has been passed
    seen_partial = False
    for e in elts:
        ell = isinstance(e, ast.Constant) and e.value is Ellipsis
        if _is_full(e) or ell:
            if seen_partial:
                continue  # A[a:b, :] fine
            seen_open = True
        elif _is_partial(e):
            if seen_open or seen_partial:
                return "inner-axis slice `%s` of an array with several axes (rows are no longer adjacent)" % pf.src(sub)
            seen_partial = True
        elif _is_int_index(e):
            if seen_open or seen_partial:
                return "inner-axis index `%s` behind a sliced axis (elements are a stride apart)" % pf.src(sub)
    return None


class Engine:
    def __init__(self, tree, rels):
        self.tree = tree
        self.rels = [r for r in rels if tree.exists(r)]
        self.mods = {}
        self._summ = {}
        self._rd = {}
        self._attr = {}

    # -- modules -------------------------------------------------------------
    def module(self, rel):
        if rel not in self.mods:
            self.mods[rel] = pf.Module(self.tree, rel)
        return self.mods[rel]

    def resolve_callee(self, rel, call, fn):
        """-> (rel, FunctionDef) of a repository function called by `call`, or None"""
        mod = self.module(rel)
        f = call.func
        if isinstance(f, ast.Name):
            if f.id in mod.functions:
                return rel, mod.functions[f.id]
            if f.id in mod.imports:
                m, n = mod.imports[f.id]
                if n is not None and m.startswith("ciderpress"):
                    r2 = m.replace(".", "/") + ".py"
                    if self.tree.exists(r2):
                        m2 = self.module(r2)
                        if n in m2.functions:
                            return r2, m2.functions[n]
        if isinstance(f, ast.Attribute) and isinstance(f.value, ast.Name) and f.value.id in ("self", "cls") and fn is not None:
            cls = pf.enclosing_class(fn)
            while cls is not None:
                ms = pf.methods(cls)
                if f.attr in ms:
                    return rel, ms[f.attr]
                nxt = None
                for b in cls.bases:
                    if isinstance(b, ast.Name) and b.id in mod.classes:
                        nxt = mod.classes[b.id]
                        break
                cls = nxt
        return None

    # -- reaching definitions -------------------------------------------------
    def reaching(self, fn):
        """-> (cfg, {node id: {name: set(value expr | None)}})  definitions reaching the *entry* of each node"""
        key = id(fn)
        if key in self._rd:
            return self._rd[key]
        g = cfgm.CFG(fn)
        gen = {}
        for nd in g.nodes:
            a = nd.ast
            d = {}
            if a is None:
                pass
            elif nd.kind == "stmt" and isinstance(a, ast.Assign):
                for t in a.targets:
                    if isinstance(t, ast.Name):
                        d[t.id] = a.value
                    else:
                        for x in ast.walk(t):
                            if isinstance(x, ast.Name) and isinstance(x.ctx, ast.Store):
                                d[x.id] = None
            elif nd.kind == "stmt" and isinstance(a, (ast.AugAssign, ast.AnnAssign)):
                if isinstance(a.target, ast.Name):
                    d[a.target.id] = a.value if isinstance(a, ast.AnnAssign) else None
            elif nd.kind == "iter":
                for x in ast.walk(a.target):
                    if isinstance(x, ast.Name):
                        d[x.id] = None
            elif nd.kind == "with":
                for it in a.items:
                    if it.optional_vars is not None:
                        for x in ast.walk(it.optional_vars):
                            if isinstance(x, ast.Name):
                                d[x.id] = None
            elif nd.kind == "stmt" and isinstance(a, (ast.Global, ast.Nonlocal)):
                pass
            gen[nd.id] = d
        ins = {nd.id: {} for nd in g.nodes}
        work = [g.entry.id]
        outs = {}
        while work:
            u = work.pop(0)
            cur = {k: set(v) for k, v in ins[u].items()}
            for name, val in gen[u].items():
                cur[name] = {val}
            if outs.get(u) == cur:
                continue
            outs[u] = cur
            for v in g.succ[u]:
                changed = False
                for name, vals in cur.items():
                    tgt = ins[v].setdefault(name, set())
                    if not vals <= tgt:
                        tgt |= vals
                        changed = True
                if changed or v not in outs:
                    if v not in work:
                        work.append(v)
        self._rd[key] = (g, ins)
        return self._rd[key]

    # -- values --------------------------------------------------------------
    def view_reason(self, rel, fn, expr, node_id=None, depth=0, _seen=None):
        """reason text when `expr`, evaluated at CFG node `node_id` of `fn`, may be a strided view"""
        if depth > 6:
            return None
        _seen = _seen if _seen is not None else set()
        r = strided_view(expr)
        if r is not None:
            return r
        if isinstance(expr, ast.IfExp):
            return self.view_reason(rel, fn, expr.body, node_id, depth + 1, _seen) or \
                self.view_reason(rel, fn, expr.orelse, node_id, depth + 1, _seen)
        if isinstance(expr, ast.Name) and fn is not None:
            g, ins = self.reaching(fn)
            defs = ins.get(node_id, {}).get(expr.id) if node_id is not None else None
            if defs is None:
                # module-level global assigned in some function (cache tables)
                return self.global_reason(rel, expr.id, depth)
            for d in defs:
                if d is None or (id(d), node_id) in _seen:
                    continue
                _seen.add((id(d), node_id))
                dn = g.stmt_of_expr(d)
                r = self.view_reason(rel, fn, d, dn.id if dn is not None else None, depth + 1, _seen)
                if r:
                    return "%s (bound to `%s` at line %s)" % (r, expr.id, getattr(d, "lineno", "?"))
            return None
        if isinstance(expr, ast.Attribute) and isinstance(expr.value, ast.Name) and expr.value.id == "self" and fn is not None:
            return self.attr_reason(rel, pf.enclosing_class(fn), expr.attr, depth)
        if isinstance(expr, ast.Call):
            cn = pf.call_name(expr)
            if cn in SANITIZERS:
                return None
            if isinstance(expr.func, ast.Attribute) and expr.func.attr == "view" and not expr.args:
                return self.view_reason(rel, fn, expr.func.value, node_id, depth + 1, _seen)
            rc = self.resolve_callee(rel, expr, fn)
            if rc is not None:
                r = self.summary(rc[0], rc[1], depth + 1)
                if r:
                    return "%s returned by %s()" % (r, rc[1].name)
        return None

    def summary(self, rel, fn, depth=0):
        key = (rel, id(fn))
        if key in self._summ:
            return self._summ[key]
        self._summ[key] = None
        if depth > 6:
            return None
        g, ins = self.reaching(fn)
        res = None
        for n in pf.walk_no_nested(fn):
            if isinstance(n, ast.Return) and n.value is not None:
                nd = g.node_of(n)
                vals = n.value.elts if isinstance(n.value, ast.Tuple) else [n.value]
                if isinstance(n.value, ast.Tuple):
                    continue  # tuple results: element tracking not modelled
                for v in vals:
                    r = self.view_reason(rel, fn, v, nd.id if nd is not None else None, depth + 1)
                    if r:
                        res = "%s (line %s)" % (r, n.lineno)
                        break
            if res:
                break
        self._summ[key] = res
        return res

    def global_reason(self, rel, name, depth):
        """module-level name declared `global` in a function and assigned a view there"""
        mod = self.module(rel)
        for fn in ast.walk(mod.ast):
            if isinstance(fn, ast.FunctionDef) and any(isinstance(s, ast.Global) and name in s.names
                                                       for s in pf.walk_no_nested(fn)):
                g, ins = self.reaching(fn)
                for n in pf.walk_no_nested(fn):
                    if isinstance(n, ast.Assign) and any(isinstance(t, ast.Name) and t.id == name for t in n.targets):
                        nd = g.node_of(n)
                        r = self.view_reason(rel, fn, n.value, nd.id if nd is not None else None, depth + 1)
                        if r:
                            return r
        return None

    def attr_reason(self, rel, cls, attr, depth):
        if cls is None:
            return None
        key = (rel, cls.name, attr)
        if key in self._attr:
            return self._attr[key]
        self._attr[key] = None
        res = None
        mod = self.module(rel)
        classes = [cls]
        seen = {cls.name}
        while classes:
            c = classes.pop()
            for m_ in pf.methods(c).values():
                g, ins = self.reaching(m_)
                for n in pf.walk_no_nested(m_):
                    if isinstance(n, ast.Assign) and any(pf.is_self_attr(t, attr) for t in n.targets):
                        nd = g.node_of(n)
                        r = self.view_reason(rel, m_, n.value, nd.id if nd is not None else None, depth + 1)
                        if r:
                            res = "%s (stored in self.%s by %s.%s)" % (r, attr, c.name, m_.name)
                            break
                if res:
                    break
            if res:
                break
            for b in c.bases:
                if isinstance(b, ast.Name) and b.id in mod.classes and b.id not in seen:
                    seen.add(b.id)
                    classes.append(mod.classes[b.id])
        self._attr[key] = res
        return res
