"""Build the CiderPress C libraries from the sources of the imported package
into a cache directory and hand them to the real Python wrappers through a
patched numpy.ctypeslib.load_library.  Import this module BEFORE importing
any ciderpress module that loads a C library."""
import ctypes
import glob
import hashlib
import os
import subprocess
import sys
import tempfile

import numpy
import numpy.ctypeslib
import pyscf
import pyscf.dft  # noqa  (loads libdft / libcgto / libcint / openblas)
import pyscf.lib

import ciderpress

_src = os.path.join(os.path.dirname(ciderpress.__file__), "lib")
_P = os.path.join(os.path.dirname(pyscf.__file__), "lib")
_blas = glob.glob(os.path.join(_P, "libopenblas*.so"))[0]


def _hash(files):
    h = hashlib.sha1()
    for f in sorted(files):
        with open(f, "rb") as fh:
            h.update(fh.read())
    return h.hexdigest()[:12]


def _build(name, files, extra):
    tag = _hash(files)
    out_dir = os.path.join(tempfile.gettempdir(), "cider_hunt_H4_libs_" + tag)
    os.makedirs(out_dir, exist_ok=True)
    out = os.path.join(out_dir, name + ".so")
    if not os.path.exists(out):
        cmd = (
            ["gcc", "-O2", "-fopenmp", "-shared", "-fPIC", "-w"]
            + ["-I" + os.path.join(_P, "deps", "include")]
            + ["-I" + os.path.join(_src, "fft_wrapper")]
            + files
            + ["-o", out + ".tmp%d" % os.getpid()]
            + extra
            + ["-Wl,-rpath," + _P, "-Wl,-rpath," + os.path.join(_P, "deps", "lib")]
            + ["-lm"]
        )
        subprocess.check_call(cmd)
        os.replace(out + ".tmp%d" % os.getpid(), out)
    return out


_mc = [
    os.path.join(_src, "mod_cider", f + ".c")
    for f in (
        "frac_lapl cider_coefs cider_grids spline sph_harm conv_interpolation "
        "convolutions fast_sdmx model_utils"
    ).split()
]
_paths = {
    "libmcider": _build(
        "libmcider",
        _mc,
        [
            _blas,
            os.path.join(_P, "deps", "lib", "libcint.so"),
            os.path.join(_P, "libcgto.so"),
            os.path.join(_P, "libdft.so"),
            os.path.join(_P, "libnp_helper.so"),
        ],
    ),
    "libxc_utils": _build(
        "libxc_utils",
        [os.path.join(_src, "xc_utils", "libxc_baselines.c")],
        [_blas, os.path.join(_P, "deps", "lib", "libxc.so")],
    ),
    "libnumint": _build(
        "libnumint",
        [os.path.join(_src, "numint_cider", "nr_numint.c")],
        [_blas],
    ),
}

_orig = numpy.ctypeslib.load_library


def _load(libname, loader_path):
    if libname in _paths:
        return ctypes.CDLL(_paths[libname])
    return _orig(libname, loader_path)


numpy.ctypeslib.load_library = _load
