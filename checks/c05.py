#!/usr/bin/env python3
"""C05 -- every reverse-mode operator is the exact adjoint of its forward operator.
Static rules (DESIGN.md §C05, engine sa/mirror.py):

 c-mirror     C kernel pairs: the backward function's linear updates are the forward
              function's with the two end points exchanged (index polynomials in normal
              form, DGEMM expanded element-wise, bound variables matched by bijection)
 c-dirflag    multiply_atc_integrals{,_vk}: body specialised on fwd=1 and fwd=0 are transposes
 c-overwrite  no `W[i] = c*R[j]` inside a loop that does not select the written cell
 c-mixed      an output array is not partly overwritten and partly accumulated
 py-select    `if fwd: fn = libcider.A else: fn = libcider.B` selects a designated pair,
              forward on the true side, and both share one argument list
 py-reverse   Python compositions: backward calls the partner primitives with negated
              direction flag, identical static arguments, dependent calls in reverse order
 py-branch    get_transformed_interpolation_terms: fwd / not-fwd branches are mirror images
"""
import os
import sys

sys.path.insert(0, os.path.dirname(os.path.dirname(os.path.abspath(__file__))))
from sa import core, cfacts, mirror as M  # noqa: E402
from sa.selftest import Mutant  # noqa: E402

PROP = "C05"
CONV = "mod_cider/convolutions.c"
INTERP = "mod_cider/conv_interpolation.c"
SDMX = "mod_cider/fast_sdmx.c"
GRIDS = "mod_cider/cider_grids.c"
C_FILES = [CONV, INTERP, SDMX, GRIDS]

# (file, forward, backward)
C_PAIRS = [
    (GRIDS, "reduce_angc_to_ylm", "reduce_ylm_to_angc"),
    (CONV, "contract_rad_to_orb", "contract_orb_to_rad"),
    (CONV, "contract_orb_to_rad_num", "contract_rad_to_orb_num"),
    (INTERP, "project_conv_to_spline", "project_spline_to_conv"),
    (INTERP, "fill_l1_coeff_fwd", "fill_l1_coeff_bwd"),
    (INTERP, "add_lp1_term_fwd", "add_lp1_term_bwd"),
    (INTERP, "add_lp1_term_onsite_fwd", "add_lp1_term_onsite_bwd"),
    (INTERP, "add_lp1_onsite_new_fwd", "add_lp1_onsite_new_bwd"),
    (INTERP, "compute_mol_convs_single_new", "compute_pot_convs_single_new"),
    (SDMX, "SDMXcontract_ao_to_bas", "SDMXcontract_ao_to_bas_bwd"),
    (SDMX, "SDMXcontract_ao_to_bas_grid", "SDMXcontract_ao_to_bas_grid_bwd"),
    (SDMX, "SDMXcontract_ao_to_bas_l1", "SDMXcontract_ao_to_bas_l1_bwd"),
    (SDMX, "contract_shl_to_alpha_l1", "contract_shl_to_alpha_l1_bwd"),
]
# one function with a direction flag: (file, function, flag, exchanged data arrays, locals kept symbolic)
C_FLAGGED = [
    (CONV, "multiply_atc_integrals", "fwd", {"inp_uq": "out_vq"}, ("ia", "l")),
    (CONV, "multiply_atc_integrals_vk", "fwd", {"inp_uq": "out_vq"}, ("ia", "l")),
]
PAIR_OF = {}
for _f, _a, _b in C_PAIRS:
    PAIR_OF[_a] = ("fwd", _b)
    PAIR_OF[_b] = ("bwd", _a)


def lib_rel(rel):
    return cfacts.LIB + "/" + rel


def report_pair(chk, rule, rel, pr, inst):
    if pr.status == "not-comparable":
        chk.count("pairs not comparable")
        chk.note(rule, "%s:%s" % (rel, inst), "not-comparable (no verdict): %s" % pr.why)
        chk.extra.setdefault("not_comparable", []).append({"pair": inst, "why": pr.why})
        return
    detail = {"mode": pr.mode, "edges": list(pr.n_edges)}
    if pr.assumed:
        detail["loop variable identified with table lookup (iteration-space assumption)"] = pr.assumed
    if getattr(pr, "flat", None):
        detail["flat loop variable identified with nested loops"] = pr.flat
    detail["loop bounds compared"] = getattr(pr, "n_bounds", 0)
    if pr.status == "ok":
        chk.ok(rule, inst, detail=detail)
        chk.count("linear edges compared", pr.n_edges[0])
        chk.count("loop bounds compared", getattr(pr, "n_bounds", 0))
        chk.count("dgemm edges expanded", pr.n_gemm)
        return
    if pr.status == "violation" and getattr(pr, "bound_diffs", None) and not pr.diffs and not pr.kill_diffs:
        chk.count("loop bounds compared", pr.n_bounds)
        for which, f_lp, b_lp, tf, tb in pr.bound_diffs:
            chk.violation(rule, lib_rel(rel), pr.bwd, "loop over %s: %s bound" % (b_lp.name, "lower" if which == "lo" else "upper"),
                          b_lp.line,
                          "the two directions apply the same updates over different iteration spaces: the %s bound of "
                          "the loop over `%s` is `%s` in %s (line %d) but `%s` in %s (line %d); both are computed from "
                          "the parameters only, so elements are visited by one direction and not by the other" % (
                              "lower" if which == "lo" else "upper", f_lp.name, tf, pr.fwd, f_lp.line, tb, pr.bwd,
                              b_lp.line), instance=inst)
        return
    # violation: one finding per pair, keyed by the first offending statement
    lines = []
    first = None
    for side, t in pr.diffs:
        fn = pr.fwd if side == "fwd" else pr.bwd
        if first is None or side == "bwd":
            if first is None or first[0] != "bwd":
                first = (side, fn, t.edge)
        lines.append("%s %s line %d `%s`: %s" % (side, fn, t.edge.line, t.edge.text[:70], t.describe()[:420]))
    for side, k in pr.kill_diffs:
        lines.append("%s zeroes %s, the other direction does not" % (side, k))
    if first is not None:
        side, fn, e = first
        construct, line = e.text, e.line
    else:
        fn, construct, line = pr.bwd, "zeroed cells", 0
    nmis = len(pr.diffs)
    flat = ""
    if getattr(pr, "flat", None):
        flat = ("One direction walks a block with the single variable %s; identifying it with `%s` (read off one "
                "array's index) does not reproduce the other array's index. " % pr.flat[0])
    msg = ("backward is not the transpose of forward: after matching the loop variables, %d linear "
           "update(s) have no mirror image (X = forward input array, Y = forward output array). " % nmis
           + flat + " || ".join(lines))
    chk.violation(rule, lib_rel(rel), fn, construct, line, msg[:1800], instance=inst)


def rule_c_pairs(chk, tus):
    for rel, f, b in C_PAIRS:
        tu = tus[rel]
        tu.func(f)
        tu.func(b)
        pr = M.compare_pair(tu, f, tu, b)
        red = chk.__dict__.setdefault("_c_red", {})
        red.setdefault(f, []).append(pr.Rf)
        red.setdefault(b, []).append(pr.Rb)
        report_pair(chk, "c-mirror", rel, pr, "%s / %s" % (f, b))
        single_function_rules(chk, rel, pr)


def single_function_rules(chk, rel, pr):
    for R, fn in ((pr.Rf, pr.fwd), (pr.Rb, pr.bwd)):
        if R is None:
            continue
        n = 0
        for s, bad in M.overwriting_stores(R):
            n += 1
            chk.violation("c-overwrite", lib_rel(rel), fn, s.text, s.line,
                          "`=` store into %s inside loop(s) over %s whose variable does not select the written "
                          "element while the stored value depends on it: every iteration overwrites the previous "
                          "contribution instead of accumulating (a scatter/contraction must use `+=`)" % (
                              M.show_atom(s.root), ", ".join(bad)), instance="%s: %s" % (fn, s.text))
        cand = [s for s in R.stores if s.op == "=" and not s.rhs.is_zero() and s.root[0] == "par"
                and s.root in R.data_roots]
        for s in cand:
            if not any(s is x for x, _ in M.overwriting_stores(R)):
                chk.ok("c-overwrite", "%s: %s" % (fn, s.text))
        for s, lc in M.skipped_assignments(R):
            c, line = lc[0]
            chk.violation("c-skip-assign", lib_rel(rel), fn, s.text, s.line,
                          "this statement ASSIGNS the block of output `%s` it addresses (%s), but the `continue` at "
                          "line %d skips it when `%s` holds: on that path the block keeps the previous contents of the "
                          "caller's buffer instead of the (zero) result, while the twin direction only accumulates and "
                          "is unaffected by the same skip" % (
                              M.show_atom(s.root), "DGEMM with BETA=0 writes its M x N block even when K=0"
                              if s.gemm else "`=` store", line, M.show(c)), instance="%s: %s" % (fn, s.text))
        for s in R.stores:
            if s.op == "=" and s.root[0] == "par" and s.root in R.data_roots and s.root not in R.leaf_reads \
                    and not any(s is x for x, _ in M.skipped_assignments(R)):
                chk.ok("c-skip-assign", "%s: %s" % (fn, s.text))
        acc = [s for s in R.stores if s.op == "+=" and s.root[0] == "par" and s.root in R.data_roots]
        mixed = M.mixed_mode_roots(R)
        seen = set()
        for root, a, k in mixed:
            chk.violation("c-mixed", lib_rel(rel), fn, k.text, k.line,
                          "output array %s is overwritten by `%s` but accumulated by `%s` into elements the function "
                          "never initialises: the result depends on which elements the caller zeroed (one `+=` "
                          "was turned into `=`, or an initialisation is missing)" % (
                              M.show_atom(root), k.text[:60], a.text[:60]), instance="%s: %s" % (fn, M.show_atom(root)))
            seen.add(root)
        for root in {s.root for s in acc} - seen:
            chk.ok("c-mixed", "%s: %s" % (fn, M.show_atom(root)))


SCRATCH_FILES = [CONV, INTERP, SDMX, "mod_cider/frac_lapl.c"]


def rule_c_scratch(chk, tree):
    """every function of the four kernel files that the executor can reduce: a private scratch array is
    read with the linear layout it was filled with"""
    tus = cfacts.load_all(tree, SCRATCH_FILES)
    for rel in SCRATCH_FILES:
        tu = tus[rel]
        for f in sorted(tu.funcs):
            try:
                ex, st, _ = M.run_function(tu, f)
            except M.Irreducible:
                chk.count("functions outside the reducible fragment (scratch layout not examined)")
                continue
            if not ex.buffers:
                continue
            for buf, verdict, s, q, why in M.scratch_layout(st, ex.buffers):
                inst = "%s: %s[%s]" % (f, buf, M.show(q))
                if verdict == "ok":
                    chk.ok("c-scratch-layout", inst)
                elif verdict == "undecided":
                    chk.count("scratch reads with undecided layout")
                else:
                    w, (lp, stp, tr, wv) = why
                    chk.violation("c-scratch-layout", lib_rel(rel), f, s.text, s.line,
                                  "private array `%s` is filled by `%s` (line %d) with strides %s but read here as "
                                  "%s[%s]: the loop over `%s` steps by %s over %s elements, which matches none of the "
                                  "producer's dimensions -- producer and consumer disagree about the layout" % (
                                      buf, w.text[:80], w.line,
                                      ", ".join("%s:%s(x%s)" % (l.name, M.show(a), M.show(b)) for l, a, b in wv),
                                      buf, M.show(q), lp.name, M.show(stp), M.show(tr)),
                                  instance="%s: %s" % (f, buf))


def rule_c_flagged(chk, tus):
    for rel, f, flag, swap, opaque in C_FLAGGED:
        tu = tus[rel]
        tu.func(f)
        pr = M.compare_pair(tu, f, tu, f, consts_f={flag: 1}, consts_b={flag: 0}, opaque=opaque, swap=swap)
        pr.fwd, pr.bwd = "%s[%s=1]" % (f, flag), "%s[%s=0]" % (f, flag)
        red = chk.__dict__.setdefault("_c_red", {})
        red.setdefault(f, []).extend([pr.Rf, pr.Rb])
        report_pair(chk, "c-dirflag", rel, pr, "%s %s=1 / %s=0" % (f, flag, flag))
        single_function_rules(chk, rel, pr)


# ----------------------------------------------------------------------------
# Level 2: Python compositions
# ----------------------------------------------------------------------------
LI = "ciderpress/dft/lcao_interpolation.py"
LC = "ciderpress/dft/lcao_convolutions.py"
GI = "ciderpress/dft/grids_indexer.py"
NG = "ciderpress/dft/lcao_nldf_generator.py"
PL = "ciderpress/dft/plans.py"
SX = "ciderpress/pyscf/sdmx.py"

# primitive tables; `def` (file, qualname) is used to verify the positional parameter names
P_ORB2SPLINE = dict(flag="fwd", X=["f_uq"], Y=["f_arlpq"], defn=(LI, "LCAOInterpolator._orb2spline_"),
                    params=["atco", "f_arlpq", "f_uq", "w_rsp", "nalpha", "offset_spline", "offset_orb", "fwd"])
P_FILL_L1 = dict(flag="fwd", X=["f_uq"], Y=["f1_uq"], defn=(LI, "LCAOInterpolator._fill_l1_coeff_"),
                 params=["f_uq", "f1_uq", "offset", "offset1", "fwd"])
P_ONSITE = dict(flag="fwd", X=["f_uq"], Y=["f_gq"], defn=(LI, "LCAOInterpolatorDirect._run_onsite_orb2grid"),
                params=["atco", "f_uq", "f_gq", "nalpha", "offset1", "offset2", "fwd"])
P_LP1 = dict(flag="fwd", IO=["f_gq"], defn=(LI, "LCAOInterpolatorDirect._run_onsite_lp1"), params=["f_gq", "fwd"])
P_L1FILL = dict(flag="fwd", IO=["f_gq"], defn=(LI, "LCAOInterpolator._call_l1_fill"),
                params=["f_gq", "atom_coord", "fwd"])
P_C2S = dict(partner="spline2conv", dir=True, X=["f_uq"], Y=["f_arlpq"], ret=["Y", "Y"],
             defn=(LI, "LCAOInterpolator.conv2spline"), params=["f_uq", "f_arlpq", "return_f1_uq"])
P_S2C = dict(partner="conv2spline", dir=False, X=["f_uq"], Y=["f_arlpq", "f1_uq"], ret=["X"],
             defn=(LI, "LCAOInterpolator.spline2conv"), params=["f_arlpq", "f_uq", "f1_uq"])
P_IFWD = dict(partner="interpolate_bwd", dir=True, X=["f_arlpq"], Y=["f_gq"], ret=["Y"],
              defn=(LI, "LCAOInterpolator.interpolate_fwd"), params=["f_arlpq", "f_gq"])
P_IBWD = dict(partner="interpolate_fwd", dir=False, X=["f_arlpq"], Y=["f_gq"], ret=["X"],
              defn=(LI, "LCAOInterpolator.interpolate_bwd"), params=["f_gq", "f_arlpq"])
P_INDEX = dict(flag=None)
P_RAD2ORB = dict(flag="rad2orb", X=["theta_rlmq"], Y=["p_uq"], defn=(LC, "ATCBasis.convert_rad2orb_"),
                 params=["theta_rlmq", "p_uq", "loc", "rads", "rad2orb", "offset", "zero_output"])
P_ANGC = dict(flag="a2y", X=["theta_gq"], Y=["theta_rlmq"], defn=(GI, "AtomicGridsIndexer.reduce_angc_ylm_"),
              params=["theta_rlmq", "theta_gq", "a2y", "offset"])
P_TRANSF = dict(flag="fwd", IO=["p_xx"], defn=(PL, "NLDFAuxiliaryPlan.get_transformed_interpolation_terms"),
                params=["p_xx", "i", "fwd", "inplace"])
P_MULT = dict(flag="fwd", IN=["input"], OUT=["output"], defn=(LC, "ConvolutionCollection.multiply_atc_integrals"),
              params=["input", "output", "fwd"])
P_O2G = dict(partner="project_grid2orb", dir=True, X=["f_uq"], Y=["f_gq"], ret=["Y"],
             defn=(LI, "LCAOInterpolator.project_orb2grid"), params=["f_uq", "f_gq"])
P_G2O = dict(partner="project_orb2grid", dir=False, X=["f_uq"], Y=["f_gq"], ret=["X"],
             defn=(LI, "LCAOInterpolator.project_grid2orb"), params=["f_gq", "f_uq"])
P_MOLCONV = dict(partner="compute_pot_convs_single_new", dir=True, X=[1], Y=[0])
P_POTCONV = dict(partner="compute_mol_convs_single_new", dir=False, X=[1], Y=[0])
# EXX chain
P_DOT_AO_DM = dict(partner="_dot_ao_ao", dir=True, X=[2], ret=["Y"])
P_DOT_AO_AO = dict(partner="_dot_ao_dm", dir=False, Y=[2], ret=["X"])
P_A2B = dict(partner="_contract_ao_to_bas_bwd", dir=True, X=["c0"], ret=["Y"],
             defn=(SX, "EXXSphGenerator._contract_ao_to_bas"),
             params=["mol", "c0", "shls_slice", "ao_loc", "coords", "ylm"])
P_A2B_BWD = dict(partner="_contract_ao_to_bas", dir=False, Y=["b0"], ret=["X"],
                 defn=(SX, "EXXSphGenerator._contract_ao_to_bas_bwd"),
                 params=["mol", "b0", "shls_slice", "ao_loc", "coords", "ylm"])
P_SHL = dict(partner="contract_shl_to_alpha_l1_bwd", dir=True, X=[4], Y=[3])
P_SHL_BWD = dict(partner="contract_shl_to_alpha_l1", dir=False, X=[4], Y=[3])
P_PLAN_F = dict(partner="get_vxc", dir=True, X=["p_vag"], Y=["out"], AUX=["l0tmp", "l1tmp"],
                defn=(PL, "SDMXBasePlan.get_features"), params=["p_vag", "out", "l0tmp", "l1tmp"])
P_PLAN_B = dict(partner="get_features", dir=False, Y=["vxc_ig"], AUX=["l0tmp", "l1tmp"], ret=["X"],
                defn=(PL, "SDMXBasePlan.get_vxc"), params=["vxc_ig", "l0tmp", "l1tmp", "out"])

P_HELPER = dict(flag="bwd", flag_default=False, X=["b0"], Y=["c0"],
                defn=(SX, "EXXSphGenerator._contract_ao_to_bas_helper"),
                params=["mol", "b0", "c0", "shls_slice", "ao_loc", "coords", "ylm", "bwd"])

PY_PAIRS = [
    # (label, file, forward qualname, backward qualname, spec)
    ("LCAOInterpolator.conv2spline / spline2conv", LI, "LCAOInterpolator.conv2spline",
     "LCAOInterpolator.spline2conv",
     M.PySpec({"_orb2spline_": P_ORB2SPLINE, "_fill_l1_coeff_": P_FILL_L1})),
    ("LCAOInterpolator.project_orb2grid / project_grid2orb", LI, "LCAOInterpolator.project_orb2grid",
     "LCAOInterpolator.project_grid2orb",
     M.PySpec({"conv2spline": P_C2S, "spline2conv": P_S2C, "interpolate_fwd": P_IFWD, "interpolate_bwd": P_IBWD})),
    ("LCAOInterpolatorDirect.project_orb2grid / project_grid2orb", LI, "LCAOInterpolatorDirect.project_orb2grid",
     "LCAOInterpolatorDirect.project_grid2orb",
     M.PySpec({"conv2spline": P_C2S, "spline2conv": P_S2C, "interpolate_fwd": P_IFWD, "interpolate_bwd": P_IBWD,
               "_run_onsite_orb2grid": P_ONSITE, "_run_onsite_lp1": P_LP1, "index_map": P_INDEX})),
    ("LCAOInterpolatorDirect._run_onsite_orb2grid fwd=True / fwd=False", LI,
     "LCAOInterpolatorDirect._run_onsite_orb2grid", "LCAOInterpolatorDirect._run_onsite_orb2grid",
     M.PySpec({"convert_rad2orb_": P_RAD2ORB, "reduce_angc_ylm_": P_ANGC}, {"fwd": True}, {"fwd": False})),
    ("LCAOInterpolator._interpolate_nopar_atom fwd=True / fwd=False", LI,
     "LCAOInterpolator._interpolate_nopar_atom", "LCAOInterpolator._interpolate_nopar_atom",
     M.PySpec({"compute_mol_convs_single_new": P_MOLCONV, "compute_pot_convs_single_new": P_POTCONV,
               "_call_l1_fill": P_L1FILL}, {"fwd": True}, {"fwd": False})),
    ("LCAONLDFGenerator._perform_fwd_convolution / _perform_bwd_convolution", NG,
     "LCAONLDFGenerator._perform_fwd_convolution", "LCAONLDFGenerator._perform_bwd_convolution",
     M.PySpec({"reduce_angc_ylm_": P_ANGC, "convert_rad2orb_": P_RAD2ORB,
               "get_transformed_interpolation_terms": P_TRANSF, "multiply_atc_integrals": P_MULT,
               "project_orb2grid": P_O2G, "project_grid2orb": P_G2O}, {"grad_mode": False}, {})),
    ("EXXSphGenerator._contract_ao_to_bas / _contract_ao_to_bas_bwd", SX, "EXXSphGenerator._contract_ao_to_bas",
     "EXXSphGenerator._contract_ao_to_bas_bwd", M.PySpec({"_contract_ao_to_bas_helper": P_HELPER})),
    ("EXXSphGenerator.get_features / get_vxc_", SX, "EXXSphGenerator.get_features", "EXXSphGenerator.get_vxc_",
     M.PySpec({"_dot_ao_dm": P_DOT_AO_DM, "_dot_ao_ao": P_DOT_AO_AO, "_contract_ao_to_bas": P_A2B,
               "_contract_ao_to_bas_bwd": P_A2B_BWD, "contract_shl_to_alpha_l1": P_SHL,
               "contract_shl_to_alpha_l1_bwd": P_SHL_BWD, "get_features": P_PLAN_F, "get_vxc": P_PLAN_B},
              ignore_if=True, ignore_for=True, inline=("_eval_crho_potential",), ignore_statics=True)),
]


def check_signature(chk, tree, prim, p):
    if "defn" not in p:
        return
    rel, qn = p["defn"]
    fn = M.py_find_def(tree.py(rel), qn)
    if fn is None:
        raise core.AnalysisError("primitive %s (%s) vanished from %s" % (prim, qn, rel))
    names = [a.arg for a in fn.args.args if a.arg not in ("self", "cls")]
    if names[:len(p["params"])] != p["params"]:
        raise core.AnalysisError("signature of %s changed: %s, the role table expects %s" % (qn, names, p["params"]))


def rule_py_pairs(chk, tree):
    for label, rel, fq, bq, spec in PY_PAIRS:
        chk.guard(one_py_pair, tree, label, rel, fq, bq, spec)


def one_py_pair(chk, tree, label, rel, fq, bq, spec):
    mod = tree.py(rel)
    ff, fb = M.py_find_def(mod, fq), M.py_find_def(mod, bq)
    if ff is None or fb is None:
        raise core.AnalysisError("anchor %s / %s vanished from %s" % (fq, bq, rel))
    for prim, p in spec.prims.items():
        check_signature(chk, tree, prim, p)
    cls = fq.split(".")[0]

    def find_method(nm):
        return M.py_resolve(mod, cls, nm)
    try:
        EF = M.Tracer(spec, mod, ff, spec.consts_f, find_method).events
        EB = M.Tracer(spec, mod, fb, spec.consts_b, find_method).events
    except M.Irreducible as e:
        raise core.AnalysisError("%s: %s" % (label, e))
    if not EF or not EB:
        raise core.AnalysisError("%s: no primitive call recognised (forward %d, backward %d)" % (
            label, len(EF), len(EB)))
    d = M.compare_traces(spec, EF, EB)
    chk.count("python primitive calls traced", len(EF) + len(EB))
    bad = False
    for e in d.unmatched_f:
        bad = True
        chk.violation("py-reverse", rel, fq, e.text, e.line,
                      "forward call %s(direction=%s, static args %s, under %s) has no mirror image in %s: the backward "
                      "pass must call the partner primitive with the direction flag negated and identical "
                      "offset/stride arguments. Unmatched backward calls: %s" % (
                          e.prim, e.flag, e.statics, [g for _, g in e.guards], bq,
                          ["%s(direction=%s, %s)" % (o.prim, o.flag, o.statics) for o in d.unmatched_b][:4]),
                      instance="%s: %s" % (label, e.text))
    if not d.unmatched_f:
        for o in d.unmatched_b:
            bad = True
            chk.violation("py-reverse", rel, bq, o.text, o.line,
                          "backward call %s(direction=%s, static args %s) has no forward counterpart in %s" % (
                              o.prim, o.flag, o.statics, fq), instance="%s: %s" % (label, o.text))
    for e1, e2, o1, o2 in d.order:
        bad = True
        chk.violation("py-reverse", rel, bq, o1.text, o1.line,
                      "order not reversed: forward runs `%s` before the dependent `%s` (they share a buffer that one "
                      "of them writes); the backward pass must therefore run the mirror of the second (line %d) "
                      "before the mirror of the first (line %d)" % (e1.text[:70], e2.text[:70], o2.line, o1.line),
                      instance="%s: order %s" % (label, o1.text))
    for e, o, a, b, fa, fb_ in d.bufmap_conflicts:
        bad = True
        chk.violation("py-reverse", rel, bq, o.text, o.line,
                      "buffer correspondence is not one-to-one: forward buffer %s is mirrored by %s here but by %s "
                      "elsewhere" % (a, b, fa if fa != b else fb_), instance="%s: buffers %s" % (label, o.text))
    if not bad:
        for e in EF:
            chk.ok("py-reverse", "%s: %s" % (label, e.text), detail={"direction": str(e.flag), "static": e.statics})
        chk.count("python order constraints checked", d.n_order)


# ----------------------------------------------------------------------------
# py-reverse (matrix products): X' = dot(M, x[k])  <->  vx[k] += dot(M.T, vX')
# ----------------------------------------------------------------------------
DOT_PAIRS = [("SDMXBasePlan.get_features", "SDMXBasePlan.get_vxc"), ("SADMPlan.get_features", "SADMPlan.get_vxc")]


def dot_events(fn):
    import ast as _a
    env = {}
    out = []

    def sub(e):
        return _a.unparse(M.py_inline(e, env))

    def visit(stmts, loops):
        for st in stmts:
            if isinstance(st, _a.Assign) and len(st.targets) == 1 and isinstance(st.targets[0], _a.Name) \
                    and not any(isinstance(x, _a.Call) and M._callee_name(x) == "dot" for x in _a.walk(st.value)):
                if isinstance(st.value, (_a.Call, _a.Attribute, _a.Name, _a.Subscript, _a.BinOp, _a.Constant)):
                    env[st.targets[0].id] = M.py_inline(st.value, env)
            if isinstance(st, _a.For):
                visit(st.body, loops + ["for %s in %s" % (_a.unparse(st.target), sub(st.iter))])
                continue
            if isinstance(st, _a.If):
                visit(st.body, loops)
                visit(st.orelse, loops)
                continue
            val = getattr(st, "value", None)
            if isinstance(st, (_a.Assign, _a.AugAssign)) and isinstance(val, _a.Call) and M._callee_name(val) == "dot" \
                    and len(val.args) == 2:
                tgt = st.targets[0] if isinstance(st, _a.Assign) else st.target
                mat, vec = val.args
                transposed = isinstance(mat, _a.Attribute) and mat.attr == "T"
                if transposed:
                    mat = mat.value
                if not (isinstance(tgt, _a.Subscript) and isinstance(vec, _a.Subscript)):
                    raise core.AnalysisError("dot() operands are not subscripted buffers: %s" % _a.unparse(st))
                out.append({"mat": _a.unparse(mat), "T": transposed, "acc": isinstance(st, _a.AugAssign),
                            "tgt": (_a.unparse(tgt.value), _a.unparse(tgt.slice)),
                            "vec": (_a.unparse(vec.value), _a.unparse(vec.slice)),
                            "loops": tuple(loops), "text": _a.unparse(st), "line": st.lineno})
    visit(fn.body, [])
    return out


def rule_py_dot(chk, tree):
    mod = tree.py(PL)
    for fq, bq in DOT_PAIRS:
        ff, fb = M.py_find_def(mod, fq), M.py_find_def(mod, bq)
        if ff is None or fb is None:
            raise core.AnalysisError("anchor %s / %s vanished from %s" % (fq, bq, PL))
        EF, EB = dot_events(ff), dot_events(fb)
        if not EF or not EB:
            raise core.AnalysisError("%s / %s: no pyscflib.dot() found" % (fq, bq))
        used = set()
        for e in EF:
            inst = "%s: %s" % (fq, e["text"])
            # forward: Y[jy] = dot(M, X[jx]);  mirror: X'[jx] += dot(M.T, Y'[jy]) under the same loops
            hit = None
            for j, o in enumerate(EB):
                if j in used:
                    continue
                if o["mat"] == e["mat"] and o["T"] != e["T"] and o["loops"] == e["loops"] \
                        and o["tgt"][1] == e["vec"][1] and o["vec"][1] == e["tgt"][1]:
                    hit = j
                    break
            if hit is None:
                chk.violation("py-reverse", PL, fq, e["text"], e["line"],
                              "forward product `%s` (matrix %s, reads index [%s], writes index [%s], loops %s) has no "
                              "transposed mirror in %s; candidates there: %s" % (
                                  e["text"], e["mat"], e["vec"][1], e["tgt"][1], list(e["loops"]), bq,
                                  [o["text"] for o in EB]), instance=inst)
            else:
                used.add(hit)
                o = EB[hit]
                if not o["acc"] and len([x for x in EB if x["tgt"] == o["tgt"]]) > 1:
                    chk.violation("py-reverse", PL, bq, o["text"], o["line"],
                                  "several backward products write %s[%s] but this one overwrites (`=`) instead of "
                                  "accumulating" % o["tgt"], instance=inst)
                else:
                    chk.ok("py-reverse", inst, detail={"mirror": o["text"]})
        for j, o in enumerate(EB):
            if j not in used:
                chk.violation("py-reverse", PL, bq, o["text"], o["line"],
                              "backward product `%s` has no forward counterpart in %s" % (o["text"], fq),
                              instance="%s: %s" % (bq, o["text"]))


# ----------------------------------------------------------------------------
# py-zeroinit: buffers handed to accumulate-only primitives are initialised
# ----------------------------------------------------------------------------
P_SINGLE = dict(flag="bwd", flag_default=False, X=["b0"], Y=["c0"],
                defn=(SX, "EXXSphGenerator._contract_ao_to_bas_single_"),
                params=["mol", "b0", "ylm", "c0", "shls_slice", "ao_loc", "ylm_atom_loc", "coords", "atom_coords", "bwd"])
P_EVALCRHO = dict(dir=False, defn=(SX, "EXXSphGenerator._eval_crho_potential"),
                  params=["mol", "coords", "cao", "tmp2", "shls_slice", "ao_loc", "ylm"])


def union_spec(chk):
    prims = {}
    for _, _, _, _, spec in PY_PAIRS:
        for k, v in spec.prims.items():
            if "defn" in v or k == "index_map":
                prims.setdefault(k, v)
    prims["_contract_ao_to_bas_single_"] = P_SINGLE
    red = chk.__dict__.get("_c_red", {})
    cinfo = {}
    for cname, Rs in red.items():
        if any(R is None for R in Rs):
            raise core.AnalysisError("C function %s was not reduced: its accumulate/overwrite mode is unknown" % cname)
        names = [n for n, _ in Rs[0].params]
        acc = set().union(*[M.c_accumulated_params(R) for R in Rs])
        wr = set().union(*[M.c_written_params(R) for R in Rs])
        pos_w = [i for i, n in enumerate(names) if n in wr]
        pos_acc = [i for i, n in enumerate(names) if n in acc]
        prims["libcider:%s" % cname] = dict(dir=True, OUT=pos_w)
        cinfo[cname] = (pos_w, pos_acc, names)
    return M.PySpec(prims), cinfo


def _fn_params(fn):
    return [a.arg for a in fn.args.args + fn.args.kwonlyargs if a.arg not in ("self", "cls")]


def _bool_defaults(fn):
    out = {}
    args = fn.args.args
    for a, d in zip(args[len(args) - len(fn.args.defaults):], fn.args.defaults):
        if isinstance(d, ast.Constant) and isinstance(d.value, bool):
            out[a.arg] = d.value
    return out


def event_zeroed(fn, tr, root, e):
    """the buffer is initialised before the event: in the traced function (at the call site when the
    primitive call sits in a helper that was followed) or inside one of the followed helpers"""
    if M.zeroed_before(fn, M.names_of_root(tr, root), getattr(e, "site", e.node), tr.fold):
        return True
    inner = e.node
    for hfn, sub in getattr(e, "frames", []):
        hn = {n for n, (r, v) in sub.alias.items() if r == root}
        if hn and M.zeroed_before(hfn, hn, inner, sub.fold):
            return True
    return False


class ZeroInit:
    def __init__(self, chk, tree):
        self.chk, self.tree = chk, tree
        self.spec, self.cinfo = union_spec(chk)
        self.acc = {}        # (prim, direction, overrides) -> set of parameter names accumulated into
        self.busy = set()

    def trace(self, rel, qn, consts):
        mod = self.tree.py(rel)
        fn = M.py_find_def(mod, qn)
        if fn is None:
            raise core.AnalysisError("%s vanished from %s" % (qn, rel))
        cls = qn.split(".")[0]
        try:
            tr = M.Tracer(self.spec, mod, fn, consts, lambda nm: M.py_resolve(mod, cls if "." in qn else None, nm))
        except M.Irreducible as e:
            raise core.AnalysisError("%s: %s" % (qn, e))
        return fn, tr

    def acc_writes(self, e):
        """buffer roots this event accumulates into without initialising them"""
        out = []
        if e.prim.startswith("libcider:"):
            pos_w, pos_acc, names = self.cinfo[e.prim.split(":", 1)[1]]
            for k in pos_acc:
                if k in e.bufs:
                    out.append((e.bufs[k][0], names[k]))
            return out
        p = self.spec.prims.get(e.prim)
        if not p or "defn" not in p or not isinstance(e.flag, bool) and p.get("flag"):
            return out
        rel, qn = p["defn"]
        fn = M.py_find_def(self.tree.py(rel), qn)
        over = tuple(sorted((k, v) for k, v in e.statics.items()
                            if fn is not None and k in _bool_defaults(fn) and v in ("True", "False")))
        for par in self.summary(e.prim, e.flag if p.get("flag") else p.get("dir"), over):
            if par in e.bufs:
                out.append((e.bufs[par][0], par))
        return out

    def summary(self, prim, direction, over=()):
        key = (prim, direction, over)
        if key in self.acc:
            return self.acc[key]
        if key in self.busy:
            return set()
        self.busy.add(key)
        p = self.spec.prims[prim]
        rel, qn = p["defn"]
        fn0 = M.py_find_def(self.tree.py(rel), qn)
        if fn0 is None:
            raise core.AnalysisError("%s vanished from %s" % (qn, rel))
        consts = dict(_bool_defaults(fn0))
        consts.update({k: (v == "True") for k, v in over})
        if p.get("flag"):
            consts[p["flag"]] = direction
        fn, tr = self.trace(rel, qn, consts)
        params = set(_fn_params(fn))
        res = set()
        for e in tr.events:
            for root, _ in self.acc_writes(e):
                if root in params and not event_zeroed(fn, tr, root, e):
                    res.add(root)
        self.busy.discard(key)
        self.acc[key] = res
        return res


def _exclusive(e1, e2):
    g1 = {g for _, g in e1.guards}
    g2 = {g for _, g in e2.guards}
    for g in g1:
        neg = g[4:] if g.startswith("not ") else "not " + g
        if neg in g2 or ("not (%s)" % g) in g2:
            return True
    return False


def clear_summary(z, prim, direction, over=(), _busy=None):
    """parameters of a primitive that it zeroes itself before writing: name -> 'full' | 'window'"""
    key = ("clear", prim, direction, over)
    if key in z.acc:
        return z.acc[key]
    _busy = _busy or set()
    if key in _busy:
        return {}
    _busy.add(key)
    p = z.spec.prims[prim]
    rel, qn = p["defn"]
    fn0 = M.py_find_def(z.tree.py(rel), qn)
    if fn0 is None:
        raise core.AnalysisError("%s vanished from %s" % (qn, rel))
    consts = dict(_bool_defaults(fn0))
    consts.update({k: (v == "True") for k, v in over})
    if p.get("flag"):
        consts[p["flag"]] = direction
    fn, tr = z.trace(rel, qn, consts)
    params = set(_fn_params(fn))
    res = {}
    for c in tr.__dict__.get("clears", []):
        if c["root"] in params:
            kind = "full" if c["full"] else "window"
            if res.get(c["root"]) != "full":
                res[c["root"]] = kind
    for e in tr.events:
        for par, kind in event_clears(z, e, _busy).items():
            if par in e.bufs and e.bufs[par][0] in params:
                k2 = "window" if (kind == "window" or e.bufs[par][1]) else "full"
                if res.get(e.bufs[par][0]) != "full":
                    res[e.bufs[par][0]] = k2
    z.acc[key] = res
    z.acc[("cleartrace", prim, direction, over)] = (fn, tr)
    return res


def event_clears(z, e, _busy=None):
    p = z.spec.prims.get(e.prim)
    if not p or "defn" not in p or (p.get("flag") and not isinstance(e.flag, bool)):
        return {}
    rel, qn = p["defn"]
    fn = M.py_find_def(z.tree.py(rel), qn)
    over = tuple(sorted((k, v) for k, v in e.statics.items()
                        if fn is not None and k in _bool_defaults(fn) and v in ("True", "False")))
    return clear_summary(z, e.prim, e.flag if p.get("flag") else p.get("dir"), over, _busy)


def rule_py_clearwindow(chk, tree):
    """a primitive that initialises its own output must not wipe what an earlier call of the same
    composition put into the same buffer; its cleared window is the window its kernel writes"""
    z = ZeroInit(chk, tree)
    # (1) wrappers of C kernels taking an element offset: cleared window == written window
    for prim, p in sorted(z.spec.prims.items()):
        if "defn" not in p or not p.get("flag"):
            continue
        for d in (True, False):
            summ = clear_summary(z, prim, d)
            fn, tr = z.acc[("cleartrace", prim, d, ())]
            params = set(_fn_params(fn))
            for e in tr.events:
                if not e.prim.startswith("libcider:"):
                    continue
                cname = e.prim.split(":", 1)[1]
                pos_w, pos_acc, names = z.cinfo[cname]
                if "offset" not in names or "nalpha" not in names:
                    continue
                off = e.statics.get(str(names.index("offset")))
                wid = e.statics.get(str(names.index("nalpha")))
                # which C array does `offset` shift?  the written one whose index contains the symbol
                red = chk.__dict__.get("_c_red", {}).get(cname, [])
                shifted = set()
                for R in red:
                    for s_ in R.stores:
                        if s_.root[0] == "par" and ("sym", "offset") in s_.idx.atoms(True):
                            shifted.add(s_.root[1])
                for k in pos_w:
                    if names[k] not in shifted or k not in e.bufs:
                        continue
                    root = e.bufs[k][0]
                    for c in tr.__dict__.get("clears", []):
                        if c["root"] != root or c["pos"] > e.order:
                            continue
                        inst = "%s[%s=%s]: clear of %s before libcider.%s" % (prim, p["flag"], d, root, cname)
                        if c["full"] or c["lo"] is None:
                            # harmful only when a composition calls the wrapper twice on one buffer: decided in (2)
                            chk.ok("py-clearwindow", inst + " (whole-array clear; repeated use checked per composition)",
                                   nontrivial=False)
                            if c["full"] and off not in (None, "0"):
                                chk.note("py-clearwindow", "%s:%s" % (p["defn"][0], p["defn"][1]),
                                         "`%s` clears the whole of `%s` while libcider.%s writes only columns "
                                         "[%s, %s + %s)" % (ast.unparse(c["node"]), root, cname, off, off, wid))
                            continue
                        lo = M.canon_py(c["lo"], {})
                        width = M.canon_py(ast.BinOp(left=c["hi"], op=ast.Sub(), right=c["lo"]), {})
                        if lo != off or width != wid:
                            chk.violation("py-clearwindow", p["defn"][0], p["defn"][1], ast.unparse(c["node"]),
                                          c["node"].lineno,
                                          "the wrapper clears columns [%s, %s + %s) of `%s` but libcider.%s writes "
                                          "columns [%s, %s + %s)" % (lo, lo, width, root, cname, off, off, wid),
                                          instance=inst)
                        else:
                            chk.ok("py-clearwindow", inst, detail={"window": "[%s, %s + %s)" % (lo, lo, width)})
    # (2) compositions: a whole-array clear hidden in a later primitive after an earlier write
    todo = []
    for label, rel, fq, bq, spec in PY_PAIRS:
        for qn, consts in ((fq, spec.consts_f), (bq, spec.consts_b)):
            k = (rel, qn, tuple(sorted(consts.items())))
            if k not in todo:
                todo.append(k)
    for rel, qn, consts in todo:
        fn, tr = z.trace(rel, qn, dict(consts))
        tag = qn + ("[%s]" % ",".join("%s=%s" % kv for kv in consts) if consts else "")
        for e in tr.events:
            for par, kind in event_clears(z, e).items():
                if par not in e.bufs:
                    continue
                root = e.bufs[par][0]
                earlier = []
                for o in tr.events:
                    if o.order >= e.order or _exclusive(o, e):
                        continue
                    _, w, io = M._dir_roles(o)
                    if root in w or root in io:
                        earlier.append(o)
                if not earlier:
                    continue
                inst = "%s: %s cleared by %s(%s) after %d earlier write(s)" % (tag, root, e.prim, par, len(earlier))
                if kind == "full" and not e.bufs[par][1]:
                    chk.violation("py-clearwindow", rel, qn, e.text, e.line,
                                  "%s zeroes the whole of its `%s` argument before writing, but `%s` already holds the "
                                  "result of `%s` (line %d) in this composition: the earlier contribution is wiped" % (
                                      e.prim, par, root, earlier[0].text[:80], earlier[0].line), instance=inst)
                else:
                    chk.ok("py-clearwindow", inst + " (window clear)")


def rule_py_zeroinit(chk, tree):
    z = ZeroInit(chk, tree)
    todo = []
    for label, rel, fq, bq, spec in PY_PAIRS:
        for qn, consts in ((fq, spec.consts_f), (bq, spec.consts_b)):
            k = (rel, qn, tuple(sorted(consts.items())))
            if k not in todo:
                todo.append(k)
    todo.append((SX, "EXXSphGenerator._eval_crho_potential", ()))
    for rel, qn, consts in todo:
        fn, tr = z.trace(rel, qn, dict(consts))
        params = set(_fn_params(fn))
        tag = qn + ("[%s]" % ",".join("%s=%s" % kv for kv in consts) if consts else "")
        for e in tr.events:
            for root, par in z.acc_writes(e):
                inst = "%s: %s <- %s(%s)" % (tag, root, e.prim, par)
                if root in params:
                    chk.ok("py-zeroinit", inst + " caller-provided buffer (accumulation is the contract)", nontrivial=False)
                    continue
                if root == "<return>" or not root.isidentifier():
                    continue
                if event_zeroed(fn, tr, root, e):
                    chk.ok("py-zeroinit", inst)
                    continue
                # initialised by an earlier overwriting primitive on every path?
                dom = list(M.dominating_siblings(fn, getattr(e, "site", e.node)))
                init = False
                for o in tr.events:
                    if o.order >= e.order or not any(getattr(o, "site", o.node) is d for d in dom):
                        continue
                    _, w, _ = M._dir_roles(o)
                    if root in w and root not in [r for r, _ in z.acc_writes(o)]:
                        init = True
                if init:
                    chk.ok("py-zeroinit", inst + " (initialised by an overwriting primitive)")
                    continue
                chk.violation("py-zeroinit", rel, qn, e.text, e.line,
                              "`%s` is passed as parameter `%s` of %s, which only accumulates into it (`+=` / DGEMM "
                              "BETA=1 on the C side, no initialisation in the wrapper), but %s neither allocates it "
                              "with np.zeros nor zeroes it (`%s[:] = 0`) on every path before this call: the result "
                              "is added to whatever the buffer held (previous call, previous spin, np.empty garbage)"
                              % (root, par, e.prim, qn, root), instance=inst)


# ----------------------------------------------------------------------------
# py-select: direction flag selects a designated C pair; flag forwarded to flagged C functions
# ----------------------------------------------------------------------------
import ast  # noqa: E402

SELECT_FILES = [LI, LC, GI, SX]
DIRECTION_NAMES = {"fwd", "bwd", "a2y", "rad2orb"}


def _lib_target(e):
    if isinstance(e, ast.Attribute) and isinstance(e.value, ast.Name) and e.value.id == "libcider":
        return e.attr
    return None


def rule_py_select(chk, tree):
    designated = {frozenset((a, b)) for _, a, b in C_PAIRS}
    for rel in SELECT_FILES:
        mod = tree.py(rel)
        for n in ast.walk(mod):
            if not isinstance(n, ast.If) or not n.orelse:
                continue
            t = n.test
            if isinstance(t, ast.UnaryOp) and isinstance(t.op, ast.Not):
                t = t.operand
            if not (isinstance(t, ast.Name) and t.id in DIRECTION_NAMES):
                continue
            sel = []
            for branch in (n.body, n.orelse):
                asg = [(st.targets[0].id, _lib_target(st.value)) for st in branch
                       if isinstance(st, ast.Assign) and len(st.targets) == 1 and isinstance(st.targets[0], ast.Name)
                       and _lib_target(st.value)]
                calls = [(None, _lib_target(st.value.func), st.value) for st in branch
                         if isinstance(st, ast.Expr) and isinstance(st.value, ast.Call) and _lib_target(st.value.func)]
                sel.append((asg, calls))
            (a1, c1), (a2, c2) = sel
            fn = None
            for x in ast.walk(mod):
                if isinstance(x, ast.FunctionDef) and any(y is n for y in ast.walk(x)):
                    fn = x
            where = fn.name if fn else "<module>"
            if a1 and a2:
                (v1, f1), (v2, f2) = a1[0], a2[0]
                inst = "%s:%s selects %s / %s on `%s`" % (rel, where, f1, f2, ast.unparse(n.test))
                if v1 != v2:
                    chk.violation("py-select", rel, where, ast.unparse(n.test), n.lineno,
                                  "the two branches assign different variables (%s, %s)" % (v1, v2), instance=inst)
                elif frozenset((f1, f2)) not in designated:
                    chk.violation("py-select", rel, where, "if %s: %s = libcider.%s else libcider.%s" % (
                        ast.unparse(n.test), v1, f1, f2), n.lineno,
                        "direction flag `%s` selects libcider.%s / libcider.%s, which is not a forward/backward pair "
                        "verified by c-mirror" % (ast.unparse(n.test), f1, f2), instance=inst)
                else:
                    chk.ok("py-select", inst)
            elif c1 and c2:
                (_, f1, k1), (_, f2, k2) = c1[0], c2[0]
                inst = "%s:%s calls %s / %s on `%s`" % (rel, where, f1, f2, ast.unparse(n.test))
                same = [ast.unparse(a) for a in k1.args] == [ast.unparse(a) for a in k2.args]
                if frozenset((f1, f2)) not in designated or not same:
                    chk.violation("py-select", rel, where, "if %s: libcider.%s(...) else libcider.%s(...)" % (
                        ast.unparse(n.test), f1, f2), n.lineno,
                        "direction flag `%s` dispatches to libcider.%s / libcider.%s: %s" % (
                            ast.unparse(n.test), f1, f2,
                            "not a verified forward/backward pair" if same else "the two calls pass different arguments"),
                        instance=inst)
                else:
                    chk.ok("py-select", inst)
    # direction flag forwarded to the flagged C functions
    mod = tree.py(LC)
    for _, cfn, flag, _, _ in C_FLAGGED:
        found = 0
        for n in ast.walk(mod):
            if isinstance(n, ast.Call) and _lib_target(n.func) == cfn:
                found += 1
                last = n.args[-1] if n.args else None
                txt = ast.unparse(last) if last is not None else ""
                inst = "%s: libcider.%s(..., %s)" % (LC, cfn, txt)
                if txt in ("ctypes.c_int(1 if fwd else 0)", "ctypes.c_int(fwd)", "ctypes.c_int(int(fwd))"):
                    chk.ok("py-select", inst)
                else:
                    chk.violation("py-select", LC, cfn, txt, n.lineno,
                                  "the direction flag passed to libcider.%s is `%s`, not the wrapper's `fwd`" % (
                                      cfn, txt), instance=inst)
        if not found:
            raise core.AnalysisError("no call of libcider.%s in %s" % (cfn, LC))


# ----------------------------------------------------------------------------
# py-branch: get_transformed_interpolation_terms
# ----------------------------------------------------------------------------
OPERAND = "p_qu"


def _has_operand(e):
    return any(isinstance(x, ast.Name) and x.id == OPERAND for x in ast.walk(e))


def ops_of(e):
    """operators applied to the operand by an expression, innermost first"""
    if isinstance(e, ast.Name) and e.id == OPERAND:
        return []
    if isinstance(e, ast.Subscript) and isinstance(e.value, ast.Name) and e.value.id == OPERAND \
            and ast.unparse(e.slice) in (":", "..."):
        return []
    if isinstance(e, ast.BinOp) and isinstance(e.op, ast.Mult):
        l, r = _has_operand(e.left), _has_operand(e.right)
        if l != r:
            inner, other = (e.left, e.right) if l else (e.right, e.left)
            return ops_of(inner) + [("scale", ast.unparse(other))]
    if isinstance(e, ast.BinOp) and isinstance(e.op, ast.MatMult) and _has_operand(e.right) and not _has_operand(e.left):
        return ops_of(e.right) + [("dot", ast.unparse(e.left))]
    if isinstance(e, ast.Call):
        nm = M._callee_name(e)
        if nm == "_stable_solve" and len(e.args) == 2 and not _has_operand(e.args[0]):
            return ops_of(e.args[1]) + [("solve", ast.unparse(e.args[0]))]
        if nm == "dot" and isinstance(e.func, ast.Attribute) and len(e.args) == 1 and not _has_operand(e.func.value):
            return ops_of(e.args[0]) + [("dot", ast.unparse(e.func.value))]
        if nm == "dot" and len(e.args) == 2 and not _has_operand(e.args[0]):
            return ops_of(e.args[1]) + [("dot", ast.unparse(e.args[0]))]
        if nm in ("ascontiguousarray", "asarray", "copy") and e.args and _has_operand(e.args[0]):
            return ops_of(e.args[0])
    raise ValueError("unrecognised expression applied to %s: %s" % (OPERAND, ast.unparse(e)))


def operator_sequence(blk, direction, polarity):
    seq = []
    for st in blk:
        if isinstance(st, ast.If) and polarity(st.test) is not None:
            live = st.body if polarity(st.test) == direction else st.orelse
            seq += operator_sequence(live, direction, polarity)
            continue
        if isinstance(st, ast.Assign) and len(st.targets) == 1:
            t = st.targets[0]
            tn = t.value if isinstance(t, ast.Subscript) else t
            if isinstance(tn, ast.Name) and tn.id == OPERAND:
                if not _has_operand(st.value):
                    raise ValueError("%s is re-bound to something else: %s" % (OPERAND, ast.unparse(st)))
                seq += ops_of(st.value)
            continue
        if isinstance(st, ast.AugAssign):
            t = st.target
            tn = t.value if isinstance(t, ast.Subscript) else t
            if isinstance(tn, ast.Name) and tn.id == OPERAND:
                if isinstance(st.op, ast.Mult) and not _has_operand(st.value):
                    seq.append(("scale", ast.unparse(st.value)))
                else:
                    raise ValueError("unrecognised in-place update of %s: %s" % (OPERAND, ast.unparse(st)))
            continue
    return seq


def rule_py_branch(chk, tree):
    qn = "NLDFGaussianPlan._get_transformed_interpolation_terms"
    fn = M.py_find_def(tree.py(PL), qn)
    if fn is None:
        raise core.AnalysisError("%s vanished from %s" % (qn, PL))

    def polarity(test):
        if isinstance(test, ast.Name) and test.id == "fwd":
            return True
        if isinstance(test, ast.UnaryOp) and isinstance(test.op, ast.Not) and isinstance(test.operand, ast.Name) \
                and test.operand.id == "fwd":
            return False
        return None
    # (a) transform selection
    n_sel = 0
    for n in ast.walk(fn):
        if isinstance(n, ast.If) and polarity(n.test) is not None and n.orelse \
                and len(n.body) == 1 and len(n.orelse) == 1 \
                and all(isinstance(b, ast.Assign) and ast.unparse(b.targets[0]) == "transform" for b in (n.body[0], n.orelse[0])):
            n_sel += 1
            a, b = ast.unparse(n.body[0].value), ast.unparse(n.orelse[0].value)
            inst = "transform = %s if fwd-side else %s" % (a, b)
            if a + ".T" == b or b + ".T" == a:
                chk.ok("py-branch", inst)
            else:
                chk.violation("py-branch", PL, qn, ast.unparse(n).split("\n")[0] + " ...", n.lineno,
                              "the matrices applied for fwd and not fwd are `%s` and `%s`; one must be the transpose "
                              "(.T) of the other" % (a, b), instance=inst)
    if n_sel != 1:
        raise core.AnalysisError("%s: expected one `if fwd: transform = ... else: transform = ....T` (found %d)" % (
            qn, n_sel))
    # (b) every block applying `transform`: operator sequence per direction
    seqs = {}     # id(block) -> {True: [...], False: [...]}
    blocks = []
    for n in ast.walk(fn):
        for blk in (getattr(n, "body", None), getattr(n, "orelse", None)):
            if not isinstance(blk, list) or isinstance(n, ast.If) and polarity(n.test) is not None:
                continue
            direct = [st for st in blk if not isinstance(st, (ast.For, ast.While)) and (
                not isinstance(st, ast.If) or polarity(st.test) is not None) and any(
                isinstance(x, ast.Name) and x.id == "transform" and isinstance(x.ctx, ast.Load) for x in ast.walk(st))]
            if not direct or blk is fn.body:
                continue
            blocks.append((n, blk))
    if len(blocks) < 2:
        raise core.AnalysisError("%s: fewer than two blocks apply `transform` (found %d)" % (qn, len(blocks)))
    for n, blk in blocks:
        res = {}
        for d in (True, False):
            try:
                res[d] = operator_sequence(blk, d, polarity)
            except ValueError as e:
                raise core.AnalysisError("%s: %s" % (qn, e))
        seqs[id(blk)] = res
        first = next(st for st in blk if any(isinstance(x, ast.Name) and x.id == "transform" for x in ast.walk(st)))
        inst = "block applying `%s`" % ast.unparse(first).split("\n")[0]
        fwd_seq, bwd_seq = res[True], res[False]
        if fwd_seq != list(reversed(bwd_seq)):
            chk.violation("py-branch", PL, qn, ast.unparse(first).split("\n")[0], first.lineno,
                          "fwd / not fwd are not mirror images: with fwd the operand goes through %s, with not fwd "
                          "through %s; the backward sequence must be the forward one in reverse order (the matrix "
                          "itself is transposed by the `transform` selection)" % (
                              " then ".join("%s(%s)" % o for o in fwd_seq) or "nothing",
                              " then ".join("%s(%s)" % o for o in bwd_seq) or "nothing"), instance=inst)
        else:
            chk.ok("py-branch", inst, nontrivial=len(fwd_seq) > 1,
                   detail={"fwd": ["%s(%s)" % o for o in fwd_seq], "not fwd": ["%s(%s)" % o for o in bwd_seq]})
    # in-place and out-of-place siblings (the two branches of one `if`) apply the same operators
    for n in ast.walk(fn):
        if isinstance(n, ast.If) and polarity(n.test) is None and id(n.body) in seqs and id(n.orelse) in seqs:
            inst = "branches of `if %s` apply the same operators" % ast.unparse(n.test)
            a_, b_ = seqs[id(n.body)], seqs[id(n.orelse)]
            bad = [d for d in (True, False) if a_[d] != b_[d]]
            if bad:
                d = bad[0]
                chk.violation("py-branch", PL, qn, "if %s: ... else: ..." % ast.unparse(n.test), n.lineno,
                              "for %s the `%s` branch applies %s but the other branch applies %s: the two code paths "
                              "must compute the same operator" % (
                                  "fwd" if d else "not fwd", ast.unparse(n.test),
                                  " then ".join("%s(%s)" % o for o in a_[d]) or "nothing",
                                  " then ".join("%s(%s)" % o for o in b_[d]) or "nothing"), instance=inst)
            else:
                chk.ok("py-branch", inst)
    # the Spline plan's transform must stay the identity in both directions
    fs = M.py_find_def(tree.py(PL), "NLDFSplinePlan._get_transformed_interpolation_terms")
    if fs is None:
        raise core.AnalysisError("NLDFSplinePlan._get_transformed_interpolation_terms vanished")
    uses_fwd = any(isinstance(x, ast.Name) and x.id == "fwd" and isinstance(x.ctx, ast.Load) for x in ast.walk(fs))
    if uses_fwd:
        chk.note("py-branch", PL, "NLDFSplinePlan._get_transformed_interpolation_terms now depends on fwd: not analysed")
    else:
        chk.ok("py-branch", "NLDFSplinePlan transform is direction-independent (identity)", nontrivial=False)


# ----------------------------------------------------------------------------
# round 11: numpy-level twins (forward-mode / reverse-mode routines written in numpy)
# ----------------------------------------------------------------------------
TWIN_FILES = [PL, NG, LI, LC, SX]
TWIN_NAME_RULES = [("eval_rho_", "eval_vxc_"), ("get_feat", "get_vxc"), ("get_features", "get_vxc"),
                   ("get_features", "get_vxc_"), ("_perform_fwd_", "_perform_bwd_"),
                   ("get_features", "get_potential"), ("_cache_l1_", "_cache_ld_")]


def _einsum_sig(sub):
    """(inputs, output) of an einsum subscript string with index letters renamed in order of first
    occurrence; implicit mode: output = letters occurring once, alphabetically (numpy's rule)"""
    sub = sub.replace(" ", "")
    if "->" in sub:
        ins, out = sub.split("->")
        implicit = False
    else:
        ins, implicit = sub, True
        letters = [c for c in ins if c.isalpha()]
        out = "".join(sorted(c for c in set(letters) if letters.count(c) == 1))
        if "..." in ins:
            out = "..." + out
    ren = {}
    for c in ins:
        if c.isalpha() and c not in ren:
            ren[c] = chr(ord("a") + len(ren))
    f = lambda t: "".join(ren.get(c, c) for c in t)
    return f(ins), f(out), implicit


def rule_py_einsum(chk, tree):
    """an einsum written without `->` must produce what its explicit siblings (same input
    subscripts, the other differentiation mode of the same contraction) produce"""
    calls = []
    for rel in TWIN_FILES:
        mod = tree.py(rel)
        for n in ast.walk(mod):
            if isinstance(n, ast.Call) and M._callee_name(n) == "einsum" and n.args \
                    and isinstance(n.args[0], ast.Constant) and isinstance(n.args[0].value, str):
                ins, out, imp = _einsum_sig(n.args[0].value)
                fn = None
                x = n
                while x is not None and not isinstance(x, ast.FunctionDef):
                    x = getattr(x, "_parent", None)
                calls.append((rel, x.name if x is not None else "<module>", n, ins, out, imp))
    chk.count("einsum calls with literal subscripts", len(calls))
    explicit = {}
    for rel, fn, n, ins, out, imp in calls:
        if not imp:
            explicit.setdefault(ins, set()).add(out)
    for rel, fn, n, ins, out, imp in calls:
        if not imp:
            continue
        sib = explicit.get(ins)
        inst = "%s:%s einsum(%r)" % (rel, fn, n.args[0].value)
        if sib and out not in sib:
            chk.violation("py-einsum-sibling", rel, fn, ast.unparse(n), n.lineno,
                          "einsum(%r) has no `->`: numpy sums over every repeated index and returns %s, while the same "
                          "contraction is written with output %s elsewhere (the other differentiation mode of this "
                          "quantity): the %s is then broadcast where a per-element array is expected" % (
                              n.args[0].value, "a scalar" if out == "" else "indices %r" % out,
                              sorted("->" + o for o in sib), "scalar" if out == "" else "result"), instance=inst)
        else:
            chk.ok("py-einsum-sibling", inst, nontrivial=bool(sib))
    for ins, outs in sorted(explicit.items()):
        chk.ok("py-einsum-sibling", "explicit %s -> %s" % (ins, sorted(outs)), nontrivial=False)


def _twins(mod):
    """(class, forward def, backward def) by naming convention inside one class"""
    out = []
    for c in mod.body:
        if not isinstance(c, ast.ClassDef):
            continue
        ms = {m.name: m for m in c.body if isinstance(m, ast.FunctionDef)}
        for a, b in TWIN_NAME_RULES:
            for nm, m in ms.items():
                if nm.startswith(a):
                    tw = b + nm[len(a):]
                    if tw in ms and tw != nm and (a != "get_feat" or nm == "get_feat"):
                        out.append((c.name, m, ms[tw]))
    return out


def _size_reads(fn):
    """local = <expr>.shape[k]  ->  {(local, expr text): k}"""
    out = {}
    for n in ast.walk(fn):
        if isinstance(n, ast.Assign) and len(n.targets) == 1 and isinstance(n.targets[0], ast.Name):
            v = n.value
            if isinstance(v, ast.Subscript) and isinstance(v.value, ast.Attribute) and v.value.attr == "shape" \
                    and isinstance(v.slice, (ast.Constant, ast.UnaryOp)):
                try:
                    k = ast.literal_eval(v.slice)
                except Exception:
                    continue
                out[(n.targets[0].id, ast.unparse(v.value.value))] = (k, n)
    return out


def rule_py_axis(chk, tree):
    """twins read the same extent from the same axis of the same array"""
    n_tw = 0
    for rel in TWIN_FILES:
        mod = tree.py(rel)
        for cname, f, b in _twins(mod):
            n_tw += 1
            rf, rb = _size_reads(f), _size_reads(b)
            for key in sorted(set(rf) & set(rb)):
                (kf, nf), (kb, nb) = rf[key], rb[key]
                inst = "%s.%s / %s: %s = %s.shape[..]" % (cname, f.name, b.name, key[0], key[1])
                if kf != kb:
                    chk.violation("py-axis", rel, "%s.%s" % (cname, b.name), ast.unparse(nb), nb.lineno,
                                  "`%s` is read from axis %d of `%s` here but from axis %d in the twin %s (line %d): the "
                                  "two directions disagree about the extent whenever the array is not square" % (
                                      key[0], kb, key[1], kf, f.name, nf.lineno), instance=inst)
                else:
                    chk.ok("py-axis", inst)
    chk.count("numpy-level twins found by name", n_tw)


def rule_py_extent(chk, tree):
    """`assert len(A[0]) // c == E` ... `for i in range(E'): ... A[:, c*i : c*i + c]`  =>  E' is E"""
    mod = tree.py(PL)
    for fn in ast.walk(mod):
        if not isinstance(fn, ast.FunctionDef):
            continue
        est = {}   # array text -> (c, extent text)
        for st in fn.body:
            tst = asserted_condition(st)
            if isinstance(tst, ast.Compare) and len(tst.ops) == 1 and isinstance(tst.ops[0], ast.Eq):
                l, r = tst.left, tst.comparators[0]
                if isinstance(l, ast.BinOp) and isinstance(l.op, ast.FloorDiv) and isinstance(l.right, ast.Constant) \
                        and isinstance(l.left, ast.Call) and M._callee_name(l.left) == "len" and l.left.args \
                        and isinstance(l.left.args[0], ast.Subscript):
                    est[ast.unparse(l.left.args[0].value)] = (l.right.value, M.canon_py(r, {}))
        if not est:
            continue
        for st in fn.body:
            if isinstance(st, ast.For) and isinstance(st.iter, ast.Call) and M._callee_name(st.iter) == "range" \
                    and len(st.iter.args) == 1 and isinstance(st.target, ast.Name):
                iv = st.target.id
                for x in ast.walk(st):
                    if isinstance(x, ast.Subscript) and ast.unparse(x.value) in est and isinstance(x.slice, ast.Tuple) \
                            and isinstance(x.slice.elts[-1], ast.Slice) and x.slice.elts[-1].lower is not None \
                            and iv in {y.id for y in ast.walk(x.slice.elts[-1].lower) if isinstance(y, ast.Name)}:
                        c, ext = est[ast.unparse(x.value)]
                        got = M.canon_py(st.iter.args[0], {})
                        inst = "%s: loop over blocks of %s" % (fn.name, ast.unparse(x.value))
                        if got != ext:
                            chk.violation("py-extent", PL, fn.name, "for %s in %s" % (iv, ast.unparse(st.iter)), st.lineno,
                                          "the function asserts that `%s` holds %s blocks of %d columns but loops over "
                                          "range(%s): blocks are dropped (or empty slices cached), so the reverse-mode "
                                          "routine that indexes the cache is not the transpose of the forward one" % (
                                              ast.unparse(x.value), ext, c, got), instance=inst)
                        else:
                            chk.ok("py-extent", inst)
                        break


def _cond_attr_defs(mod, cls):
    """self.X assigned in __init__ (same-module MRO) -> list of condition forms (None = unconditional)"""
    out = {}
    seen, todo = set(), [cls]
    while todo:
        c = todo.pop(0)
        if c in seen:
            continue
        seen.add(c)
        for st in mod.body:
            if isinstance(st, ast.ClassDef) and st.name == c:
                todo += [b.id for b in st.bases if isinstance(b, ast.Name)]
                for m in st.body:
                    if isinstance(m, ast.FunctionDef) and m.name == "__init__":
                        def walk(stmts, conds):
                            for s_ in stmts:
                                if isinstance(s_, ast.If):
                                    walk(s_.body, conds + [s_.test])
                                    walk(s_.orelse, conds + [ast.UnaryOp(op=ast.Not(), operand=s_.test)])
                                elif isinstance(s_, (ast.For, ast.With)):
                                    walk(s_.body, conds)
                                elif isinstance(s_, ast.Assign):
                                    for t in s_.targets:
                                        if isinstance(t, ast.Attribute) and isinstance(t.value, ast.Name) and t.value.id == "self":
                                            if isinstance(s_.value, ast.Constant) and s_.value.value is None:
                                                continue
                                            out.setdefault(t.attr, []).append(list(conds))
                        walk(m.body, [])
    return out


def _disjuncts(test):
    if isinstance(test, ast.BoolOp) and isinstance(test.op, ast.Or):
        return [d for v in test.values for d in _disjuncts(v)]
    return [M.guard_form(test, {})]


def rule_py_guarded_attr(chk, tree):
    """an attribute that __init__ builds only under a condition is used by the traced compositions
    only under (a disjunct of) that condition"""
    for label, rel, fq, bq, spec in PY_PAIRS:
        if rel != LI:
            continue
        mod = tree.py(rel)
        cls = fq.split(".")[0]
        defs = _cond_attr_defs(mod, cls)
        for qn, consts in ((fq, spec.consts_f), (bq, spec.consts_b)):
            fn = M.py_find_def(mod, qn)
            if fn is None:
                raise core.AnalysisError("%s vanished" % qn)
            try:
                tr = M.Tracer(spec, mod, fn, consts, lambda nm: M.py_resolve(mod, cls, nm))
            except M.Irreducible as e:
                raise core.AnalysisError("%s: %s" % (qn, e))
            for e in tr.events:
                gs = {g for k, g in e.guards if k == "if"}
                for k, v in e.statics.items():
                    if not (isinstance(v, str) and v.startswith("self.") and v[5:].isidentifier()):
                        continue
                    attr = v[5:]
                    sites = defs.get(attr)
                    if not sites or any(not c for c in sites):
                        continue      # unknown or unconditionally built
                    inst = "%s: self.%s in %s" % (qn, attr, e.text[:60])
                    ok = False
                    for conds in sites:
                        if all(any(d in gs for d in _disjuncts(c)) for c in conds):
                            ok = True
                    if ok:
                        chk.ok("py-guarded-attr", inst)
                    else:
                        chk.violation("py-guarded-attr", rel, qn, e.text, e.line,
                                      "`self.%s` is only built in __init__ when %s, but this call uses it under %s: in the "
                                      "other configurations both the forward and the backward projection fail on it" % (
                                          attr, " / ".join(" and ".join(ast.unparse(c) for c in conds) for conds in sites),
                                          sorted(gs) or "no condition"), instance=inst)


def asserted_condition(st):
    """`assert c[, msg]`  ==  `if not c: raise ...`  ==  `if <negated compare>: raise ...`  -> c (ast) or None"""
    if isinstance(st, ast.Assert):
        return st.test
    if isinstance(st, ast.If) and not st.orelse and st.body and isinstance(st.body[-1], ast.Raise) \
            and all(isinstance(x, (ast.Raise, ast.Expr, ast.Pass)) for x in st.body):
        t = st.test
        if isinstance(t, ast.UnaryOp) and isinstance(t.op, ast.Not):
            return t.operand
        if isinstance(t, ast.Compare) and len(t.ops) == 1:
            inv = {ast.NotEq: ast.Eq, ast.Eq: ast.NotEq, ast.Lt: ast.GtE, ast.GtE: ast.Lt, ast.Gt: ast.LtE, ast.LtE: ast.Gt}
            if type(t.ops[0]) in inv:
                return ast.Compare(left=t.left, ops=[inv[type(t.ops[0])]()], comparators=t.comparators)
    return None


class _ShapeWalker(M.Tracer):
    """collects `X = np.zeros(shape)` under `if X is None` and `assert X.shape == shape`"""

    def stmt(self, st):
        t = asserted_condition(st)
        if t is not None:
            if isinstance(t, ast.Compare) and len(t.ops) == 1 and isinstance(t.ops[0], ast.Eq) \
                    and isinstance(t.left, ast.Attribute) and t.left.attr == "shape" and isinstance(t.left.value, ast.Name) \
                    and isinstance(t.comparators[0], ast.Tuple):
                self.__dict__.setdefault("asserts", []).append(
                    (t.left.value.id, M.canon_py(t.comparators[0], self.env), tuple(g for _, g in self.guards), st))
            if isinstance(st, ast.Assert):
                return
            if isinstance(t, ast.Compare) and isinstance(t.left, ast.Attribute) and t.left.attr == "shape":
                return
        if isinstance(st, ast.Assign) and len(st.targets) == 1 and isinstance(st.targets[0], ast.Name) \
                and isinstance(st.value, ast.Call) and M._callee_name(st.value) in ("zeros", "empty") and st.value.args \
                and isinstance(st.value.args[0], ast.Tuple):
            self.__dict__.setdefault("allocs", []).append(
                (st.targets[0].id, M.canon_py(st.value.args[0], self.env), tuple(g for _, g in self.guards), st))
            return
        return M.Tracer.stmt(self, st)


def rule_py_default_shape(chk, tree):
    """`if out is None: out = np.zeros(S)` followed by `assert out.shape == S'` needs S == S'"""
    empty = M.PySpec({})
    for rel in (LC, LI):
        mod = tree.py(rel)
        for c in mod.body:
            if not isinstance(c, ast.ClassDef):
                continue
            for fn in c.body:
                if not isinstance(fn, ast.FunctionDef):
                    continue
                flags = [a.arg for a in fn.args.args if a.arg in DIRECTION_NAMES]
                variants = [{}]
                for f in flags:
                    variants = [dict(v, **{f: b}) for v in variants for b in (True, False)]
                for consts in variants:
                    try:
                        w = _ShapeWalker(empty, mod, fn, consts, None)
                    except M.Irreducible:
                        continue
                    for (xa, sa, ga, na) in w.__dict__.get("allocs", []):
                        none_g = "%s is None" % xa
                        if none_g not in ga:
                            continue
                        for (xb, sb, gb, nb) in w.__dict__.get("asserts", []):
                            if xb != xa or nb.lineno < na.lineno or not set(gb) <= (set(ga) - {none_g}):
                                continue
                            tag = "%s.%s%s" % (c.name, fn.name, "[%s]" % ",".join("%s=%s" % kv for kv in sorted(consts.items())) if consts else "")
                            inst = "%s: default %s" % (tag, xa)
                            if sa != sb:
                                chk.violation("py-default-shape", rel, "%s.%s" % (c.name, fn.name), ast.unparse(na), na.lineno,
                                              "the default `%s` is allocated with shape %s but the function then asserts "
                                              "`%s.shape == %s`%s: calling it without `%s` fails (or, for a subclass "
                                              "override, disagrees with the parent) whenever the two differ" % (
                                                  xa, sa, xa, sb, " for %s" % consts if consts else "", xa), instance=inst)
                            else:
                                chk.ok("py-default-shape", inst)


def _analyse_own(chk):
    tree = chk.tree
    chk.rule("c-mirror", "C pair: backward linear updates = forward ones with end points exchanged")
    chk.rule("c-dirflag", "one C function with a direction flag: the two specialisations are transposes")
    chk.rule("c-overwrite", "no overwriting store inside a loop that does not select the written element")
    chk.rule("c-skip-assign", "no data-dependent `continue` skips an overwriting store of an output block")
    chk.rule("c-mixed", "an output array is not partly overwritten and partly accumulated")
    tus = cfacts.load_all(tree, C_FILES)
    chk.count("C translation units", len(tus))
    chk.guard(rule_c_pairs, tus)
    chk.guard(rule_c_flagged, tus)
    chk.rule("c-scratch-layout", "a private scratch array is read with the linear layout it was written with")
    chk.guard(rule_c_scratch, tree)
    chk.floor("c-scratch-layout", 7, "scratch reads in the reducible functions of the four kernel files")
    chk.rule("py-reverse", "Python backward composition = forward one reversed, flags negated, same static args")
    rule_py_pairs(chk, tree)
    chk.rule("py-select", "direction flag selects a c-mirror-verified pair with one shared argument list")
    chk.rule("py-branch", "get_transformed_interpolation_terms: fwd / not fwd branches mirror each other")
    chk.guard(rule_py_dot, tree)
    chk.rule("py-zeroinit", "buffers passed to accumulate-only primitives are fresh zeros or zeroed before the call")
    chk.guard(rule_py_zeroinit, tree)
    chk.rule("py-clearwindow", "a self-initialising primitive clears only the window it writes; no whole-array clear "
                               "after an earlier write in a composition")
    chk.guard(rule_py_clearwindow, tree)
    chk.rule("py-einsum-sibling", "an einsum without `->` yields what its explicit siblings (same inputs) yield")
    chk.rule("py-axis", "numpy-level twins read the same extent from the same axis")
    chk.rule("py-extent", "a loop over column blocks covers the number of blocks the function asserts")
    chk.rule("py-guarded-attr", "conditionally built attributes are used only under their build condition")
    chk.rule("py-default-shape", "default output allocation has the shape the function asserts")
    chk.guard(rule_py_einsum, tree)
    chk.guard(rule_py_axis, tree)
    chk.guard(rule_py_extent, tree)
    chk.guard(rule_py_guarded_attr, tree)
    chk.guard(rule_py_default_shape, tree)
    chk.floor("py-einsum-sibling", 5, "groups of einsum contractions in the twin files")
    chk.floor("py-axis", 1, "eval_rho_vj_ / eval_vxc_vj_ read nalpha from p_i_qg")
    chk.floor("py-extent", 1, "FracLaplPlan block caches")
    chk.floor("py-guarded-attr", 5, "w0_rsp / wm_rsp / l1atco uses in the traced compositions")
    chk.floor("py-default-shape", 3, "default outputs of multiply_atc_integrals (both classes), spline2conv, project_orb2grid")
    chk.floor("py-clearwindow", 2, "convert_rad2orb_ window + the repeated onsite calls of project_grid2orb")
    chk.guard(rule_py_select, tree)
    chk.guard(rule_py_branch, tree)
    chk.floor("py-zeroinit", 8, "accumulate-only outputs in the traced compositions (6 local buffers, rest caller-provided)")
    chk.floor("py-reverse", 16, "primitive calls in the 8 forward compositions + 3 matrix products")
    chk.floor("py-select", 6, "10 flag-selected libcider pairs + 2 forwarded flags")
    chk.floor("py-branch", 4, "transform selection + 3 blocks applying it")
    chk.floor("c-mirror", 13, "13 designated forward/backward C pairs, all comparable today")
    chk.floor("c-dirflag", 2, "multiply_atc_integrals and multiply_atc_integrals_vk")
    chk.floor("c-overwrite", 3, "kill+add stores and BETA=0 DGEMMs into parameter arrays")
    chk.floor("c-skip-assign", 12, "overwriting stores into output parameters of the designated kernels")
    chk.floor("c-mixed", 13, "accumulated output arrays")
    chk.assumptions += [
        "iteration spaces of a forward and a backward loop nest driven by different index tables "
        "(ra_loc vs ar_loc, atom_loc_ao vs bas[ATOM_OF]) coincide",
        "array elements addressed by syntactically different index polynomials are different elements "
        "(affine non-aliasing); tables named *loc* are strictly increasing offset tables",
        "loop trip counts are non-negative; DGEMM follows the reference BLAS semantics",
    ]
    chk.not_decided += [
        "<Ax,y> = <x,By> to rounding for all x, y (numerical)",
        "equality of the iteration spaces of the two directions",
        "coefficient values stored in tables (gaunt_vl, ovlp_mats, w_rsp) and their construction",
    ]


def analyse(chk):
    _analyse_own(chk)
    chk.guard(lambda c_: core.include_findings(c_, 'C10', files=['ciderpress/lib/mod_cider/cider_grids.c', 'ciderpress/lib/mod_cider/convolutions.c', 'ciderpress/lib/mod_cider/conv_interpolation.c', 'ciderpress/lib/mod_cider/fast_sdmx.c'], rules=None,
                                               why='a data race in one routine of a pair breaks adjointness under more than one thread'))


def mutants(tree):
    I, C, S, G = lib_rel(INTERP), lib_rel(CONV), lib_rel(SDMX), lib_rel(GRIDS)
    return [
        Mutant("off-by-one in fill_l1_coeff_bwd index", I,
               "f_u[(i0 + m + 1) * stride1] += gauntz_l[lm] * dz_u[ind];",
               "f_u[(i0 + m) * stride1] += gauntz_l[lm] * dz_u[ind];", expect="c-mirror"),
        Mutant("off-by-one in fill_l1_coeff_fwd index", I,
               "gauntxp_l[lm] * f_u[(i0 + m + 2) * stride1];", "gauntxp_l[lm] * f_u[(i0 + m + 1) * stride1];",
               expect="c-mirror"),
        Mutant("flip DGEMM transB in reduce_ylm_to_angc", G,
               "dgemm_(&NTRANS, &NTRANS, &nalpha, &nw, &nlm,", "dgemm_(&NTRANS, &TRANS, &nalpha, &nw, &nlm,",
               expect="c-mirror"),
        Mutant("flip DGEMM transB in compute_pot_convs_single_new", I,
               "dgemm_(&NTRANS, &TRANS, &n_pq, &nlm, &ng, &ALPHA, f_gpq_buf, &n_pq,",
               "dgemm_(&NTRANS, &NTRANS, &n_pq, &nlm, &ng, &ALPHA, f_gpq_buf, &n_pq,", expect="c-mirror"),
        Mutant("leading dimension of theta_wq in reduce_angc_to_ylm", G,
               "dgemm_(&NTRANS, &TRANS, &nalpha, &nlm, &nw, &ALPHA, theta_wq,\n                   &stride,",
               "dgemm_(&NTRANS, &TRANS, &nalpha, &nlm, &nw, &ALPHA, theta_wq,\n                   &nalpha,",
               expect="c-mirror"),
        Mutant("leading dimension of output in compute_pot_convs_single_new", I,
               "auxo_tmp_gl, &nlm, &BETA, f_lpq, &n_pq);", "auxo_tmp_gl, &nlm, &BETA, f_lpq, &nalpha);",
               expect="c-mirror"),
        Mutant("multiply_atc_integrals backward TRANSA", C, "GEMM_TRANSA = 'n';", "GEMM_TRANSA = 't';",
               expect="c-dirflag"),
        Mutant("multiply_atc_integrals backward loc not transposed", C,
               "loc += (1 - fwd) * ((ish - ish0) * (jsh1 - jsh0) + jsh - jsh0);\n                loc *= mat_stride;",
               "loc += (1 - fwd) * ((jsh - jsh0) * (ish1 - ish0) + ish - ish0);\n                loc *= mat_stride;",
               expect="c-dirflag"),
        Mutant("multiply_atc_integrals_vk backward loc not transposed", C,
               "loc += (1 - fwd) * ((ish - ish0) * (jsh1 - jsh0) + jsh - jsh0);\n                loc *= nalpha;",
               "loc += (1 - fwd) * ((jsh - jsh0) * (ish1 - ish0) + ish - ish0);\n                loc *= nalpha;",
               expect="c-dirflag"),
        Mutant("multiply_atc_integrals backward LDB", C, "GEMM_LDB = ccl->nbeta;", "GEMM_LDB = ccl->nalpha;",
               expect="c-dirflag"),
        Mutant("+= -> = in contract_orb_to_rad scatter", C, "theta_mq[mq] += val * p_q[q];",
               "theta_mq[mq] = val * p_q[q];", expect="c-overwrite"),
        Mutant("+= -> = in project_spline_to_conv", I,
               "out_q[q] += inp_q[q] * w_p[p];\n                        }\n                        inp_q += spline_stride;",
               "out_q[q] = inp_q[q] * w_p[p];\n                        }\n                        inp_q += spline_stride;",
               expect="c-overwrite"),
        Mutant("+= -> = in fill_l1_coeff_bwd", I, "f_u[(i0 + m + 2) * stride1] += gauntxp_l[lm] * dx_u[ind];",
               "f_u[(i0 + m + 2) * stride1] = gauntxp_l[lm] * dx_u[ind];", expect="c-mixed"),
        Mutant("drop a term of contract_shl_to_alpha_l1_bwd", S, "b6c[g] += p3a[g] * csh1ac[g];", "",
               expect="c-mirror"),
        Mutant("drop a term of SDMXcontract_ao_to_bas_l1_bwd", S,
               "vb0tmp[g] +=\n                            _vbas3[offset + g] * (_gridz[g] - atomz[ia]);", "",
               expect="c-mirror"),
        Mutant("drop zeroing in add_lp1_term_bwd", I,
               "f_q = f + nf * g;\n            f_q[ig] = 0.0;\n            f_q[ig] += dx * f_q[ix];",
               "f_q = f + nf * g;\n            f_q[ig] += dx * f_q[ix];", expect="c-mirror"),
        Mutant("zeroing moved after the sum in add_lp1_onsite_new_bwd", I,
               "f_q[ig] = 0.0;\n                f_q[ig] += dx * f_q[ix];\n                f_q[ig] += dy * f_q[iy];\n"
               "                f_q[ig] += dz * f_q[iz];\n            }\n        }\n    }\n}\n\nvoid add_lp1_term_bwd",
               "f_q[ig] += dx * f_q[ix];\n                f_q[ig] += dy * f_q[iy];\n"
               "                f_q[ig] += dz * f_q[iz];\n                f_q[ig] = 0.0;\n            }\n        }\n    }\n}\n\nvoid add_lp1_term_bwd",
               expect="c-mirror"),
        Mutant("wrong pointer stride in project_spline_to_conv", I, "inp_q += spline_stride;", "inp_q += orb_stride;",
               expect="c-mirror"),
        Mutant("pointer advance dropped in contract_rad_to_orb", C,
               "p_q[q] += val * theta_mq[mq];\n                    }\n                    p_q += stride;",
               "p_q[q] += val * theta_mq[mq];\n                    }", expect="c-mirror"),
        Mutant("offset of the dipole block in SDMXcontract_ao_to_bas_l1_bwd", S,
               "offset = 3 * nrf * ngrids;\n                    for (g = 0; g < bgrids; g++) {\n                        vb0tmp",
               "offset = 2 * nrf * ngrids;\n                    for (g = 0; g < bgrids; g++) {\n                        vb0tmp",
               expect="c-mirror"),
        Mutant("swapped x/y coefficient in add_lp1_term_onsite_bwd", I,
               "f_q[ig] += dx * f_q[ix];\n                f_q[ig] += dy * f_q[iy];\n                f_q[ig] += dz * f_q[iz];\n"
               "            }\n        }\n    }\n}\n\n// TODO might want",
               "f_q[ig] += dy * f_q[ix];\n                f_q[ig] += dx * f_q[iy];\n                f_q[ig] += dz * f_q[iz];\n"
               "            }\n        }\n    }\n}\n\n// TODO might want", expect="c-mirror"),
        Mutant("contract_rad_to_orb_num reads wrong m block", C,
               "theta_q = theta_rlmq + nalpha * (l * l + m + nlm * g);\n                        for (q = 0; q < nalpha; q++) {\n"
               "                            p_q[q] += theta_q[q] * f;",
               "theta_q = theta_rlmq + nalpha * (l * l + nlm * g);\n                        for (q = 0; q < nalpha; q++) {\n"
               "                            p_q[q] += theta_q[q] * f;", expect="c-mirror"),
        Mutant("grid offset dropped in SDMXcontract_ao_to_bas_grid_bwd", S,
               "_ao[g] += _ylm[g] * _vbas[g] * dx[g];", "_ao[g] += _ylm[g] * _vbas[g];", expect="c-mirror"),
        # ---- round 2: flattened loops, iteration spaces
        Mutant("forward contract_rad_to_orb flattened over (m,q), stride ignored", C,
               "                mq = 0;\n                for (m = 0; m < nm; m++) {\n"
               "                    for (q = 0; q < nalpha; q++, mq++) {\n                        p_q[q] += val * theta_mq[mq];\n"
               "                    }\n                    p_q += stride;\n                }",
               "                for (mq = 0; mq < nm * nalpha; mq++) {\n                    p_q[mq] += val * theta_mq[mq];\n"
               "                }", expect="c-mirror"),
        Mutant("project_spline_to_conv flattened over (p,q), spline stride ignored", I,
               "                    for (p = 0; p < 4; p++) {\n                        for (q = 0; q < nalpha; q++) {\n"
               "                            out_q[q] += inp_q[q] * w_p[p];\n                        }\n"
               "                        inp_q += spline_stride;\n                    }",
               "                    for (p = 0; p < 4 * nalpha; p++) {\n"
               "                        out_q[p % nalpha] += inp_q[p] * w_p[p / nalpha];\n                    }",
               expect="c-mirror"),
        Mutant("block length not clipped in SDMXcontract_ao_to_bas_grid_bwd", S,
               "bgrids = MIN(ip + blksize, ngrids) - ip;", "bgrids = blksize;", count=4, expect="c-mirror"),
        Mutant("block length not clipped in contract_shl_to_alpha_l1_bwd", S,
               "bgrids = MIN(blksize, ngrids - ip);", "bgrids = blksize;", count=2, expect="c-mirror"),
        Mutant("backward loop of add_lp1_term_bwd stops one element early", I,
               "        for (g = 0; g < n; g++) {\n            dx = coords[3 * g + 0] - atom_coord[0];\n"
               "            dy = coords[3 * g + 1] - atom_coord[1];\n            dz = coords[3 * g + 2] - atom_coord[2];\n"
               "            f_q = f + nf * g;\n            f_q[ig] = 0.0;",
               "        for (g = 0; g < n - 1; g++) {\n            dx = coords[3 * g + 0] - atom_coord[0];\n"
               "            dy = coords[3 * g + 1] - atom_coord[1];\n            dz = coords[3 * g + 2] - atom_coord[2];\n"
               "            f_q = f + nf * g;\n            f_q[ig] = 0.0;", expect="c-mirror"),
        Mutant("DGEMM row count changed in reduce_ylm_to_angc", G,
               "dgemm_(&NTRANS, &NTRANS, &nalpha, &nw, &nlm,", "dgemm_(&NTRANS, &NTRANS, &nalpha, &nw, &nalpha,",
               expect="c-mirror"),
        # ---- round 2: initialisation of accumulate-only outputs
        Mutant("forward convolution output buffer no longer zeroed", NG, "        conv_vq[:] = 0.0\n", "",
               expect="py-zeroinit"),
        Mutant("backward convolution output buffer no longer zeroed", NG, "        vtheta_uq[:] = 0.0\n", "",
               expect="py-zeroinit"),
        Mutant("backward projection target no longer zeroed", NG, "        vconv_vq[:] = 0.0\n", "",
               expect="py-zeroinit"),
        Mutant("l1 coefficient buffer allocated with np.empty in conv2spline", LI,
               "            f1_uq = np.zeros((self.l1atco.nao, 3 * self._n1))\n            for i1 in range(self._n1):\n"
               "                self._fill_l1_coeff_(f_uq, f1_uq, self._n0 + i1, 3 * i1, True)",
               "            f1_uq = np.empty((self.l1atco.nao, 3 * self._n1))\n            for i1 in range(self._n1):\n"
               "                self._fill_l1_coeff_(f_uq, f1_uq, self._n0 + i1, 3 * i1, True)", expect="py-zeroinit"),
        Mutant("EXX backward AO buffer allocated with np.empty", SX, "c0 = np.zeros((mol.nao_nr(), ngrids))",
               "c0 = np.empty((mol.nao_nr(), ngrids))", expect="py-zeroinit"),
        Mutant("zeroing of the forward output only when a flag is set", NG, "        conv_vq[:] = 0.0\n",
               "        if grad_mode:\n            conv_vq[:] = 0.0\n", expect="py-zeroinit"),
        # ---- round 4: operator order of the interpolation transform, scratch layouts
        Mutant("copy path scales before the solve when not fwd", PL,
               "                p_qu = _stable_solve(transform, p_qu)\n                if not fwd:\n"
               "                    p_qu = self.alpha_norms[:, None] * p_qu",
               "                if not fwd:\n                    p_qu = self.alpha_norms[:, None] * p_qu\n"
               "                p_qu = _stable_solve(transform, p_qu)", expect="py-branch"),
        Mutant("in-place path drops the forward scaling", PL,
               "                if fwd:\n                    p_qu[:] *= self.alpha_norms[:, None]\n", "", expect="py-branch"),
        Mutant("scratch table of SDMXcontract_rsq1 filled transposed", S,
               "conv_coeff[i * nprim + j] = conv_factor[j] * coeff[i * nprim + j];",
               "conv_coeff[j * nctr + i] = conv_factor[j] * coeff[i * nprim + j];", expect="c-scratch-layout"),
        Mutant("scratch table of SDMXcontract_rsq0 read transposed", S,
               "ectr[k * BLKSIZE + i] += eprim * conv_coeff[k * nprim + j];",
               "ectr[k * BLKSIZE + i] += eprim * conv_coeff[j * nctr + k];", expect="c-scratch-layout"),
        # ---- round 7: self-initialising wrappers clear only what they write
        Mutant("convert_rad2orb_ clears the whole orbital array", LC,
               "p_uq[:, offset : offset + nalpha] = 0.0", "p_uq[:] = 0.0", expect="py-clearwindow"),
        Mutant("convert_rad2orb_ clears the first nalpha columns instead of its window", LC,
               "p_uq[:, offset : offset + nalpha] = 0.0", "p_uq[:, 0:nalpha] = 0.0", expect="py-clearwindow"),
        # ---- round 11: reverting the fixes of defects found in the unpatched tree
        Mutant("revert e28697a: implicit-mode einsum in get_features_and_occ_derivs", NG,
               'np.einsum("xg,xg->g", rho_in[1:4], orb_rho_in[1:4])', 'np.einsum("xg,xg", rho_in[1:4], orb_rho_in[1:4])',
               expect="py-einsum-sibling"),
        Mutant("revert b597669: eval_vxc_vj_ reads nalpha from axis 1", PL,
               "        nalpha = p_i_qg[0].shape[0]\n        for i in range(len(p_i_qg)):\n            vf_qg[:nalpha] +=",
               "        nalpha = p_i_qg[0].shape[1]\n        for i in range(len(p_i_qg)):\n            vf_qg[:nalpha] +=",
               expect="py-axis"),
        Mutant("revert af610ee: _cache_ld_vectors loops over nk1", PL,
               "        for i in range(self.settings.nd1):\n            self._cached_ld_data.append",
               "        for i in range(self.settings.nk1):\n            self._cached_ld_data.append", expect="py-extent"),
        Mutant("revert b0e71ce: w0_rsp built only when n0 > 0", LI,
               "        if self._n0 > 0 or self._n1 > 0:\n", "        if self._n0 > 0:\n", expect="py-guarded-attr"),
        Mutant("revert 3f6398e: K default output allocated in the input basis", LC,
               "output = np.zeros((atco_out.nao, self.nalpha))", "output = np.zeros((atco_inp.nao, self.nalpha))",
               expect="py-default-shape"),
        Mutant("parent default output allocated with the wrong width", LC,
               "output = np.zeros((self.atco_inp.nao, self.nalpha))", "output = np.zeros((self.atco_inp.nao, self.nbeta))",
               expect="py-default-shape"),
        # ---- round 13: a skipped overwriting assignment
        Mutant("empty radial interval skips the BETA=0 DGEMM of compute_pot_convs_single_new", I,
               "            gq_ind = 0;\n            for (g = loc_i[ir]; g < loc_i[ir + 1]; g++) {\n                gp = ind_ord_fwd[g];\n"
               "                f_gq_tmp = f_gq + gp * nalpha;\n                for (p = 0; p < 4; p++) {\n"
               "                    spline_contrib = auxo_gp[g * 4 + p];\n                    for (q = 0; q < nalpha; q++, gq_ind++) {\n"
               "                        f_gpq_buf[gq_ind] =",
               "            if (ng == 0) {\n                continue;\n            }\n"
               "            gq_ind = 0;\n            for (g = loc_i[ir]; g < loc_i[ir + 1]; g++) {\n                gp = ind_ord_fwd[g];\n"
               "                f_gq_tmp = f_gq + gp * nalpha;\n                for (p = 0; p < 4; p++) {\n"
               "                    spline_contrib = auxo_gp[g * 4 + p];\n                    for (q = 0; q < nalpha; q++, gq_ind++) {\n"
               "                        f_gpq_buf[gq_ind] =", expect="c-skip-assign"),
        Mutant("empty angular shell skips the BETA=0 DGEMM of reduce_angc_to_ylm", G,
               "            theta_wq = theta_gq + rad_loc[r] * stride;\n            dgemm_(&NTRANS, &TRANS,",
               "            theta_wq = theta_gq + rad_loc[r] * stride;\n            if (nw < 1)\n                continue;\n"
               "            dgemm_(&NTRANS, &TRANS,", expect="c-skip-assign"),
        # ---- Python compositions
        Mutant("swap call order in spline2conv", LI,
               "            self._orb2spline_(\n                self.l1atco,\n                f_arlpq,\n                f1_uq,\n"
               "                self.wm_rsp,\n                self._n1 * 3,\n                self._n0,\n                0,\n"
               "                False,\n            )\n            for i1 in range(self._n1):\n"
               "                self._fill_l1_coeff_(f_uq, f1_uq, self._n0 + i1, 3 * i1, False)\n",
               "            for i1 in range(self._n1):\n"
               "                self._fill_l1_coeff_(f_uq, f1_uq, self._n0 + i1, 3 * i1, False)\n"
               "            self._orb2spline_(\n                self.l1atco,\n                f_arlpq,\n                f1_uq,\n"
               "                self.wm_rsp,\n                self._n1 * 3,\n                self._n0,\n                0,\n"
               "                False,\n            )\n", expect="py-reverse"),
        Mutant("fwd=False -> True in the backward convolution", NG,
               "self.ccl.multiply_atc_integrals(vconv_vq, output=vtheta_uq, fwd=False)",
               "self.ccl.multiply_atc_integrals(vconv_vq, output=vtheta_uq, fwd=True)", expect="py-reverse"),
        Mutant("fwd flag of the last projection in spline2conv", LI,
               "                offset_orb,\n                False,\n            )",
               "                offset_orb,\n                True,\n            )", expect="py-reverse"),
        Mutant("offset argument changed in project_grid2orb", LI,
               "self.l1atco, f1_uq, tmp_gq, 3 * self._n1, 0, self._n0, False",
               "self.l1atco, f1_uq, tmp_gq, 3 * self._n1, 0, 0, False", expect="py-reverse"),
        Mutant("offset argument changed in spline2conv fill_l1", LI,
               "self._fill_l1_coeff_(f_uq, f1_uq, self._n0 + i1, 3 * i1, False)",
               "self._fill_l1_coeff_(f_uq, f1_uq, self._n0 + i1, 3 * i1 + 1, False)", expect="py-reverse"),
        Mutant("rad2orb flag in the backward convolution", NG, "rad2orb=False,\n            offset=0,",
               "rad2orb=True,\n            offset=0,", expect="py-reverse"),
        Mutant("transform direction in the backward convolution", NG,
               "vtheta_uq, i=-1, fwd=False, inplace=True", "vtheta_uq, i=-1, fwd=True, inplace=True",
               expect="py-reverse"),
        Mutant("l+1 term applied after the onsite projections in project_grid2orb", LI,
               "            if self._n1 > 0:\n                self._run_onsite_lp1(tmp_gq, False)\n"
               "            self._run_onsite_orb2grid(self.atco, out_uq, tmp_gq, self._n0, 0, 0, False)\n",
               "            self._run_onsite_orb2grid(self.atco, out_uq, tmp_gq, self._n0, 0, 0, False)\n"
               "            if self._n1 > 0:\n                self._run_onsite_lp1(tmp_gq, False)\n", expect="py-reverse"),
        Mutant("backward onsite helper runs rad2orb before the angular reduction", LI,
               "        else:\n            self.grids_indexer.reduce_angc_ylm_(\n                f_rlmq,\n                f_gq,\n"
               "                a2y=not fwd,\n                offset=offset2,\n            )\n"
               "            atco.convert_rad2orb_(\n                f_rlmq,\n                f_uq,\n                self.grids_indexer,\n"
               "                self.grids_indexer.rad_arr,\n                rad2orb=not fwd,\n                offset=offset1,\n            )\n",
               "        else:\n            atco.convert_rad2orb_(\n                f_rlmq,\n                f_uq,\n                self.grids_indexer,\n"
               "                self.grids_indexer.rad_arr,\n                rad2orb=not fwd,\n                offset=offset1,\n            )\n"
               "            self.grids_indexer.reduce_angc_ylm_(\n                f_rlmq,\n                f_gq,\n"
               "                a2y=not fwd,\n                offset=offset2,\n            )\n", expect="py-reverse"),
        Mutant("l+1 fill on the wrong side of the interpolation kernel", LI,
               "                if not fwd:\n                    self._call_l1_fill(f_gq, self.atom_coords[a], fwd)",
               "                if fwd:\n                    self._call_l1_fill(f_gq, self.atom_coords[a], fwd)",
               expect="py-reverse"),
        Mutant("backward onsite offset uses o1 for both", LI,
               "self.atco, out_uq, tmp_gq, self._n1, o1, o2, False", "self.atco, out_uq, tmp_gq, self._n1, o1, o1, False",
               expect="py-reverse"),
        Mutant("EXX helper called forward in the backward contraction", SX,
               "            ylm=ylm,\n            bwd=True,", "            ylm=ylm,\n            bwd=False,", expect="py-reverse"),
        Mutant("fit matrix not transposed in SDMX get_vxc", PL,
               "out[0] += pyscflib.dot(fit_matrix.T, tmp[ifeat])\n        if n1 > 0:",
               "out[0] += pyscflib.dot(fit_matrix, tmp[ifeat])\n        if n1 > 0:", expect="py-reverse"),
        Mutant("gradient component index shifted in SDMX get_vxc", PL,
               "out[v + 1] += pyscflib.dot(fit_matrix.T, tmp1[ifeat, v])",
               "out[v] += pyscflib.dot(fit_matrix.T, tmp1[ifeat, v])", expect="py-reverse"),
        Mutant("both branches select the forward l1 kernel", LI,
               "            fn = libcider.fill_l1_coeff_bwd", "            fn = libcider.fill_l1_coeff_fwd", expect="py-select"),
        Mutant("a2y selects two unrelated kernels", GI, "fn = libcider.reduce_ylm_to_angc",
               "fn = libcider.reduce_angc_to_ylm", expect="py-select"),
        Mutant("vk wrapper always passes fwd=1", LC,
               "ctypes.c_int(1 if fwd else 0),", "ctypes.c_int(1),", count=2, expect="py-select"),
        Mutant("transform not transposed when not fwd", PL, "transform = self._alpha_transform.T",
               "transform = self._alpha_transform", expect="py-branch"),
        Mutant("in-place scaling after the solve in both directions", PL,
               "                if fwd:\n                    p_qu[:] *= self.alpha_norms[:, None]\n"
               "                p_qu[:] = _stable_solve(transform, p_qu)\n",
               "                p_qu[:] = _stable_solve(transform, p_qu)\n"
               "                if fwd:\n                    p_qu[:] *= self.alpha_norms[:, None]\n", expect="py-branch"),
        Mutant("copy path scales with a different factor when not fwd", PL,
               "                if not fwd:\n                    p_qu = self.alpha_norms[:, None] * p_qu",
               "                if not fwd:\n                    p_qu = self.alpha_norms[:, None] ** 2 * p_qu", expect="py-branch"),
    ]


if __name__ == "__main__":
    sys.exit(core.main(PROP, analyse, mutants, __doc__))
