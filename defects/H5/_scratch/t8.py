import cider_build
import numpy as np, sys
from pyscf import gto, dft
from ciderpress.pyscf.gen_cider_grid import CiderGrids
from ciderpress.pyscf.nldf_convolutions import PyscfNLDFGenerator
from ciderpress.dft.settings import *

theta_params = [1.0, 0.0, 0.03125]
vk = NLDFSettingsVK("MGGA", theta_params, "one", [[1.0, 0.0, 0.02], [2.0, 0.0, 0.04]], "exponential")
vj = NLDFSettingsVJ("MGGA", theta_params, "one", ["se"], [[2.0, 0.0, 0.04]])
mol = gto.M(atom="O 0 0 0; H 0.15 0.85 0.45; F -0.75 -0.35 0.95", basis="def2-svp", verbose=0, spin=0)
ks = dft.RKS(mol); ks.xc = "PBE"; ks.kernel(); dm = ks.make_rdm1()
mo = ks.mo_coeff
P = np.outer(mo[:, 5], mo[:, 13]); P = P + P.T
grids = CiderGrids(mol, lmax=6); grids.level = 0; grids.build(with_non0tab=True)
ni = dft.numint.NumInt()
ao = ni.eval_ao(mol, grids.coords, deriv=1)
rho0 = ni.eval_rho(mol, ao, dm, xctype="MGGA", with_lapl=False)
drho = ni.eval_rho(mol, ao, P, xctype="MGGA", with_lapl=False)
rng = np.random.default_rng(0)
for nm, st in [("vk", vk), ("vj", vj)]:
  for pt in ["gaussian", "spline"]:
    gen = PyscfNLDFGenerator.from_mol_and_settings(mol, grids.grids_indexer, 1, st, plan_type=pt)
    gen.interpolator.set_coords(grids.coords)
    f0 = gen.get_features(rho0)
    c = rng.normal(size=f0.shape) * grids.weights
    for mask_name, mask in [("all", np.ones(f0.shape[1], bool)), ("rho>1e-6", rho0[0] > 1e-6)]:
        cm = c * mask
        v = gen.get_potential(cm)
        an = np.sum(v * drho)
        for d in [1e-3, 1e-4]:
            fp = gen.get_features(rho0 + d * drho); fm = gen.get_features(rho0 - d * drho)
            fd = np.sum(cm * (fp - fm)) / (2 * d)
            print(nm, pt, mask_name, d, fd, an, abs(fd - an) / abs(fd), flush=True)
        gen.get_features(rho0)
