"""
C17: forces of an NLDF model with a ghost atom (counterpoise geometry),
grid_response=True, versus the finite-difference derivative of the SCF energy.

Root cause (printed at the end): rks_grad/uks_grad.get_vxc_nldf_full_response take the
Becke-weight derivatives from pyscf.grad.rks.grids_response_cc.  For ghost atoms that
routine (PySCF 2.14) adjusts the cell radii with mol.atom_charges() (0 for a ghost),
whereas the weights the energy is computed with (Grids.get_partition ->
treutler_atomic_radii_adjust) use the ghost's element.  The returned weight1 is thus the
derivative of a *different* partition.  For semilocal integrands the error nearly cancels
(the cell functions sum to one), but the NLDF features are built from per-atom projections
of weight * density, so the energy depends on the partition itself and the error is large.
"""
import os, sys
sys.path.insert(0, os.path.dirname(os.path.abspath(__file__)))
import mk  # noqa
import numpy as np
from pyscf import gto, dft
from pyscf.grad.rks import grids_response_cc
from ciderpress.pyscf.dft import make_cider_calc


def build(z, ml):
    mol = gto.M(atom="He 0 0 %.6f; ghost-He 0 0 2.0" % z, basis="6-31g", verbose=0, unit="Bohr")
    ks = dft.RKS(mol); ks.xc = "PBE"; ks.grids.level = 1
    ks = make_cider_calc(ks, ml, xmix=0.5, xkernel="GGA_X_PBE", ckernel="GGA_C_PBE")
    ks.conv_tol = 1e-11
    return ks


fail = 0
h = 1e-3
for label, nldf in [("semilocal CIDER model", None), ("NLDF (version j) CIDER model", "j")]:
    ml = mk.make_model("npa", nldf)
    ks = build(0.0, ml); ks.kernel()
    g0 = ks.nuc_grad_method().set(grid_response=False).kernel()
    try:
        g1 = ks.nuc_grad_method().set(grid_response=True).kernel()
    except NotImplementedError as e:
        print(label, ": grid_response=True raises NotImplementedError (%s); grid_response=False gives %.8f" % (e, g0[0, 2]))
        continue
    fd = (build(h, ml).kernel() - build(-h, ml).kernel()) / (2 * h)
    print(label)
    print("  dE/dz(He): finite difference %.8f | grid_response=True %.8f | grid_response=False %.8f"
          % (fd, g1[0, 2], g0[0, 2]))
    err = abs(g1[0, 2] - fd)
    print("  expected |analytic(grid response) - FD| <~ 1e-5, observed %.2e" % err)
    if err > 1e-4:
        fail += 1
# root cause
grids = ks.grids
off = 0
for ia, (c, w0, w1) in enumerate(grids_response_cc(grids)):
    n = w0.size
    aw = grids.grids_indexer.all_weights[off:off + n]
    print("atom %d: weights of grids_response_cc vs weights of the energy grid: max|diff| = %.2e, "
          "relative difference of their sums = %.2e" % (ia, np.abs(w0 - aw).max(), abs(w0.sum() - aw.sum()) / aw.sum()))
    off += n
sys.exit(1 if fail else 0)
