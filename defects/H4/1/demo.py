"""C04: the "RHO" baseline (baselines.nsp_rho_basline) returns a derivative array
that is not the gradient of the energy it returns.

e = mean_s X0T[s, 0]  =>  de/dX0T[s, 0] = 1/nspin, every other entry 0.
The code writes  dedx[0, :] += 1/nspin  (spin 0, ALL features) instead of
dedx[:, 0] += 1/nspin  (all spins, feature 0).

Checked (a) on the bare baseline and (b) through MappedXC.__call__ with RHO as the
multiplicative baseline in every spin mode, against central finite differences.
"""
import os
import sys

sys.path.insert(0, os.path.join(os.path.dirname(os.path.abspath(__file__)), "..", "common"))
import hx  # noqa: E402

hx.install()  # compiles model_utils.c / libxc_baselines.c and patches load_library

import numpy as np  # noqa: E402

from ciderpress.dft import baselines as B  # noqa: E402
from ciderpress.dft.transform_data import FeatureList, LMap, UMap  # noqa: E402
from ciderpress.dft.xc_evaluator import (  # noqa: E402
    GlobalLinearEvaluator,
    MappedDFTKernel,
    MappedXC,
)

rng = np.random.default_rng(0)
fail = False


def fd(func, X0T, h=1e-6):
    g = np.zeros_like(X0T)
    for s in range(X0T.shape[0]):
        for i in range(X0T.shape[1]):
            Xp = X0T.copy()
            Xp[s, i] += h
            Xm = X0T.copy()
            Xm[s, i] -= h
            g[s, i] = (func(Xp)[0] - func(Xm)[0]) / (2 * h)
    return g


print("(a) bare baseline BASELINE_CODES['RHO']")
for nspin in [1, 2]:
    X0T = rng.uniform(0.3, 2.0, size=(nspin, 4, 3))
    e, dedx = B.BASELINE_CODES["RHO"](X0T)
    g = fd(B.BASELINE_CODES["RHO"], X0T)
    err = np.abs(g - dedx).max()
    print("  nspin=%d: max|FD - analytic| = %.3e" % (nspin, err))
    print("    expected d e/d X0T[:, :, 0] =\n", g[:, :, 0])
    print("    observed               =\n", dedx[:, :, 0])
    fail |= err > 1e-6

print("(b) MappedXC.__call__ with multiplicative baseline RHO")
fl = FeatureList([UMap(1, 0.3), UMap(2, 0.5), LMap(3)])
fev = GlobalLinearEvaluator(rng.normal(size=3))
for mode in ["SEP", "NPOL"]:
    for nspin in [1, 2]:
        X0T = rng.uniform(0.3, 2.0, size=(nspin, 4, 5))
        model = MappedXC(
            [MappedDFTKernel(fev, fl, mode, B.BASELINE_CODES["RHO"], B.zero_xc)], None
        )
        res, dres = model(X0T)
        g = fd(model, X0T)
        err = np.abs(g - dres).max()
        print("  mode=%s nspin=%d: max|FD - analytic| = %.3e" % (mode, nspin, err))
        fail |= err > 1e-6

if fail:
    print("FAIL: derivative of the RHO baseline is not the gradient of its energy")
    sys.exit(1)
print("OK")
