import cider_build
import numpy as np
from ciderpress.dft.plans import NLDFGaussianPlan, NLDFSplinePlan
from ciderpress.dft.settings import NLDFSettingsVJ, NLDFSettingsVK
vj = NLDFSettingsVJ("MGGA", [1.0, 0.0, 0.03125], "one", ["se", "se_ar2"], [[2.0, 0.0, 0.04], [1.0, 0.0, 0.02]])
vk = NLDFSettingsVK("MGGA", [1.0, 0.0, 0.03125], "one", [[1.0, 0.0, 0.02], [2.0, 0.0, 0.04]], "exponential")
rng = np.random.default_rng(0)
na = 9; ng = 17
for st in [vj, vk]:
  for order in ["gq", "qg"]:
    plan = NLDFGaussianPlan(st, 1, 0.01, 1.8, na, coef_order=order)
    shape = (ng, na) if order == "gq" else (na, ng)
    for i in [-1, 0]:
        x = rng.normal(size=shape); y = rng.normal(size=shape)
        res = {}
        for fwd in [True, False]:
            for inplace in [True, False]:
                xin = x.copy()
                out = plan.get_transformed_interpolation_terms(xin, i=i, fwd=fwd, inplace=inplace)
                res[fwd, inplace] = out.copy()
                if not inplace:
                    assert np.array_equal(xin, x), "input modified"
            print(st.version, order, i, "fwd" if fwd else "bwd", "inplace-vs-copy diff %.1e" % np.abs(res[fwd, True] - res[fwd, False]).max())
        Ax = plan.get_transformed_interpolation_terms(x.copy(), i=i, fwd=True)
        By = plan.get_transformed_interpolation_terms(y.copy(), i=i, fwd=False)
        print("   adjoint: %.12e %.12e" % (np.sum(Ax * y), np.sum(x * By)))
