"""Mutation self-test for the thorough tier.

A Mutant is a single edit of one repository file, applied to an in-memory
overlay (Python) or to a scratch copy of the one file (C, see sa.cfacts); the
analysis is re-run on the overlaid tree and must report a finding that the
unmutated tree does not report.  Anchors are located in the *current* source;
an anchor that is absent (the tree was refactored) makes the mutant `skipped`,
never a failure.  An unmutated twin (empty overlay) must stay silent.
"""
import concurrent.futures as cf
import multiprocessing as mp
import random
import re

from sa import core


class Mutant:
    def __init__(self, name, rel, old=None, new=None, count=1, fn=None, expect=None, regex=False):
        """Replace the `count`-th (1-based) occurrence of `old` by `new` in file
        `rel`; or fn(text) -> text|None.  expect: rule id (prefix) that must fire."""
        self.name = name
        self.rel = rel
        self.old = old
        self.new = new
        self.count = count
        self.fn = fn
        self.expect = expect
        self.regex = regex

    def apply(self, text):
        if self.fn is not None:
            return self.fn(text)
        if self.regex:
            ms = list(re.finditer(self.old, text))
            if len(ms) < self.count:
                return None
            m = ms[self.count - 1]
            return text[: m.start()] + m.expand(self.new) + text[m.end():]
        idx = -1
        for _ in range(self.count):
            idx = text.find(self.old, idx + 1)
            if idx < 0:
                return None
        return text[:idx] + self.new + text[idx + len(self.old):]


_STATE = {}


def _one(i):
    prop, analyse, muts, tree, base_keys = (
        _STATE["prop"], _STATE["analyse"], _STATE["muts"], _STATE["tree"], _STATE["base"])
    own = _STATE.get("own")
    m = muts[i]
    if own is not None and own is not analyse:
        # fast path: the property's own rules only (no cross-included analyses);
        # fall back to the full analysis when they do not report the mutant
        r = _run_one(prop, own, m, tree, base_keys)
        if r[0] in ("detected", "skipped"):
            return (i,) + r
    return (i,) + _run_one(prop, analyse, m, tree, base_keys)


def _run_one(prop, analyse, m, tree, base_keys):
    try:
        text = tree.read(m.rel)
    except core.AnalysisError:
        return ("skipped", "file absent")
    new = m.apply(text)
    if new is None or new == text:
        return ("skipped", "anchor absent")
    t2 = tree.with_overlay({m.rel: new})
    chk = core.run_analysis(prop, analyse, t2)
    fresh = [f for f in chk.findings if f.key not in base_keys]
    if m.expect:
        hit = [f for f in fresh if f.rule.startswith(m.expect)]
    else:
        hit = fresh
    if hit:
        return ("detected", hit[0].text())
    if chk.errors:
        # an analysis error on a mutant is a fail-closed reaction (exit 2), it
        # is not a silent pass; recorded separately
        return ("failclosed", chk.errors[0][:200])
    return ("missed", "")


def run(prop, analyse, mutants, tree, jobs=16, seed=0, own=None):
    muts = list(mutants(tree))
    random.Random(seed).shuffle(muts)
    base = core.run_analysis(prop, analyse, tree)
    base_keys = {f.key for f in base.findings}
    _STATE.update(prop=prop, analyse=analyse, muts=muts, tree=tree, base=base_keys, own=own)
    res = []
    if jobs > 1 and len(muts) > 1:
        ctx = mp.get_context("fork")
        with cf.ProcessPoolExecutor(max_workers=min(jobs, len(muts)), mp_context=ctx) as ex:
            res = list(ex.map(_one, range(len(muts))))
    else:
        res = [_one(i) for i in range(len(muts))]
    out = {"applied": 0, "detected": 0, "skipped": 0, "failclosed": 0, "missed": [], "details": []}
    for i, status, info in res:
        m = muts[i]
        if status == "skipped":
            out["skipped"] += 1
        else:
            out["applied"] += 1
            if status == "detected":
                out["detected"] += 1
            elif status == "failclosed":
                out["failclosed"] += 1
                out["detected"] += 1
            else:
                out["missed"].append(m.name)
        out["details"].append({"mutant": m.name, "file": m.rel, "status": status, "report": info[:240]})
    # twin: the unmutated tree analysed a second time must give the same keys
    twin = core.run_analysis(prop, analyse, tree)
    out["twin_silent"] = {f.key for f in twin.findings} == base_keys
    return out
