"""C18 demo: settings constructors accept invalid parameters instead of raising:
 (a) negative feature counts (FracLaplSettings nk0/nk1/nd1/ndd, SDMXGSettings ndt,
     SDMX1Settings n1, SDMXG1Settings nd/n1, SDMXFullSettings counts) -> objects whose
     nfeat / usps / ueg vector / normaliser list disagree;
 (b) a non-positive erf/rinv exponent ratio for the 'se_erf_rinv' spec."""
import sys

import numpy as np

from ciderpress.dft.settings import (
    FracLaplSettings,
    NLDFSettingsVJ,
    SDMX1Settings,
    SDMXFullSettings,
    SDMXG1Settings,
    SDMXGSettings,
)

fails = 0


def lens(s):
    out = [s.nfeat]
    for meth in ("get_feat_usps", "ueg_vector", "get_reasonable_normalizer"):
        try:
            out.append(len(getattr(s, meth)()))
        except Exception as e:  # noqa: BLE001
            out.append(type(e).__name__)
    return out


def expect_rejected(tag, fn):
    global fails
    try:
        s = fn()
    except (ValueError, AssertionError, TypeError) as e:
        print("ok   %-42s rejected (%s)" % (tag, type(e).__name__))
        return
    nf, nu, ng, nn = lens(s)
    print("FAIL %-42s ACCEPTED: nfeat=%s len(usps)=%s len(ueg)=%s len(normalizers)=%s"
          % (tag, nf, nu, ng, nn))
    fails += 1


def expect_consistent(tag, fn):
    global fails
    s = fn()
    nf, nu, ng, nn = lens(s)
    ok = nf == nu == ng == nn
    print("%s %-42s valid: nfeat=%s usps=%s ueg=%s norm=%s" % (
        "ok  " if ok else "FAIL", tag, nf, nu, ng, nn))
    fails += 0 if ok else 1


# controls: valid counts are consistent, too-large counts are rejected
expect_consistent("SDMXGSettings([0,1,2], 2)", lambda: SDMXGSettings([0, 1, 2], 2))
expect_consistent("SDMXG1Settings([0,1,2], 1, 2)", lambda: SDMXG1Settings([0, 1, 2], 1, 2))
expect_consistent("FracLaplSettings(nk0=1,nk1=1,nd1=1,ndd=1)",
                  lambda: FracLaplSettings([0.5], 1, 1, [(0, 0)], 1, [(0, -1)], 1))
expect_rejected("SDMXGSettings([0,1,2], 4)", lambda: SDMXGSettings([0, 1, 2], 4))
expect_rejected("FracLaplSettings(nk0=3 > npow)", lambda: FracLaplSettings([0.5], 3, 0, []))

# (a) negative counts
expect_rejected("SDMXGSettings([0,1,2], -1)", lambda: SDMXGSettings([0, 1, 2], -1))
expect_rejected("SDMX1Settings([0,1,2], -1)", lambda: SDMX1Settings([0, 1, 2], -1))
expect_rejected("SDMXG1Settings([0,1,2], -1, 1)", lambda: SDMXG1Settings([0, 1, 2], -1, 1))
expect_rejected("SDMXG1Settings([0,1,2], 1, -1)", lambda: SDMXG1Settings([0, 1, 2], 1, -1))
expect_rejected("SDMXFullSettings({1.0:([0,1,2],[-1,0,0,0])})",
                lambda: SDMXFullSettings({1.0: ([0, 1, 2], [-1, 0, 0, 0])}))
expect_rejected("FracLaplSettings(nk0=-1)", lambda: FracLaplSettings([0.5, 1.0], -1, 1, [(0, 0)]))
expect_rejected("FracLaplSettings(nk1=-1)", lambda: FracLaplSettings([0.5, 1.0], 1, -1, []))
expect_rejected("FracLaplSettings(nd1=-1, ndd=-1)",
                lambda: FracLaplSettings([0.5, 1.0], 1, 0, [], -1, [], -1))
expect_rejected("FracLaplSettings(nd1=1, ndd=-1)",
                lambda: FracLaplSettings([0.5, 1.0], 1, 0, [], 1, [], -1))

# (b) non-positive exponent (ratio) for se_erf_rinv
th = [1.0, 0.0, 0.03]
expect_rejected("VJ se_erf_rinv a0=-1 (control)",
                lambda: NLDFSettingsVJ("MGGA", th, "one", ["se_erf_rinv"], [[-1.0, 0.0, 0.03, 2.0]]))
for erf_mul in (0.0, -2.0):
    expect_rejected("VJ se_erf_rinv erf_mul=%g" % erf_mul,
                    lambda: NLDFSettingsVJ("MGGA", th, "one", ["se_erf_rinv"],
                                           [[1.0, 0.0, 0.03, erf_mul]]))
try:
    s = NLDFSettingsVJ("MGGA", th, "one", ["se_erf_rinv"], [[1.0, 0.0, 0.03, -2.0]])
    with np.errstate(all="ignore"):
        print("     ueg_vector of the accepted erf_mul=-2 settings at rho=0.3:",
              s.ueg_vector(0.3))
except Exception as e:  # noqa: BLE001
    print("     (erf_mul=-2 follow-up:", repr(e), ")")

print("failures:", fails)
sys.exit(1 if fails else 0)
