import cider_build
import numpy as np, sys
from pyscf import gto, dft
from ciderpress.pyscf.gen_cider_grid import CiderGrids
from ciderpress.pyscf.nldf_convolutions import PyscfNLDFGenerator
from ciderpress.dft.settings import *

vj_specs = ["se", "se_ar2", "se_a2r4", "se_erf_rinv"]
mol = gto.M(atom="O 0 0 0; H 0.15 0.85 0.45; F -0.75 -0.35 0.95", basis="def2-svp", verbose=0, spin=0)
ks = dft.RKS(mol); ks.xc = "PBE"; ks.kernel(); dm = ks.make_rdm1()
mo = ks.mo_coeff
P = np.outer(mo[:, 5], mo[:, 13]); P = P + P.T
grids = CiderGrids(mol, lmax=6); grids.level = 0; grids.build(with_non0tab=True)
ni = dft.numint.NumInt()
ao = ni.eval_ao(mol, grids.coords, deriv=1)
rho0 = ni.eval_rho(mol, ao, dm, xctype="MGGA", with_lapl=False)
drho = ni.eval_rho(mol, ao, P, xctype="MGGA", with_lapl=False)
rng = np.random.default_rng(0)
for lvl in ["GGA", "MGGA"]:
    n = 2 if lvl == "GGA" else 3
    theta = [1.0, 0.3, 0.03125][:n]
    fp = [[2.0, 0.2, 0.04][:n] for i in range(4)]
    fp[-1].append(2.0)
    for rm in ["one", "expnt"]:
        vij = NLDFSettingsVIJ(lvl, theta, rm, ["se_ap", "se_r2", "se_lapl"], ["se_grad", "se_rvec"], [(0, 0), (1, -1), (0, 1), (-1, 0)], vj_specs, fp)
        vi = NLDFSettingsVI(lvl, theta, rm, ["se_ap", "se_r2", "se_lapl"], ["se_grad", "se_rvec"], [(0, 0), (1, -1), (0, 1), (-1, 0)])
        vk = NLDFSettingsVK(lvl, theta, rm, [[1.0, 0.1, 0.02][:n], [2.0, 0.0, 0.04][:n]], "exponential")
        for nm, st in [("vij", vij), ("vi", vi), ("vk", vk)]:
            for pt in ["gaussian", "spline"]:
                g1 = PyscfNLDFGenerator.from_mol_and_settings(mol, grids.grids_indexer, 1, st, plan_type=pt, interpolator_type="train_gen")
                g1.interpolator.set_coords(grids.coords)
                g2 = PyscfNLDFGenerator.from_mol_and_settings(mol, grids.grids_indexer, 1, st, plan_type=pt, interpolator_type="onsite_spline")
                g2.interpolator.set_coords(grids.coords)
                feat, occd = g1.get_features_and_occ_derivs(rho0, drho[None])
                f2 = g2.get_features(rho0)
                m = rho0[0] > 1e-8
                c = rng.normal(size=feat.shape) * grids.weights * m
                v = g2.get_potential(c)
                l = np.sum(c * occd[0]); r = np.sum(v * drho)
                print(lvl, rm, nm, pt, "feat diff %.1e" % (np.abs(feat - f2)[:, m].max() / np.abs(feat).max()), l, r, "%.2e" % (abs(l - r) / abs(l)), flush=True)
