"""sdmx_slow.EXXSphGenerator(lowmem=True) must give the same SDMX features and
potential as lowmem=False (and as the fast generator) for every settings object.
On the current code it raises for every settings object WITHOUT l=1 features."""
import os
import sys

sys.path.insert(0, os.path.dirname(os.path.abspath(__file__)))
import cider_boot

cider_boot.boot()
import numpy as np
from pyscf import dft, gto

from ciderpress.dft.settings import (
    SADMSettings,
    SDMX1Settings,
    SDMXFullSettings,
    SDMXGSettings,
    SDMXSettings,
)
from ciderpress.pyscf import sdmx, sdmx_slow

mol = gto.M(atom="O 0 0 0; H 0 0.76 0.59; H 0 -0.76 0.59", basis="cc-pvdz", verbose=0)
ks = dft.RKS(mol)
ks.xc = "PBE"
ks.grids.level = 0
ks.kernel()
dm = ks.make_rdm1()
coords = np.ascontiguousarray(ks.grids.coords[::37][:200])

cases = {
    "SADMSettings('smooth')": SADMSettings("smooth"),
    "SDMXSettings([0,1,2])": SDMXSettings([0, 1, 2]),
    "SDMXGSettings([1,0,2],2)": SDMXGSettings([1, 0, 2], 2),
    "SDMXFullSettings(l0 only)": SDMXFullSettings({1.0: ([0, 1], [2, 1, 0, 0])}),
    "SDMX1Settings([2,1,0],2) (has l=1)": SDMX1Settings([2, 1, 0], 2),
}
nfail = 0
for name, st in cases.items():
    ref = sdmx_slow.EXXSphGenerator.from_settings_and_mol(st, 1, mol)
    f_ref = ref.get_features(dm, mol, coords)
    vg = np.random.RandomState(1).normal(size=f_ref.shape)
    v_ref = ref.get_vxc_(np.zeros_like(dm), vg)
    fast = sdmx.EXXSphGenerator.from_settings_and_mol(st, 1, mol)
    f_fast = fast.get_features(dm, mol, coords)
    print("%-36s fast vs slow: max|df| = %.1e" % (name, np.abs(f_fast - f_ref).max()))
    low = sdmx_slow.EXXSphGenerator.from_settings_and_mol(st, 1, mol, lowmem=True)
    try:
        f_low = low.get_features(dm, mol, coords)
        v_low = low.get_vxc_(np.zeros_like(dm), vg)
    except Exception as e:
        print("   lowmem=True: expected the same features, observed", repr(e))
        nfail += 1
        continue
    ef = np.abs(f_low - f_ref).max()
    ev = np.abs(v_low - v_ref).max()
    print("   lowmem=True: max|df| = %.1e  max|dvxc| = %.1e" % (ef, ev))
    if ef > 1e-10 or ev > 1e-10:
        nfail += 1
if nfail:
    print("FAIL: lowmem=True disagrees / crashes for %d settings objects" % nfail)
    sys.exit(1)
print("OK")
