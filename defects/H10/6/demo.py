"""C18 demo: a valid version-i NLDF settings object that has only l=1 (vector)
features -- NLDFSettingsVI(l0_feat_specs=[], l1_feat_specs=[...]) -- is accepted by
the settings, plan and initialiser classes, but the generator dies with a bare
AssertionError in LCAOInterpolator._orb2spline_, because the l=0 radial spline table
w0_rsp is only built when n0 > 0 although the l+1 part of every l=1 feature needs it."""
import os
import sys

sys.path.insert(0, os.path.dirname(os.path.abspath(__file__)))
import cider_env  # noqa: E402

cider_env.install()

import numpy as np  # noqa: E402
from pyscf import dft, gto  # noqa: E402

from ciderpress.dft.settings import NLDFSettingsVI  # noqa: E402
from ciderpress.pyscf.gen_cider_grid import CiderGrids  # noqa: E402
from ciderpress.pyscf.nldf_convolutions import PyscfNLDFGenerator  # noqa: E402

mol = gto.M(atom="He 0 0 0; H 0 0 1.2", basis="sto-3g", verbose=0, charge=1)
grids = CiderGrids(mol, lmax=4)
grids.level = 0
grids.build()
dm = dft.RKS(mol).get_init_guess()
ao = dft.numint.eval_ao(mol, grids.coords, deriv=1)
rho = dft.numint.eval_rho(mol, ao, dm, xctype="MGGA", with_lapl=False)

theta = [1.0, 0.0, 0.03]
dots = [(0, 0), (-1, 0), (1, 0)]
l1 = ["se_grad", "se_rvec"]
s_l1only = NLDFSettingsVI("MGGA", theta, "one", [], l1, dots)
s_ref = NLDFSettingsVI("MGGA", theta, "one", ["se"], l1, dots)
print("settings accepted: nfeat =", s_l1only.nfeat, " usps =", s_l1only.get_feat_usps(),
      " ueg =", s_l1only.ueg_vector())


def features(settings):
    gen = PyscfNLDFGenerator.from_mol_and_settings(
        mol, grids.grids_indexer, 1, settings, plan_type="gaussian",
        aux_lambd=2.0, alpha_max=1000,
    )
    gen.interpolator.set_coords(grids.coords)
    return gen.get_features(rho)


ref = features(s_ref)
print("reference settings (one extra l=0 feature): feature array", ref.shape)
fails = 0
try:
    feat = features(s_l1only)
except AssertionError as e:
    import traceback

    tb = traceback.extract_tb(e.__traceback__)[-1]
    print("expected: %d features equal to rows 1: of the reference" % s_l1only.nfeat)
    print("observed: AssertionError at %s:%d (%s)" % (
        os.path.basename(tb.filename), tb.lineno, tb.line))
    fails += 1
else:
    err = np.abs(feat - ref[1:]).max()
    print("l1-only settings: feature array", feat.shape,
          " max|diff to reference rows| = %.3e" % err)
    if feat.shape != (s_l1only.nfeat, ref.shape[1]) or err > 1e-10:
        fails += 1

print("failures:", fails)
sys.exit(1 if fails else 0)
