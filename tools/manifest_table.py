"""Per-property MANIFEST entries (edited by hand; MANIFEST.json is generated)."""
ASSUME = "Trusted base: CPython's ast parser / clang-14's parser and type resolution, the rule tables frozen in the checker (each confirmed by reading the pinned tree). Decides only the named structural clauses; numerical behaviour is not decided."
CHECKS = [
 {"property_id": "C14",
  "text": "Decides, for all 21 registered feature-map classes, SplineSetEvaluator and ElectronAnalyzer, that (1) the class code, the code written by as_dict and the registry key coincide and are unique, (2) every constructor parameter is closed under attribute -> as_dict key -> from_dict read -> same parameter, (3) every attribute read by the evaluation methods is restored, derived from restored attributes, or a class constant, (4) unknown codes/formats/types raise on every path, (5) yaml.load uses a loader able to rebuild what yaml.dump wrote. These are necessary conditions for reload-equality quantified over every registered class and path; bit-identity of the numerical evaluation is not decided (it follows only under the stated determinism assumption).",
  "design_ref": "DESIGN.md §2 C14", "note": ASSUME,
  "technique": "static analysis: ast-based closed-attribute-loop (def-use) check over the class registry, CFG must-raise ladders, loader pairing"},
]
DONE = {c["property_id"] for c in CHECKS}
_REASON = "check not yet built in this round; see DESIGN.md §2 for the planned static rules"
NOT_APPLICABLE = [{"property_id": "C%02d" % i, "reason": _REASON} for i in range(1, 21) if "C%02d" % i not in DONE]
